"""C18 - PE artifacts and the deduced version are reported correctly (structural part).

The rules are phrased on *roles*, not on the spelling of the analysed code:

* expressions are brought into a canonical form first (`_Canon`): single-definition temporaries substituted, values
  unpacked/indexed from a tuple traced to the element, struct parses on the stream named DOS/FILE/OPT/SECTION/EXPORT,
  the result of find_mz_offset named MZ, the index of a `range` loop named `_i_`; positions and bounds are compared as
  polynomials over these roles, conditions as sets of `p >= 0` facts taken from the dominating branch edges; a parse
  whose struct *type* is itself selected (conditional expression, lookup on the Machine field in a literal table, through
  temporaries) is a parse of the common role with one alternative per selectable type;
* case distinctions (which machines a scanner accepts / maps to which architecture, which optional header is parsed) are
  decided by evaluating the dominating conditions for every Machine value of the code's own vocabulary (the
  IMAGE_FILE_MACHINE_* defines of PE_DEF and of the reference table) plus one "any other value" case, including the
  conditions that dominated the definitions a value was traced through; literal tables keyed by the Machine (a dict
  display in place, a module-level constant dict, the same behind `MappingProxyType(..)`/`dict(..)`) are resolved per
  case: `T[m]`, `T.get(m[, d])`, `m in T`, and comparisons of the selected value with None / a constant;
* loop-free code (BeaconConfig.version, BeaconVersion.__init__, the lookups, find_magic_mz) is walked path-wise
  (`_SymExec`): every value stays a symbolic *term* over the inputs (never a concrete datum), a branch is pruned only
  when its test is decided by the named assumption of the case under analysis (the abstract outcomes of the code's own
  tests: export stamp None / 0 / non-zero, the key of the deciding version-table lookup present / absent, optional regex
  group took part or not, DOS stub found or not), every other test forks; so nested ifs / guard clauses / conditional expressions / temporaries / walrus / comprehensions over
  literal sequences / loops over literal tuples all yield the same terms;
* the version regex is judged on its parsed syntax tree (`re._parser.parse`), never by matching strings;
* the bytes a finder reports (PE magic, prepend, append) are located as "the stream read that flows into the returned
  value" and judged on the chain of operations between the read and the return (`_ByteFlow`), whatever temporaries,
  helpers (inlined), conditional expressions or `or`/`and` forms carry the value.

An obligation is *undecided* only when the construct it talks about cannot be located (no DOS header parse, no candidate
loop over a range, a header parsed by a call whose struct type cannot be identified, a version that is not built from the
two lookups / tables in a recognised way, a value that is not computed from the match groups, a statement kind the path
walk does not model, a regex construct outside the recognised forms ...).

Technique
---------
(numbers refer to the ALLOWED list of RULES_GUIDE.md, "What counts as static here"; no rule interprets analysed code on
concrete data, enumerates numeric inputs, unrolls over input sizes, or matches sample strings)

R1  6 (PE_DEF parsed by the C-definition parser; struct sizes, field offsets/widths and #defines compared completely
    with the PE/COFF reference table; signedness: per structure of the reference table, every scalar integer member has
    the signedness of the format - unsigned, e_lfanew signed - judged on the base type the parser resolves the declared
    type to, so equivalent spellings ULONG/DWORD/UINT/uint32 are the same) + 1 (the members concerned are those whose
    name is loaded as an attribute somewhere in the package: who-may-read by name; a member nobody reads is not judged,
    a member whose type cannot be resolved is undecided).
R2  1, 3 (file-position typestate of csverif.cursor: seek/parse/read sites with symbolic positions; positions
    canonicalised to polynomials over roles by substituting definitions and compared in SymPoly normal form; a `range`
    loop contributes its index as the symbol `_i_`, the body is looked at once), 2 (the conditions under which a section
    is chosen are the dominating branch edges, turned into a set of `p >= 0` facts and compared by set inclusion with
    the two required facts; lemma L1), 6 (constant folding of the data-directory index), 5 (a parse through a selected
    struct type: one alternative per type of the code's own table / conditional expression; the position advances by the
    symbolic size of the parsed local, as for an if/else over two parses).
    EXIT "compile stamp reported once the file header is parsed" (find_compile_stamps): 1 (the struct parses that come
    after the IMAGE_FILE_HEADER parse; the handlers of the enclosing `try` that may catch their EOFError, lemma L10) +
    2 (graph paths: the completed file header parse must not reach the point before such a parse - a CFG predecessor of
    its statement - without passing a definition of the returned local from FILE.TimeDateStamp, when the handler leads to
    a return of the pair past those definitions) + 3 (the first element of the returned pair traced to its
    definitions; canonical FILE.TimeDateStamp).  Undecided when the first element is not a local defined by plain
    assignments of None / FILE.TimeDateStamp.  The calls of one statement are ordered by evaluation (post-order), not by
    source position, so a parse inside a seek argument - as left by an inlined helper - happens before the seek.
R3  1, 3 (canonical summary of each scanner: search range, start term, header positions, e_lfanew facts, exception
    handlers - compared structurally), 2 + 5 (accepted machines, machine -> architecture and optional-header variant:
    three-valued evaluation of the dominating conditions per Machine value of the code's/reference vocabulary plus one
    "any other value" case whose comparisons with constants outside the vocabulary stay unknown), 6 (literal dict
    lookups on the Machine field - displays and module-level constant tables - resolved per case; the optional-header
    variant of a selected struct type is the table row / branch of the case); EXIT "a rejected candidate does not end the
    scan": 1 (the exits of the candidate loop on the syntax tree: return, raise, a break bound to this loop) + 2 (the
    branch edges *inside the loop* that dominate the exit, through the definitions the tested values were traced through)
    + 5 (case distinction on FILE.Machine: a return whose value is None in a case that reaches it, or a break / raise
    reached by a case other than x86/x64, ends the search at a candidate the other scanners skip; tests on e_lfanew stay
    symbolic; a case that only *may* reach the exit, or an exit under a condition that is not on the candidate's headers,
    is undecided); an exit in an exception handler is located-and-wrong only when the handler guards the file header
    parse (its position comes from the candidate's own e_lfanew), otherwise undecided; lemma L10.  A local that is
    returned after the loop (`found = None` ... `found = <hit>; break` ... `return found`) is traced to the definitions
    that flow into it (3), so that shape is judged like the early return.
R4  6 (the two version tables are read as constant dict displays and checked completely: every value is parsed with
    the checker's own format parser - the analysed data are constants of the tables, no code of the package is involved -
    keys unique, (version, date) monotone in key order, releases contiguous).
R5  precedence: 3 (path-wise value flow through BeaconConfig.version; the returned term is read as a *source chain*
    "entry of the first table that has its key, else a default" - calls of the two lookups by their contract, the class
    on `T.get(k[, d])` / `T[k]` / `a or b` / constants; lemma L9) + 5/2 (case analysis over the abstract outcomes of the
    truth test of an Optional[int]: None, 0, non-zero, lemmas L2, L3; times the outcome of the lookup that has to
    decide: key present / absent - the required chain is "the entry" resp. 'Unknown', so a present but unlisted export
    stamp must not fall back to the setting index) + 6 (lookups with the constant keys None / 0 decided against the
    constant keys of the table); lookups: 3 (returned term) + 1; regex: 6 (syntax tree of REGEX_VERSION from `re._parser.parse`:
    named groups, digit classes, repeat bounds, the optional sub-pattern, literal separators; the repeat bounds are
    compared with the component widths found in the two tables; lemma L4); constructor: 3 + 5 (path-wise value flow
    with the match object symbolic; cases: optional group took part / did not; lemmas L4, L5); terms compared
    structurally; ALIAS "version follows the current export stamp": 1 (instance attributes the property assigns,
    memoising decorators; who-may-write over the package for every instance attribute the stored term or its path
    condition reads) + 3/5 (path-wise value flow in two abstract cases: the freshly constructed object - the assigned
    attribute has the constant the constructor gives it; this is also the case in which the precedence is analysed - and
    "a result is stored" - the attribute is not None: does a return hand out the stored attribute without
    recomputation?).  Violated when a stored result is reused although a plain attribute it was computed from is
    assigned after construction somewhere in the package and nothing else resets the store; undecided when the store is
    reset elsewhere, when the reuse is conditional on other attributes, or when no such assignment exists (clients may
    still assign).
R6  1, 3 (the reads that flow into the returned pair; positions and lengths as polynomials; accumulating loops and
    `sum(..)` over the section table summarised once as a symbolic SUM atom - no unrolling; a position local with
    several definitions is followed path-wise: one position polynomial per definition that reaches the seek - reaching
    definitions, `x += E` outside a loop continued with the definitions reaching it, a plain assignment in the body of a
    `for x in T` read with x = T[-1] (the definition that leaves the loop), a conditional expression split into its
    branches - each judged on its own: it must be MZ + OPT.SizeOfHeaders + SUM, or MZ + OPT.SizeOfHeaders under the fact
    "the table is empty"; an alternative that reads the section table only through entries selected by a constant
    index (`T[-1].PointerToRawData + T[-1].SizeOfRawData`, `.. + T[0].SizeOfRawData`) is located and wrong: the end of
    the image depends on every entry, the table is not ordered by file position), 2 (the facts of an alternative: the
    branch edges dominating its definitions, plus the edge of an `if` that lies on all CFG paths carrying the definition
    to the seek past the other definitions; the facts about the table are read as "empty" / "non-empty" / something
    else by lemma L11; an alternative whose conditions are of another form, or that another table-dependent
    definition can override, is undecided), 2 + 4 (the prepend read is
    dominated by a fact that excludes image base 0: nonzero/interval reasoning on the dominating facts, lemma L6),
    6 (DOS stub constants), find_magic_mz: 3 + 5 (path-wise value flow; cases: each of the two stubs found / not found -
    the outcomes of the code's own searches; lemmas L7, L8).
R7  3 (the value a finder reports - the returned value of find_magic_pe, each element of the pair displays returned by
    find_stage_prepend_append - is followed backwards through reaching definitions, conditional expressions, `a or b` /
    `a and b`, walrus, `bytes(..)`, to the stream reads of the cursor walk; the operations applied on the way form the
    chain "read -> reported value"; a loop-carried definition is followed once, nothing is unrolled) + 5 (each
    operation of the chain is classified by lemma L12 over the finite vocabulary it covers: strip / lstrip / rstrip with
    a constant argument or none, slices with constant bounds, the letter-case methods; any other operation, a
    non-constant argument, a value that is not traced to a read -> undecided) + 6 (the argument of the strip is constant
    folded, module-level constants included).  Necessary condition: nothing removes or changes bytes of the value except
    the removal of *trailing NUL* bytes, and that only where padding can follow the value in the stream (the PE magic in
    its 4-byte signature field, the stage append before the end of the stage; not the prepend, which the image follows).
    Located and wrong: a chain of known operations that contains a strip/lstrip (bytes at the start removed), an rstrip
    whose byte set contains a non-NUL byte or is the default ASCII whitespace, a `[k:]` with constant k > 0, a case
    conversion, or any trimming of the prepend.

Lemmas (each also listed in rep.trusted_base)
L1  for integers, `a < b` is `b - a - 1 >= 0`, `a <= b` is `b - a >= 0`, and the negation of `<`/`<=` is `>=`/`>`.
L2  the truth value of an Optional[int] is False exactly for None and 0.
L3  a PE time stamp is an unsigned field (R1 judges the declared type): non-zero means > 0 (so `> 0`, `>= 1`, `!= 0` and
    truthiness coincide).
L4  a capturing group whose sub-pattern has minimum width >= 1 over a digit class is, when it took part in the match, a
    non-empty string of digits (truthy, accepted by int()); a group inside a `?` repeat that did not take part is None.
L5  Match[k] and Match.groupdict()[k] equal Match.group(k) for a group name k.
L6  for an integer m: `m > 0`, `m >= k` (k >= 1), `m != 0` and truthiness of m each exclude m == 0.
L7  bytes.find returns -1 when the needle does not occur and an index >= 0 when it does; `x in b` holds exactly when
    b.find(x) >= 0; b.index(x) equals b.find(x) when x occurs.
L8  comparisons of a value known to be >= 0 with an integer literal are decided by the sign of the literal where that
    suffices (`v >= 0`, `v > -1`, `v != -1`, `v < 0`, `v == -1` ...), otherwise both outcomes are followed.
L9  every entry of the two version tables is a string of the table format (R4 checks every row), hence non-empty, not
    None and different from 'Unknown': `T.get(k) or d` equals `T.get(k, d)`, an entry is truthy, and in `a or b` nothing
    after a truthy constant is reached.
L10 a raised exception is handled by an `except C` clause exactly when its class is a subclass of C; for builtin exception
    classes the hierarchy is CPython's (read from the `builtins` module of the checker's interpreter, no analysed code
    involved); anything else may be handled.
L11 the number of section headers n (FILE.NumberOfSections, an unsigned field; the length of the table parsed with one
    header per iteration) is >= 0: the truth value of the table, `len(T) > 0`, `n > 0`, `n >= 1`, `n != 0` each say
    "non-empty", their negations / `n == 0` / `n <= 0` / `n < 1` say "empty"; a sum over an empty table is 0; `T[k]`
    with a constant k (or `T[len(T) - 1]`, which is `T[-1]`) is one fixed entry and raises for an empty table.
L12 for a bytes value b and a bytes constant c: b.rstrip(c) is b without its longest suffix of bytes from c, b.lstrip(c)
    without its longest such prefix, b.strip(c) without both; without an argument (or None) c is the ASCII whitespace
    b" \t\n\r\x0b\x0c"; with c == b"" nothing is removed.  Hence rstrip(c) with c made of NUL bytes only removes exactly
    the trailing NUL bytes and keeps every other byte in place; strip/lstrip with a non-empty c change a value that
    starts with a byte of c; rstrip with a non-NUL byte in c changes a value that ends with it.  b[0:] / b[:] / bytes(b)
    equal b; b[k:] for a constant k > 0 lacks the first k bytes; `a or b` and `a and b` evaluate to one of a, b;
    lower/upper/swapcase/title/capitalize change ASCII letters among the bytes.
"""

from __future__ import annotations

import ast
import copy
import datetime
import re

try:  # the regex *parser* of CPython: used to obtain the syntax tree of the analysed pattern, never to match a string
    from re import _constants as _sre_c, _parser as _sre_parse
except ImportError:  # Python < 3.11
    import sre_constants as _sre_c
    import sre_parse as _sre_parse

from csverif import tables
from csverif.absint import SymPoly
from csverif.astutil import assignments_to, bind_args, compare_parts, const_eval, dotted, fn_calls, is_none, module_env, NotConst, params, src, statements, strip_cast
from csverif.cursor import CursorWalk
from csverif.q import FuncView, dominating_conditions, reaching_defs

# The checker's own description of the format of a table value.  It is applied only to the string constants of the two
# version tables (data of the analysed module, device 6: complete table check) - never to judge the analysed regex, whose
# syntax tree is inspected instead (_r5_regex).
VERSION_RE = re.compile(r"^Cobalt Strike (\d+)\.(\d+)(?:\.(\d+))? \((\w{3}) (\d{2}), (\d{4})\)$")
MONTHS = {m: i + 1 for i, m in enumerate(["Jan", "Feb", "Mar", "Apr", "May", "Jun", "Jul", "Aug", "Sep", "Oct", "Nov", "Dec"])}


def _c(node, env=None):
    try:
        return const_eval(node, env) if node is not None else None
    except (NotConst, TypeError):
        return None


def run(ctx):
    rep = ctx.rep
    rep.explanation = (
        "Static analysis of pe.py / version.py / BeaconConfig.version: PE structure layouts computed from PE_DEF (cstruct "
        "little-endian) compared with the PE/COFF reference for every field the code reads, including the signedness of the "
        "declared type of every integer member the package reads (time stamps, machine, section count, sizes, file pointers "
        "and rvas are unsigned - a signed type of the same width would report values with the top bit set as negative "
        "numbers; e_lfanew is signed); a symbolic file-position "
        "typestate whose positions are canonicalised to polynomials over roles (DOS/FILE/OPT/SECTION parses, the image base "
        "MZ, the candidate index) checks that in each pe.find_* function the DOS header, signature, file header, optional "
        "header, section table, export directory, PE magic, prepend and append bytes are read at the position the format "
        "prescribes and that the export section is the one whose virtual range contains the rva; the end of the image "
        "(where the stage append is read) is image base + SizeOfHeaders + the SizeOfRawData of every section table entry on "
        "each way the position is computed (per reaching definition / branch of a conditional expression, the empty table "
        "apart) - never the extent of one selected entry, the table not being ordered by file position; in "
        "find_compile_stamps the compile stamp is taken right after the file header parse, so that no later header parse "
        "whose EOFError is caught (truncated stage) can make the function report a pair without it; the two scanners are "
        "compared on a canonical summary (range, start, positions, e_lfanew constraint, accepted machines, EOF handling) and "
        "their machine handling is decided by case distinction over the Machine constants of the code and the reference "
        "plus one 'any other value' case; the two version tables are checked completely (shape of every value with an "
        "independent format and date parser, monotone in key order, contiguous releases); the version regex is judged on "
        "its parsed syntax tree (named groups, digit classes, repeat bounds against the component widths of the tables, "
        "optional patch sub-pattern, literal separators); version precedence, the constructor's tuple/date and find_magic_mz "
        "are decided by path-wise value flow with symbolic terms, one walk per abstract outcome of the code's own tests "
        "(export stamp None/0/non-zero, and the key of the deciding table lookup present/absent: with an export stamp the "
        "version is the table entry for it or 'Unknown', never an estimate from the setting index; patch group took part or "
        "not; each DOS stub found or not). In both scanners every exit from the candidate loop is judged in the Machine "
        "case distinction: a candidate that is not reported falls through to the next offset (no return of None, break or "
        "raise for it), so prepended bytes that form a false candidate cannot hide the image from one scanner only. The "
        "version property is also checked for reuse of a stored result (attribute assigned by the property, memoising "
        "decorator): a stored version may not be handed out again when an attribute it was computed from is assigned "
        "after construction anywhere in the package (who-may-write). Tables keyed by the Machine field (dict displays, module-level constant dicts, "
        "read-only proxies) and struct types selected through them are resolved per Machine case. The bytes a finder "
        "reports (PE magic, stage prepend, stage append) are followed backwards from the returned value to the stream read: "
        "the operations on the way may only remove trailing NUL bytes, and only where padding follows the value in the stream "
        "(the magic inside its 4-byte signature field, the append before the end of the stage) - stripping at the start of "
        "the value, trimming other bytes than NUL, dropping a prefix or trimming the prepend reports bytes that are not "
        "those of the image. No analysed code is "
        "run on concrete data and no string is matched against the analysed regex."
    )
    rep.not_decided = [
        "unusual images (SizeOfOptionalHeader != struct size, overlapping sections)",
        "signedness of a header member whose declared C type the C-definition parser cannot resolve (typedefs introduced in PE_DEF, multi-word C types): undecided; values converted after the parse by package code (int.from_bytes / struct.unpack on raw reads instead of a cstruct member)",
        "timestamp -> release truth of each table row",
        "version regexes outside the recognised syntax-tree forms (alternations, lazy/possessive repeats, look-arounds, inline flags, named groups with other sub-patterns): undecided",
        "loop-free functions containing statement kinds the path walk does not model (try, while, loops over non-literal sequences): undecided",
        "headers parsed through a callee that is neither a struct type nor selected among struct types by a conditional expression / literal table on the Machine field (getattr, computed names): undecided",
        "a version built in another way than from the two lookups / `.get` / `[]` / `or` on the two tables (string comparisons on the result, helper objects): undecided",
        "module-level tables that are modified after their definition (the display is taken as the table)",
        "exits from the candidate loop under conditions that are not on the candidate's DOS/file header, or in an exception handler that does not guard the file header parse: undecided",
        "a compile stamp that is returned through something else than a local assigned None / FILE.TimeDateStamp (tuple unpacking, a container, a helper object): the truncation obligation is undecided",
        "an image end that is computed in several ways (several definitions of the position local, conditional expressions) where one way is taken under conditions on the section table other than empty / non-empty, can be overridden by another table-dependent definition, or reads the table through something else than a sum or constant-index entries (max(..), helper calls): undecided",
        "a stored version that is reset elsewhere in the package, reused only under conditions on other attributes, or computed from attributes no package code assigns after construction: undecided",
        "stores other than instance attributes / the decorators cached_property, lru_cache, cache (dict caches, __dict__, getattr defaults): the returned value is then not recognised and the version obligations are undecided",
        "reported bytes (PE magic, prepend, append) that pass through operations other than strip/lstrip/rstrip with a constant argument, constant slices `[k:]`, bytes(..), `or`/`and`, conditional expressions and plain assignments (trimming loops, computed slice bounds, regex substitution, helpers that are not inlined, decoding): undecided; whether the trailing NUL padding is removed at all is not demanded",
    ]
    rep.trusted_base = [
        "CPython ast", "C-definition parser", "PE/COFF reference layout in csverif/tables.py", "SymPoly normal form",
        "CPython's regex parser (re._parser.parse, flags=0) for the syntax tree of REGEX_VERSION",
        "path-wise term builder of rules/c18.py (_SymExec): symbolic terms, branches pruned only by the named case assumptions",
        "L1: integer a < b <=> b - a - 1 >= 0; a <= b <=> b - a >= 0; not(a < b) <=> a >= b",
        "L2: an Optional[int] is falsy exactly for None and 0",
        "L3: a PE time stamp is unsigned: non-zero <=> > 0",
        "PE/COFF: every integer member of the DOS/file/optional/section headers, the data directory and the export directory is unsigned except IMAGE_DOS_HEADER.e_lfanew; signedness of the C base types as listed in csverif/cdefs.py (BASE_TYPES, the names dissect.cstruct predefines)",
        "L4: a group with a digit-class sub-pattern of minimum width >= 1 that took part in the match is a non-empty digit string (truthy, int() accepts it); an optional group that did not take part is None",
        "L5: Match[k] == Match.groupdict()[k] == Match.group(k)",
        "L6: m > 0, m >= k (k >= 1), m != 0 and truthiness of an integer m each exclude m == 0",
        "L7: bytes.find gives -1 when absent and an index >= 0 when present; x in b <=> b.find(x) >= 0; b.index(x) == b.find(x) when present",
        "L8: a value >= 0 compared with an integer literal is decided by the literal's sign where that suffices, else both outcomes are followed",
        "L9: every version-table entry has the table format (R4), so it is a non-empty string different from 'Unknown': T.get(k) or d == T.get(k, d)",
        "L10: an exception is handled by `except C` exactly when its class is a subclass of C (builtin classes: CPython's hierarchy); anything else may be handled",
        "L11: the section count (FILE.NumberOfSections / len of the parsed table) is unsigned: truthiness of the table, len > 0, n > 0, n >= 1, n != 0 all mean non-empty, their negations empty; a sum over an empty table is 0; T[k] for a constant k (T[len(T) - 1] is T[-1]) is one fixed entry and raises for an empty table",
        "Python evaluates the callee expression and the arguments of a call before the call itself, left to right (order of the stream operations inside one statement)",
        "a cstruct parse on the stream raises EOFError when the data ends inside the structure; seek and read do not",
        "the state of a freshly constructed BeaconConfig: an attribute has the single constant its constructor assigns (used as the first-access case of the version property)",
        "an instance attribute that some function of the package assigns outside the constructor can change between two accesses of the version property",
        "L12: bytes.rstrip(c) / lstrip(c) / strip(c) remove the longest suffix / prefix / both of bytes from c (default: ASCII whitespace; nothing for b''); rstrip over NUL bytes only removes exactly the trailing NULs; b[:] == b[0:] == bytes(b) == b; b[k:] lacks the first k bytes for k > 0; `a or b` / `a and b` is one of the operands; the case methods change ASCII letters",
        "NUL padding follows the PE magic inside the 4-byte signature field and the stage append at the end of the stage; nothing pads the stage prepend (the image follows it)",
        "contract of the two lookups used by the precedence rule: from_pe_export_stamp(k) / from_max_setting_enum(k) is T.get(k, 'Unknown') (obligations `<table>.get(<argument>, 'Unknown')`)",
    ]
    rep.exhaustive = True
    r1(ctx)
    r2(ctx)
    r3(ctx)
    r4(ctx)
    r5(ctx)
    r6(ctx)
    r7(ctx)


def r1(ctx):
    cd = ctx.cdefs("pe").get("pestruct")
    if cd is None:
        ctx.rep.error("anchor vanished: pestruct")
        return
    ctx.ob("R1", "TABLE", "pe.py::pestruct", "endianness", cd.endian == "<", f"pestruct endianness {cd.endian!r} (PE is little-endian)")
    for name, (size, fields) in tables.PE_LAYOUT.items():
        s = cd.struct(name)
        ok = s.static_size == size
        bad = {}
        for fn, (off, width) in fields.items():
            fl = s.field(fn)
            if fl is None or fl.offset != off or fl.size != width:
                ok = False
                bad[fn] = (fl.offset if fl else None, fl.size if fl else None)
        ctx.ob("R1", "TABLE", f"pe.py::PE_DEF::{name}", "layout", ok, f"size {s.static_size} (reference {size}); fields differing from the reference (offset,width): {bad}")
    for k, v in tables.PE_DEFINES.items():
        ctx.ob("R1", "TABLE", "pe.py::PE_DEF::#define", k, cd.defines.get(k) == v, f"{k} = {cd.defines.get(k)} (reference {v})", nontrivial=False)
    e = cd.struct("IMAGE_DOS_HEADER").field("e_lfanew")
    ctx.ob("R1", "TABLE", "pe.py::PE_DEF::IMAGE_DOS_HEADER", "e_lfanew signed", e is not None and e.signed, "e_lfanew is a signed LONG (the `> 0` constraint matters)")
    _r1_signedness(ctx, cd)


# The integer members of the PE/COFF headers are unsigned (WORD/DWORD/ULONGLONG in winnt.h, "unsigned" throughout the
# PE/COFF specification); the one signed member of the structures of the reference table is IMAGE_DOS_HEADER.e_lfanew.
_PE_SIGNED_MEMBERS = frozenset({("IMAGE_DOS_HEADER", "e_lfanew")})


def _r1_signedness(ctx, cd):
    """A member the package reports or computes with (time stamps, machine, section count, sizes, file pointers, rvas) has
    the value of the image only when its C type has the signedness of the format: a signed type of the right width leaves
    size and offsets alone (the layout obligation holds) and turns every value with the top bit set into a negative
    number.  Judged on the parsed definitions (device 6): per structure of the reference table, every scalar integer
    member whose name is loaded as an attribute somewhere in the package (who-may-read, by name - an over-approximation
    of the members that are read); the signedness is that of the member's base type as resolved by the C-definition
    parser (through enum base types).  A member whose type the parser cannot resolve is undecided."""
    may_read = {n.attr for m in ctx.repo.modules.values() for n in ast.walk(m.tree) if isinstance(n, ast.Attribute) and isinstance(n.ctx, ast.Load)}
    for name in tables.PE_LAYOUT:
        s = cd.struct(name)
        wrong, unresolved, seen = {}, [], []
        for fl in s.fields:
            if fl.count is not None or fl.type in ("union", "struct") or fl.type in cd.structs or fl.name not in may_read:
                continue  # arrays (names, reserved words, the data directory), nested records, members nobody reads
            if (name, fl.name) in _PE_SIGNED_MEMBERS:
                continue  # obligation "e_lfanew signed" above
            if cd.type_size(fl.type) is None:
                unresolved.append(f"{fl.name}: {fl.type}")
                continue
            seen.append(fl.name)
            if fl.signed:
                wrong[fl.name] = fl.type
        where, text = f"pe.py::PE_DEF::{name}", "members read by the package are unsigned"
        if wrong or not unresolved:
            ctx.ob("R1", "TABLE", where, text, not wrong,
                   f"unsigned in PE/COFF, read by the package: {', '.join(seen) or '-'}; declared with a signed type (values >= 2**(bits-1) of the image would be reported negative): {wrong}"
                   + (f"; type not resolved: {unresolved}" if unresolved else ""), nontrivial=bool(seen))
        else:
            ctx.undecided("R1", "TABLE", where, text, f"the C-definition parser cannot resolve the type of {unresolved}; resolved members: {', '.join(seen) or '-'}")


# ============================================================================ canonical expressions
# The rules below never look at the spelling of the analysed code.  Expressions are first brought into a canonical form:
# single-definition temporaries are substituted, values unpacked from a tuple are traced back to the tuple element,
# struct parses on the stream / the result of find_mz_offset / `range` loop variables are replaced by *role* names.
_ROLE = {"IMAGE_DOS_HEADER": "DOS", "IMAGE_FILE_HEADER": "FILE", "IMAGE_OPTIONAL_HEADER": "OPT", "IMAGE_OPTIONAL_HEADER64": "OPT",
         "IMAGE_SECTION_HEADER": "SECTION", "IMAGE_EXPORT_DIRECTORY": "EXPORT", "uint32": "U32"}
_STRUCT_ROLES = frozenset(_ROLE.values())
_IDX = "_i_"  # the 0-based index of a `for .. in range(..)` loop
_SEC = "SEC"  # the element variable of a loop / comprehension over the section table
_INLINE = (ast.Name, ast.Attribute, ast.Subscript, ast.BinOp, ast.UnaryOp, ast.Constant, ast.Tuple)
_NOCONST = object()


def _u(e):
    return ast.unparse(e)


def _nm(id_):
    return ast.Name(id=id_, ctx=ast.Load())


class _Subst(ast.NodeTransformer):
    def __init__(self, mapping):
        self.mapping = mapping

    def visit_Name(self, node):
        if isinstance(node.ctx, ast.Load) and node.id in self.mapping:
            return copy.deepcopy(self.mapping[node.id])
        return node


def _subst(e, mapping):
    return _Subst(mapping).visit(copy.deepcopy(e))


def _poly(e):
    """Polynomial normal form of a canonical expression; every non-arithmetic sub-expression is an atom (its text)."""
    if isinstance(e, ast.Constant) and type(e.value) is int:
        return SymPoly.const(e.value)
    if isinstance(e, ast.UnaryOp) and isinstance(e.op, ast.USub):
        return -_poly(e.operand)
    if isinstance(e, ast.UnaryOp) and isinstance(e.op, ast.UAdd):
        return _poly(e.operand)
    if isinstance(e, ast.BinOp) and isinstance(e.op, (ast.Add, ast.Sub, ast.Mult)):
        a, b = _poly(e.left), _poly(e.right)
        return a + b if isinstance(e.op, ast.Add) else a - b if isinstance(e.op, ast.Sub) else a * b
    return SymPoly.atom(_u(e))


def _sub(poly, mapping):
    """Substitute atoms by polys."""
    if poly is None:
        return None
    out = SymPoly()
    for mon, coef in poly.terms.items():
        term = SymPoly.const(coef)
        for a in mon:
            term = term * mapping.get(a, SymPoly.atom(a))
        out = out + term
    return out


def _single_atom(poly):
    """The atom name if poly is exactly one atom with coefficient 1."""
    if poly is not None and len(poly.terms) == 1:
        (mon, coef), = poly.terms.items()
        if len(mon) == 1 and coef == 1:
            return mon[0]
    return None


class _Canon:
    def __init__(self, ctx, f):
        self.ctx, self.f, self.fn = ctx, f, f.node
        ps = params(self.fn)
        self.pars = set(ps)
        self.stream = ps[0] if ps else None
        self.prov = []  # definition statements traversed by canon() calls since the caller last cleared it
        self._roles = {}
        self._variants, self._busy, self.struct_ids = {}, set(), {}

    # -- roles
    def call_role(self, call):
        cal = self.ctx.rs.resolve_call(self.f, call)
        if cal.kind == "struct" and cal.struct and call.args and dotted(call.args[0]) == self.stream:
            n = cal.struct[2].lstrip("_")
            return _ROLE.get(n, n)
        if cal.kind == "func" and cal.fq == "pe.find_mz_offset":
            return "MZ"
        alts = self.variants(call)
        if alts:
            rs = {_ROLE.get(n.lstrip("_"), n.lstrip("_")) for n, _c in alts if n is not None}
            if len(rs) == 1:
                return rs.pop()
        return None

    def variants(self, call):
        """A parse `X(stream)` whose callee is not a struct type but a value *selected* among struct types - by a
        conditional expression or by a lookup on FILE.Machine in a literal table (`T[m]`, `T.get(m[, default])`) - possibly
        through temporaries: [(struct name | None for "nothing callable: None", [(canonical test, polarity)])], the tests
        being the condition under which that alternative is the callee.  None when the callee is of no such form."""
        key = id(call)
        hit = self._variants.get(key)
        if hit is not None and hit[0] is call:
            return hit[1]
        out = None
        if key not in self._busy and call.args and not call.keywords and dotted(call.args[0]) == self.stream \
                and not (isinstance(call.func, ast.Attribute) and dotted(call.func.value) == self.stream):
            cal = self.ctx.rs.resolve_call(self.f, call)
            if cal.kind not in ("struct", "func", "class"):
                self._busy.add(key)
                try:
                    out = self._type_alts(self.canon(call.func, full=True))
                finally:
                    self._busy.discard(key)
                if out is not None and all(n is None for n, _c in out):
                    out = None
        self._variants[key] = (call, out)
        return out

    def _type_alts(self, e, depth=0):
        if depth > 4:
            return None
        if isinstance(e, ast.IfExp):
            a, b = self._type_alts(e.body, depth + 1), self._type_alts(e.orelse, depth + 1)
            if a is None or b is None:
                return None
            return [(n, [(e.test, True)] + c) for n, c in a] + [(n, [(e.test, False)] + c) for n, c in b]
        if is_none(e):
            return [(None, [])]
        table = dflt = None
        M = "FILE.Machine"
        if isinstance(e, ast.Subscript) and _u(e.slice) == M:
            table = e.value
        elif isinstance(e, ast.Call) and isinstance(e.func, ast.Attribute) and e.func.attr == "get" and not e.keywords and 1 <= len(e.args) <= 2 and _u(e.args[0]) == M:
            table, dflt = e.func.value, (e.args[1] if len(e.args) == 2 else ast.Constant(value=None))
        if table is not None:
            disp = _table_of(self.ctx, self.f, table)
            if disp is None:
                return None
            ks = [_const_of(self.ctx, self.f, k) for k in disp.keys]
            if any(k is _NOCONST or type(k) is not int for k in ks):
                return None
            out = []
            rows = dict(zip(ks, disp.values))  # a later duplicate key wins, as in the display
            for k, val in rows.items():
                alts = self._type_alts(val, depth + 1)
                if alts is None:
                    return None
                test = ast.Compare(left=ast.parse(M, mode="eval").body, ops=[ast.Eq()], comparators=[ast.Constant(value=k)])
                out.extend((n, [(test, True)] + c) for n, c in alts)
            if dflt is not None:
                alts = self._type_alts(dflt, depth + 1)
                if alts is None:
                    return None
                test = ast.Compare(left=ast.parse(M, mode="eval").body, ops=[ast.In()], comparators=[ast.Tuple(elts=[ast.Constant(value=k) for k in rows], ctx=ast.Load())])
                out.extend((n, [(test, False)] + c) for n, c in alts)
            return out
        sid = _struct_of(self.ctx, self.f, e, self.stream)
        if sid is None:
            return None
        self.struct_ids[sid[2]] = sid
        return [(sid[2], [])]

    def unlocated_parse(self, text):
        """Does the expression (text of an atom) read a field of a local that is parsed from the stream by a call whose
        struct type cannot be identified (a dynamically selected callee of an unrecognised form)?  Then the header the
        field belongs to is not located and nothing can be said about the value."""
        try:
            e = ast.parse(text, mode="eval").body
        except SyntaxError:
            return False
        for n in ast.walk(e):
            if isinstance(n, ast.Name) and n.id not in self.pars and self.name_role(n.id) is None:
                defs = assignments_to(self.fn, n.id)
                calls = [strip_cast(v) for _s, v in defs if v is not None and isinstance(strip_cast(v), ast.Call)]
                for c in calls:
                    if any(dotted(a) == self.stream for a in c.args) and self.ctx.rs.resolve_call(self.f, c).kind not in ("struct", "func", "class") \
                            and not (isinstance(c.func, ast.Attribute) and dotted(c.func.value) == self.stream):
                        return True
        return False

    def name_role(self, name):
        if name not in self._roles:
            role = None
            defs = assignments_to(self.fn, name)
            if defs and all(v is not None and isinstance(strip_cast(v), ast.Call) for _s, v in defs):
                rs = {self.call_role(strip_cast(v)) for _s, v in defs}
                if len(rs) == 1:
                    role = rs.pop()
            self._roles[name] = role
        return self._roles[name]

    def range_loop(self, name):
        """(lo | None, hi, stmt) when `name` is bound only as the target of `for name in range([lo,] hi)`."""
        defs = assignments_to(self.fn, name)
        if len(defs) == 1 and isinstance(defs[0][0], ast.For):
            st = defs[0][0]
            it = st.iter
            if isinstance(st.target, ast.Name) and isinstance(it, ast.Call) and dotted(it.func) == "range" and not it.keywords and len(it.args) in (1, 2) \
                    and not any(isinstance(a, ast.Starred) for a in it.args):
                return (None, it.args[0], st) if len(it.args) == 1 else (it.args[0], it.args[1], st)
        return None

    # -- canonical form
    def canon(self, e, full=False, extra=None, _depth=0):
        """Copy of e in canonical form.  `full` substitutes every single-definition local (otherwise only those defined by
        plain value expressions, so that the result stays a readable polynomial over roles)."""
        cn = self
        bound = []

        class T(ast.NodeTransformer):
            def visit_Name(self, node):
                if not isinstance(node.ctx, ast.Load) or any(node.id in b for b in bound):
                    return node
                r = cn._name(node.id, full, extra, _depth)
                return r if r is not None else node

            def visit_Call(self, node):
                role = cn.call_role(node)
                if role:
                    return _nm(role)
                return self.generic_visit(node)

            def visit_Lambda(self, node):
                return node

            def visit_Subscript(self, node):
                # X[k] where the only not-None value flowing into the local X is a tuple display: its k-th element
                if isinstance(node.value, ast.Name) and isinstance(node.slice, ast.Constant) and type(node.slice.value) is int \
                        and node.value.id not in cn.pars and not any(node.value.id in b for b in bound) and _depth <= 8:
                    cands = [(s2, v) for s2, v in cn._origins(node.value, None) if not is_none(v)]
                    if len(cands) == 1 and cands[0][0] is not None:
                        elts = cn.elements(cands[0][1])
                        k = node.slice.value
                        if elts is not None and -len(elts) <= k < len(elts):
                            cn.prov.append(cands[0][0])
                            return cn.canon(elts[k], full, extra, _depth + 1)
                return self.generic_visit(node)

            def _comp(self, node):
                bound.append({n.id for g in node.generators for n in ast.walk(g.target) if isinstance(n, ast.Name)})
                try:
                    return self.generic_visit(node)
                finally:
                    bound.pop()

            visit_ListComp = visit_SetComp = visit_GeneratorExp = visit_DictComp = _comp

        return T().visit(copy.deepcopy(e))

    def _name(self, id_, full, extra, depth):
        if extra and id_ in extra:
            return copy.deepcopy(extra[id_])
        if id_ in self.pars or depth > 8:
            return None
        role = self.name_role(id_)
        if role:
            return _nm(role)
        rl = self.range_loop(id_)
        if rl:
            lo = rl[0]
            return _nm(_IDX) if lo is None else ast.BinOp(left=self.canon(lo, full, extra, depth + 1), op=ast.Add(), right=_nm(_IDX))
        defs = assignments_to(self.fn, id_)
        if len(defs) != 1:
            return None
        st, v = defs[0]
        if v is not None and isinstance(st, (ast.Assign, ast.AnnAssign)):
            if any(isinstance(x, ast.Name) and x.id == id_ for x in ast.walk(v)):
                return None
            v = strip_cast(v)
            if full or isinstance(v, _INLINE) or (isinstance(v, ast.Call) and self.call_role(v)):
                self.prov.append(st)
                return self.canon(v, full, extra, depth + 1)
            return None
        if v is None and isinstance(st, ast.Assign) and len(st.targets) == 1 and isinstance(st.targets[0], (ast.Tuple, ast.List)):
            el = self._unpack(st, id_)
            if el is not None:
                self.prov.extend([st, el[0]])
                return self.canon(el[1], full, extra, depth + 1)
        return None

    def _origins(self, e, st, depth=0):
        """(defining statement, expression) of every plain definition that may flow into e."""
        e = strip_cast(e)
        if depth <= 6 and isinstance(e, ast.Name) and e.id not in self.pars:
            defs = assignments_to(self.fn, e.id)
            if defs and all(v is not None and isinstance(s, (ast.Assign, ast.AnnAssign)) for s, v in defs):
                out = []
                for s, v in defs:
                    out.extend(self._origins(v, s, depth + 1))
                return out
        return [(st, e)]

    def elements(self, v):
        """Element expressions of a tuple/list display or of a comprehension over a literal sequence."""
        if isinstance(v, (ast.Tuple, ast.List)):
            return None if any(isinstance(x, ast.Starred) for x in v.elts) else list(v.elts)
        if isinstance(v, (ast.GeneratorExp, ast.ListComp)) and len(v.generators) == 1:
            g = v.generators[0]
            if isinstance(g.target, ast.Name) and not g.ifs and not g.is_async:
                it = self.canon(g.iter, full=True)
                if isinstance(it, (ast.Tuple, ast.List)) and all(isinstance(x, ast.Constant) for x in it.elts):
                    return [_subst(v.elt, {g.target.id: x}) for x in it.elts]
        return None

    def _unpack(self, st, name):
        """`a, b = X`: the element of the (only not-None) tuple that flows into X which `name` receives."""
        t = st.targets[0]
        if any(not isinstance(x, ast.Name) for x in t.elts):
            return None
        idx = [x.id for x in t.elts].index(name)
        cands = [(s, v) for s, v in self._origins(st.value, st) if not is_none(v)]
        if len(cands) != 1:
            return None
        s, v = cands[0]
        elts = self.elements(v)
        if elts is None or len(elts) != len(t.elts):
            return None
        return s, elts[idx]

    def poly(self, e, full=False, extra=None):
        return _poly(self.canon(e, full, extra))

    def canon_poly(self, p):
        """Canonical form of a position polynomial of the cursor walk (atoms are texts of expressions of the function)."""
        if p is None:
            return None
        mapping = {}
        for a in p.atoms():
            if a.startswith("sizeof(") and a.endswith(")"):
                var = a[7:-1]
                role = self.name_role(var) if var.isidentifier() else None
                mapping[a] = SymPoly.atom(f"sizeof({role or var})")
                continue
            try:
                e = ast.parse(a, mode="eval").body
            except SyntaxError:
                continue
            mapping[a] = _poly(self.canon(e))
        return _sub(p, mapping)


class _Walk(CursorWalk):
    """The cursor walk, extended by parses whose struct type is selected among several (`_Canon.variants`): the site is
    recorded with the names of the alternatives and the position advances by the symbolic `sizeof(<assigned local>)` -
    the convention of the walk for an if/else that parses one of two structs into the same local."""

    def __init__(self, ctx, f, cn):
        super().__init__(ctx, f, cn.stream)
        self.cn = cn
        self.selected = {}

    def _struct_size(self, call):
        ss = super()._struct_size(call)
        if ss is None:
            alts = self.cn.variants(call)
            if alts and self.cn.call_role(call):
                names = sorted({n for n, _c in alts if n is not None})
                self.selected[id(call)] = alts
                size = None
                if len(alts) == 1 and names[0] in self.cn.struct_ids:  # an alias of one struct type: its static size
                    sid = self.cn.struct_ids[names[0]]
                    cd = self.ctx.cdefs(sid[0]).get(sid[1])
                    ts = cd.type_size(sid[2]) if cd else None
                    size = ts[0] if ts else None
                    del self.selected[id(call)]
                return "|".join(names), size
        return ss

    def simple(self, st):
        n = len(self.sites)
        # The base walk orders the calls of a statement by their end position in the source.  Nodes synthesised by the
        # normaliser (an inlined helper, a forward-substituted temporary: `fh.seek(DOS(fh).e_lfanew + base)`) share one
        # position, so the order is given here explicitly: a call completes after its callee expression and its arguments
        # (post-order, left to right) - the parse inside a seek argument happens before the seek.
        calls = []

        def post(node):
            for ch in ast.iter_child_nodes(node):
                if not isinstance(ch, (ast.FunctionDef, ast.AsyncFunctionDef, ast.ClassDef, ast.Lambda)):
                    post(ch)
            if isinstance(node, ast.Call):
                calls.append(node)

        post(st)
        saved = [(c, c.__dict__.get("end_lineno", _NOCONST), c.__dict__.get("end_col_offset", _NOCONST)) for c in calls]
        try:
            for i, c in enumerate(calls):
                c.end_lineno, c.end_col_offset = 1, i + 1
            super().simple(st)
        finally:
            for c, el, ec in saved:
                for k, val in (("end_lineno", el), ("end_col_offset", ec)):
                    if val is _NOCONST:
                        c.__dict__.pop(k, None)
                    else:
                        setattr(c, k, val)
        new = self.sites[n:]
        if len(new) == 1 and new[0].kind == "parse" and id(new[0].node) in self.selected and new[0].pos is not None and new[0].var and new[0].count is None:
            self.pos = new[0].pos + SymPoly.atom(f"sizeof({new[0].var})")


class _View:
    """Parse/read sites of one pe.find_* function with canonical positions."""

    def __init__(self, ctx, f):
        self.ctx, self.f = ctx, f
        self.cn = cn = _Canon(ctx, f)
        walk = _Walk(ctx, f, cn)
        self.sites = walk.run()
        for s in self.sites:
            s.cpos = cn.canon_poly(s.pos)
            s.role = None
            s.alts = walk.selected.get(id(s.node))
            if s.kind == "parse":
                n = s.what.lstrip("_")
                s.role = (cn.call_role(s.node) if s.alts else None) or _ROLE.get(n, n)
        self.parses = [s for s in self.sites if s.kind == "parse"]
        self.has_mz = any(cn.call_role(c) == "MZ" for c in fn_calls(f.node))
        self._scan = None

    def first(self, role):
        return next((s for s in self.parses if s.role == role), None)

    def scan(self):
        """The candidate loop of a scanner: dict(B image base, A start atom, M search range, status)."""
        if self._scan is None:
            self._scan = self._scan_base()
        return self._scan

    def _scan_base(self):
        cn = self.cn
        out = dict(B=None, A=None, M=None, loop=None, status="ok", why="")
        d = self.first("DOS")
        if d is None:
            out.update(status="undecided", why="no IMAGE_DOS_HEADER parse on the stream")
            return out
        B = d.cpos
        if B is None:
            out.update(status="undecided", why="the position of the IMAGE_DOS_HEADER parse is not tracked")
            return out
        out["B"] = B
        loops = [st for st in statements(cn.fn) if isinstance(st, ast.For) and isinstance(st.target, ast.Name) and cn.range_loop(st.target.id)]
        if len(loops) != 1:
            out.update(status="undecided", why=f"{len(loops)} candidate loops over a range")
            return out
        lo, hi, _st = cn.range_loop(loops[0].target.id)
        out["loop"] = loops[0]
        out["M"] = cn.poly(hi) - (cn.poly(lo) if lo is not None else SymPoly())
        rest = B - SymPoly.atom(_IDX)
        A = _single_atom(rest)
        if _IDX not in B.atoms() or A is None or A == _IDX:
            out.update(status="violated", why=f"DOS header parsed at {B}; required <start> + i for the candidate index i of the range loop")
            return out
        out["A"] = A
        return out

    def start_expr(self):
        """Canonical text of the value the search starts at, in terms of the parameters on entry."""
        sc = self.scan()
        A = sc.get("A")
        if A is None or not A.isidentifier():
            return A
        cn = self.cn
        fn = cn.fn
        defs = assignments_to(fn, A)
        e = None
        if A in cn.pars:
            if not defs:
                e = _nm(A)
            elif len(defs) == 1 and defs[0][1] is not None and isinstance(defs[0][0], (ast.Assign, ast.AnnAssign)):
                st, v = defs[0]
                par = FuncView.of(fn).parent.get(id(st))
                if par is fn:
                    e = v
                elif isinstance(par, ast.If) and not par.orelse and len(par.body) == 1 and FuncView.of(fn).parent.get(id(par)) is fn:
                    e = ast.IfExp(test=par.test, body=v, orelse=_nm(A))
        elif len(defs) == 1 and defs[0][1] is not None:
            e = defs[0][1]
        if e is None:
            return None
        return _u(_norm_choice(cn.canon(e, full=True)))


def _norm_choice(e):
    """`a if x is not None else b` / `a if not t else b` -> the positive test with the branches swapped."""
    if isinstance(e, ast.IfExp):
        t, b, o = e.test, _norm_choice(e.body), _norm_choice(e.orelse)
        while True:
            if isinstance(t, ast.UnaryOp) and isinstance(t.op, ast.Not):
                t, b, o = t.operand, o, b
            elif isinstance(t, ast.Compare) and len(t.ops) == 1 and isinstance(t.ops[0], ast.IsNot):
                t, b, o = ast.Compare(left=t.left, ops=[ast.Is()], comparators=t.comparators), o, b
            elif isinstance(t, ast.Compare) and len(t.ops) == 1 and isinstance(t.ops[0], ast.NotEq):
                t, b, o = ast.Compare(left=t.left, ops=[ast.Eq()], comparators=t.comparators), o, b
            else:
                break
        return ast.IfExp(test=t, body=b, orelse=o)
    return e


def _view(ctx, f):
    cache = ctx.__dict__.setdefault("_c18_views", {})
    if f.fq not in cache or cache[f.fq].f.node is not f.node:
        cache[f.fq] = _View(ctx, f)
    return cache[f.fq]


# ---------------------------------------------------------------------------- facts from conditions
def _flatten(test, pol=True):
    """(leaf, polarity) facts that hold when `test` evaluates to `pol` (negations pushed inwards, and/or split)."""
    if isinstance(test, ast.UnaryOp) and isinstance(test.op, ast.Not):
        return _flatten(test.operand, not pol)
    if isinstance(test, ast.BoolOp) and ((isinstance(test.op, ast.And) and pol) or (isinstance(test.op, ast.Or) and not pol)):
        return [x for v in test.values for x in _flatten(v, pol)]
    return [(test, pol)]


def _rel(a, op, b, pol):
    """The polynomial p with `p >= 0` equivalent to `a op b` (integers) having truth value pol."""
    t = type(op)
    if not pol:
        t = {ast.Lt: ast.GtE, ast.LtE: ast.Gt, ast.Gt: ast.LtE, ast.GtE: ast.Lt}.get(t)
    one = SymPoly.const(1)
    if t is ast.Lt:
        return b - a - one
    if t is ast.LtE:
        return b - a
    if t is ast.Gt:
        return a - b - one
    if t is ast.GtE:
        return a - b
    return None


def _ineqs(cn, facts, extra=None):
    """Set of polynomials known to be >= 0 from (test node, polarity) facts (chained comparisons included)."""
    out = set()
    for test, pol0 in facts:
        for leaf, pol in _flatten(test, pol0):
            if not isinstance(leaf, ast.Compare):
                continue
            parts = compare_parts(leaf, mirrored=False)
            if not pol and len(parts) != 1:
                continue
            for l, op, r in parts:
                p = _rel(cn.poly(l, extra=extra), op, cn.poly(r, extra=extra), pol)
                if p is not None:
                    out.add(p)
    return out


def _excludes_zero(cn, facts, atom):
    """Do the (test, polarity) facts entail `atom != 0` for the integer role `atom`?  Nonzero / interval reasoning on the
    facts themselves (lemma L6: m > 0, m >= k with k >= 1, m <= k with k <= -1, m != 0, m == k with k != 0 and the
    truthiness of m each exclude m == 0).  True: entailed; False: every fact that mentions the role is of a recognised
    form and none excludes zero; None: some fact mentions the role in a form that is not recognised."""
    A = SymPoly.atom(atom)
    unknown = False

    def offset(p):
        """k when p == atom + k, ('-', k) when p == -atom + k, else None"""
        k = (p - A).const_value()
        if k is not None:
            return ("+", k)
        k = (p + A).const_value()
        if k is not None:
            return ("-", k)
        return None

    for test, pol0 in facts:
        for leaf, pol in _flatten(test, pol0):
            c = cn.canon(leaf)
            if isinstance(c, ast.Call) and dotted(c.func) == "bool" and len(c.args) == 1 and not c.keywords:
                c = c.args[0]
            if not any(isinstance(n, ast.Name) and n.id == atom for n in ast.walk(c)):
                continue
            if isinstance(c, ast.Name):
                if pol:
                    return True
                continue  # `not m`: m == 0
            if not isinstance(c, ast.Compare):
                unknown = True
                continue
            parts = compare_parts(c, mirrored=False)
            if not pol and len(parts) != 1:
                unknown = True
                continue
            for l, op, r in parts:
                if isinstance(op, (ast.Is, ast.IsNot)) and (is_none(l) or is_none(r)):
                    continue  # nullness says nothing about zero
                lp, rp = _poly(l), _poly(r)
                if isinstance(op, (ast.Lt, ast.LtE, ast.Gt, ast.GtE)):
                    o = offset(_rel(lp, op, rp, pol))
                    if o is None:
                        unknown = True
                    elif o[0] == "+" and -o[1] >= 1:  # atom + k >= 0 with -k >= 1
                        return True
                    elif o[0] == "-" and o[1] <= -1:  # -atom + k >= 0 with k <= -1
                        return True
                elif isinstance(op, (ast.Eq, ast.NotEq)):
                    o = offset(lp - rp)
                    if o is None:
                        unknown = True
                        continue
                    equal = isinstance(op, ast.Eq) == pol  # the fact is `atom == c0` (True) or `atom != c0` (False)
                    c0 = -o[1] if o[0] == "+" else o[1]
                    if (equal and c0 != 0) or (not equal and c0 == 0):
                        return True
                else:
                    unknown = True
    return None if unknown else False


def _dom_facts(ctx, f, node):
    seen, out = set(), []
    for _t, pol, n in dominating_conditions(ctx, f, node):
        if (id(n), pol) not in seen:
            seen.add((id(n), pol))
            out.append((n, pol))
    return out


def _tv3(e, leaf):
    """Three-valued truth of e; `leaf` decides the atoms."""
    if isinstance(e, ast.Constant):
        return bool(e.value)
    if isinstance(e, ast.UnaryOp) and isinstance(e.op, ast.Not):
        v = _tv3(e.operand, leaf)
        return None if v is None else (not v)
    if isinstance(e, ast.BoolOp):
        vals = [_tv3(v, leaf) for v in e.values]
        if isinstance(e.op, ast.And):
            return False if any(v is False for v in vals) else True if all(v is True for v in vals) else None
        return True if any(v is True for v in vals) else False if all(v is False for v in vals) else None
    return leaf(e)


def _const_of(ctx, f, e):
    """Value of a constant expression: a #define of a cstruct of the module, a literal, a module-level constant."""
    d = dotted(e)
    if d and "." in d:
        head, last = d.split(".")[0], d.split(".")[-1]
        for cd in ctx.cdefs(f.module.name).values():
            if cd.var == head and last in cd.defines and d.count(".") == 1:
                return cd.defines[last]
    try:
        return const_eval(e, module_env(f.module))
    except (NotConst, TypeError, KeyError, ValueError):
        return _NOCONST


# ---------------------------------------------------------------------------- the Machine field as a case distinction
class _Other:
    """The "any other value" case of a case distinction: differs from every constant of the vocabulary, nothing else is
    known about it (its truth value and its relation to constants outside the vocabulary stay unknown)."""

    def __repr__(self):
        return "other"


_OTHER = _Other()


def _mkey(v):
    return (1, 0) if v is _OTHER else (0, v)


def _mfmt(v):
    return "other" if v is _OTHER else hex(v)


def _machine_vocab(ctx):
    """The Machine constants of the analysed code (IMAGE_FILE_MACHINE_* of PE_DEF) and of the reference table."""
    cd = ctx.cdefs("pe").get("pestruct")
    vals = {v for k, v in (cd.defines.items() if cd else ()) if k.startswith("IMAGE_FILE_MACHINE_")}
    vals |= {tables.PE_DEFINES["IMAGE_FILE_MACHINE_AMD64"], tables.PE_DEFINES["IMAGE_FILE_MACHINE_I386"]}
    return sorted(vals)


def _machine_values(ctx):
    """The cases of the distinction on FILE.Machine: the vocabulary plus one "any other value" case."""
    return _machine_vocab(ctx) + [_OTHER]


_TABLE_WRAPPERS = ("MappingProxyType", "types.MappingProxyType", "dict", "frozendict")


def _table_of(ctx, f, e, depth=0):
    """The dict display a table expression denotes: a display, a module-level constant of the function's module that is
    one (not shadowed by a local), or a read-only/copy wrapper (`MappingProxyType(..)`, `dict(..)`) around one."""
    if isinstance(e, ast.Dict):
        return e if all(k is not None for k in e.keys) else None
    if depth > 4:
        return None
    if isinstance(e, ast.Name):
        if e.id in params(f.node) or assignments_to(f.node, e.id) or e.id not in f.module.consts:
            return None
        return _table_of(ctx, f, f.module.consts[e.id], depth + 1)
    if isinstance(e, ast.Call) and dotted(e.func) in _TABLE_WRAPPERS and len(e.args) == 1 and not e.keywords and not isinstance(e.args[0], ast.Starred):
        return _table_of(ctx, f, e.args[0], depth + 1)
    return None


def _struct_of(ctx, f, e, stream):
    """(module, cstruct variable, type name) of the cstruct type the expression refers to (the callee of a parse
    `e(stream)`), else None."""
    if not isinstance(e, (ast.Name, ast.Attribute)) or dotted(e) is None:
        return None
    cal = ctx.rs.resolve_call(f, ast.Call(func=e, args=[_nm(stream or "fh")], keywords=[]))
    if cal.kind == "struct" and cal.struct:
        return cal.struct
    return None


def _nullness(ctx, f, e):
    """True: the (picked) expression is None; False: it is known not to be None (a constant, a display, a reference to a
    struct type of the module); None: unknown."""
    if isinstance(e, ast.Constant):
        return e.value is None
    if isinstance(e, (ast.Tuple, ast.List, ast.Dict, ast.Set, ast.JoinedStr)):
        return False
    if _struct_of(ctx, f, e, None) is not None:
        return False
    return None


def _mach_leaf(ctx, f, v):
    """Decides canonical tests on FILE.Machine for the case `FILE.Machine == v` (v a constant of the vocabulary) or for
    the case "any other value" (v is _OTHER: unequal to every constant of the vocabulary, unknown otherwise)."""
    known = set(_machine_vocab(ctx))

    def leaf(e):
        if isinstance(e, ast.Compare) and len(e.ops) == 1:
            l, op, r = e.left, e.ops[0], e.comparators[0]
            if _u(r) == "FILE.Machine" and isinstance(op, (ast.Eq, ast.NotEq)):
                l, r = r, l
            if _u(l) != "FILE.Machine":
                # a comparison of a value selected by the machine (conditional expression, table lookup on
                # FILE.Machine) with None or with a constant: decided on the value picked for this case
                if not isinstance(op, (ast.Eq, ast.NotEq, ast.Is, ast.IsNot)):
                    return None
                pl, pr = _pick(ctx, f, l, leaf, v), _pick(ctx, f, r, leaf, v)
                if pl is l and pr is r:
                    return None
                pos = isinstance(op, (ast.Eq, ast.Is))
                if is_none(pl) or is_none(pr):
                    n = _nullness(ctx, f, pr if is_none(pl) else pl)
                    return None if n is None else (n == pos)
                if isinstance(pl, ast.Constant) and isinstance(pr, ast.Constant) and isinstance(op, (ast.Eq, ast.NotEq)):
                    return (pl.value == pr.value) == pos
                return None
            if isinstance(op, (ast.Eq, ast.NotEq)):
                c = _const_of(ctx, f, r)
                if c is _NOCONST or (v is _OTHER and c not in known):
                    return None
                return (v == c) if isinstance(op, ast.Eq) else (v != c)
            if isinstance(op, (ast.In, ast.NotIn)):
                tab = _table_of(ctx, f, r.func.value if isinstance(r, ast.Call) and isinstance(r.func, ast.Attribute) and r.func.attr == "keys" and not r.args and not r.keywords else r)
                if isinstance(r, (ast.Tuple, ast.List, ast.Set)):
                    cs = [_const_of(ctx, f, x) for x in r.elts]
                elif tab is not None:  # membership in a literal table: its keys
                    cs = [_const_of(ctx, f, k) for k in tab.keys]
                else:
                    cs = _const_of(ctx, f, r)
                    cs = list(cs) if isinstance(cs, (tuple, list, set, frozenset, dict)) else [_NOCONST]
                if any(c is _NOCONST for c in cs) or (v is _OTHER and any(c not in known for c in cs)):
                    return None
                return (v in cs) if isinstance(op, ast.In) else (v not in cs)
        if isinstance(e, (ast.Subscript, ast.Call, ast.IfExp)):
            pv = _pick(ctx, f, e, leaf, v)
            if isinstance(pv, ast.Constant):
                return bool(pv.value)
        if _u(e) == "FILE.Machine":
            return None if v is _OTHER else bool(v)
        return None

    return leaf


def _pick(ctx, f, e, leaf, v):
    """Value of a canonical expression in the case decided by leaf: conditional expressions and literal-dict lookups on
    FILE.Machine are resolved."""
    if isinstance(e, ast.IfExp):
        t = _tv3(e.test, leaf)
        if t is not None:
            return _pick(ctx, f, e.body if t else e.orelse, leaf, v)
        return e
    key = dflt = table = None
    if isinstance(e, ast.Subscript) and _u(e.slice) == "FILE.Machine":
        table, key = e.value, e.slice
    elif isinstance(e, ast.Call) and isinstance(e.func, ast.Attribute) and e.func.attr == "get" and e.args and _u(e.args[0]) == "FILE.Machine" and not e.keywords:
        table, key, dflt = e.func.value, e.args[0], (e.args[1] if len(e.args) > 1 else ast.Constant(value=None))
    if key is not None:
        tv = None
        table = _table_of(ctx, f, table)
        if table is not None:
            ks = [_const_of(ctx, f, k) for k in table.keys]
            if not any(k is _NOCONST for k in ks):
                tv = dict(zip(ks, table.values))
        if tv is not None and v is _OTHER and any(k not in set(_machine_vocab(ctx)) for k in tv):
            tv = None  # a key outside the vocabulary: the "other" case may or may not hit it
        if tv is not None:
            if v in tv:
                return tv[v]
            if dflt is not None:
                return dflt
    return e


def _machine_cases(ctx, f, cn, nodes_conds):
    """Machine values consistent with every (canonical test, polarity) of nodes_conds."""
    out = []
    for v in _machine_values(ctx):
        leaf = _mach_leaf(ctx, f, v)
        ok = True
        for c, pol in nodes_conds:
            t = _tv3(c, leaf)
            if t is not None and t != pol:
                ok = False
                break
        if ok:
            out.append(v)
    return out


def _alts(e):
    """The alternatives of a (canonical) conditional expression with the tests that select them."""
    if isinstance(e, ast.IfExp):
        return [(x, [(e.test, True)] + c) for x, c in _alts(e.body)] + [(x, [(e.test, False)] + c) for x, c in _alts(e.orelse)]
    return [(e, [])]


def _conds_closure(ctx, f, cn, stmts):
    """(canonical test, polarity) of the conditions that dominate the statements and, transitively, the definitions the
    values in those conditions were traced through (a value that flows only from a definition satisfies what held there)."""
    todo, seen, out = list(stmts), set(), []
    while todo:
        st = todo.pop()
        if id(st) in seen:
            continue
        seen.add(id(st))
        for n, pol in _dom_facts(ctx, f, st):
            cn.prov = []
            out.append((cn.canon(n, full=True), pol))
            todo.extend(cn.prov)
    return out


def _reported(cn, r):
    """(defining statement, expression) of the values a return statement may report: the returned expression itself, or -
    when a local is returned that is assigned in several places (`found = None` ... `found = <hit>; break` ... `return
    found`) - each plain definition flowing into it that is not the None placeholder."""
    return [(s if s is not None else r, v) for s, v in cn._origins(r.value, r) if not is_none(v)]


def _accepts(ctx, f, cn):
    """For a scanner: {machine value: set of values returned for a candidate with that machine} over the returns that
    report a hit; the conditions are those dominating the return *and* every definition its value was traced through."""
    cfg = ctx.cfg(f)
    rets = [r for r in cfg.return_stmts() if r.value is not None and not is_none(r.value)]
    res = {}
    allowed = None
    if f.fq != "pe.find_mz_offset" and any(cn.call_role(c) == "MZ" for c in fn_calls(f.node)):
        # the image is located through find_mz_offset: only the machines it accepts can be seen in the file header
        g = ctx.repo.func("pe.find_mz_offset")
        allowed = set(_accepts(ctx, g, _view(ctx, g).cn)[0])
    for r, site, v0 in [(r, s, v0) for r in rets for s, v0 in _reported(cn, r)]:
        cn.prov = []
        val = cn.canon(v0, full=True)
        base = _conds_closure(ctx, f, cn, list(cn.prov) + [r] + ([site] if site is not r else []))
        for alt, extra_c in _alts(val):
            if is_none(alt):
                continue
            conds = base + extra_c
            for v in _machine_cases(ctx, f, cn, conds):
                if allowed is not None and v not in allowed:
                    continue
                pv = _pick(ctx, f, alt, _mach_leaf(ctx, f, v), v)
                if is_none(pv):
                    continue  # nothing is reported for this machine
                res.setdefault(v, set()).add(pv.value if isinstance(pv, ast.Constant) else _u(pv))
    return res, rets


# ---------------------------------------------------------------------------- value flow into returned expressions
def _flow_names(fn, exprs):
    """Local names whose values may flow into the given expressions (through plain/augmented assignments)."""
    names, todo = set(), [n.id for e in exprs for n in ast.walk(e) if isinstance(n, ast.Name)]
    while todo:
        x = todo.pop()
        if x in names:
            continue
        names.add(x)
        for st, v in assignments_to(fn, x):
            src_e = v if v is not None else getattr(st, "value", None)
            if isinstance(src_e, ast.AST):
                todo.extend(n.id for n in ast.walk(src_e) if isinstance(n, ast.Name))
    return names


def _reads_into(view, exprs):
    """Stream reads whose result flows into one of the expressions."""
    names = _flow_names(view.cn.fn, exprs)
    inside = {id(n) for e in exprs for n in ast.walk(e)}
    return [s for s in view.sites if s.kind == "read" and ((s.var is not None and s.var in names) or id(s.node) in inside)]


# ============================================================================ R2: positions
_PE_FUNCS = {
    "pe.find_mz_offset": "scan",
    "pe.find_architecture": "scan",
    "pe.find_compile_stamps": "found",
    "pe.find_magic_pe": "found",
    "pe.find_stage_prepend_append": "found",
}


def _untracked(ctx, rule, f, text, view, site, what):
    """The position before `site` is unknown: when no seek precedes it at all the operation happens wherever the stream
    was left (located and wrong); otherwise the position expression is beyond the cursor walk (undecided)."""
    before = view.sites[: next(i for i, s in enumerate(view.sites) if s is site)]
    if not any(s.kind == "seek" for s in before):
        ctx.ob(rule, "CURSOR", f, text, False, f"no seek precedes the {what}: it happens wherever the stream position was left", site.node)
    else:
        ctx.undecided(rule, "CURSOR", f, text, f"the stream position before the {what} is not tracked", site.node)


def _pos_ob(ctx, f, label, site, want):
    if site.cpos is None:
        _untracked(ctx, "R2", f, f"{label} position", _view(ctx, f), site, f"{label} parse")
    else:
        ctx.ob("R2", "CURSOR", f, f"{label} position", site.cpos == want, f"{label} parsed at {site.cpos}; required {want}", site.node)


def r2(ctx):
    total = 0
    for fq, kind in _PE_FUNCS.items():
        f = ctx.repo.func(fq)
        v = _view(ctx, f)
        cn = v.cn
        dos = [s for s in v.parses if s.role == "DOS"]
        if not dos:
            ctx.undecided("R2", "CURSOR", f, "IMAGE_DOS_HEADER", "no IMAGE_DOS_HEADER parse on the stream is found in the function")
            continue
        # the image base: for the scanners <start> + <index of the range loop>, for the others the value returned by
        # find_mz_offset - discovered by role, not by name
        if kind == "scan" and v.has_mz and fq != "pe.find_mz_offset" and v.scan()["status"] == "undecided":
            kind = "found"
        if kind == "scan":
            sc = v.scan()
            B = sc["B"] if sc["status"] == "ok" else None
            if sc["status"] == "undecided":
                ctx.undecided("R2", "CURSOR", f, "image base", sc["why"], dos[0].node)
            else:
                ctx.ob("R2", "CURSOR", f, "IMAGE_DOS_HEADER @ base", sc["status"] == "ok", sc["why"] or f"DOS header parsed at {B} = <start> + candidate index", dos[0].node)
                total += 1
            if B is None:
                continue
        else:
            if not v.has_mz:
                ctx.undecided("R2", "CURSOR", f, "image base", "no call of find_mz_offset: the image base cannot be identified")
                continue
            B = SymPoly.atom("MZ")
        L = SymPoly.atom("DOS.e_lfanew")
        have_opt = any(s.role == "OPT" for s in v.parses)
        for s in v.parses:
            if s.role == "DOS":
                if kind == "scan" and s is dos[0]:
                    continue
                total += 1
                if s.cpos is None:
                    ctx.undecided("R2", "CURSOR", f, "IMAGE_DOS_HEADER @ base", "the stream position before the DOS header parse is not tracked", s.node)
                else:
                    ctx.ob("R2", "CURSOR", f, "IMAGE_DOS_HEADER @ base", s.cpos == B, f"DOS header parsed at {s.cpos}; required {B}", s.node)
            elif s.role == "U32":
                total += 1
                _pos_ob(ctx, f, "PE signature", s, B + L)
            elif s.role == "FILE":
                total += 1
                _pos_ob(ctx, f, "IMAGE_FILE_HEADER", s, B + L + SymPoly.const(4))
            elif s.role == "OPT":
                total += 1
                _pos_ob(ctx, f, "optional header (type selected per machine)" if s.alts else s.what.lstrip("_"), s, B + L + SymPoly.const(24))
            elif s.role == "SECTION":
                total += 1
                if not have_opt:
                    ctx.undecided("R2", "CURSOR", f, "section table position", "no optional header parse is found before the section table", s.node)
                else:
                    _pos_ob(ctx, f, "section table", s, B + L + SymPoly.const(24) + SymPoly.atom("sizeof(OPT)"))
                cnt = None
                if s.count is not None:
                    try:
                        cnt = cn.poly(ast.parse(s.count, mode="eval").body)
                    except SyntaxError:
                        cnt = None
                want = SymPoly.atom("FILE.NumberOfSections")
                if s.count is None:
                    ctx.undecided("R2", "CURSOR", f, "section count", "the section headers are not parsed by a comprehension over a range", s.node)
                else:
                    ctx.ob("R2", "CURSOR", f, "section count", cnt == want, f"parses {cnt} section headers; required {want}", s.node)
            elif s.role == "EXPORT":
                total += 1
                _export_ob(ctx, f, v, s, B)
        if fq == "pe.find_magic_pe":
            # the reported magic: the read whose result is returned
            rets = [r.value for r in ctx.cfg(f).return_stmts() if r.value is not None and not is_none(r.value)]
            reads = _reads_into(v, rets)
            if len(reads) != 1:
                ctx.undecided("R2", "CURSOR", f, "PE magic position", f"{len(reads)} stream reads flow into the returned value")
            else:
                s = reads[0]
                total += 1
                ln = cn.poly(s.node.args[0]) if s.node.args else None
                if s.cpos is None:
                    _untracked(ctx, "R2", f, "PE magic position", v, s, "read of the PE magic")
                else:
                    ctx.ob("R2", "CURSOR", f, "PE magic position", s.cpos == B + L and ln == SymPoly.const(4), f"PE magic: {ln} bytes read at {s.cpos}; required 4 bytes at {B + L}", s.node)
        if fq == "pe.find_mz_offset":
            # what the scanner reports is the position of the DOS header it accepted
            for r in ctx.cfg(f).return_stmts():
                if r.value is None or is_none(r.value):
                    continue
                for alt, _c in [a for _s, v0 in _reported(cn, r) for a in _alts(cn.canon(v0))]:
                    if is_none(alt):
                        continue
                    p = _poly(alt)
                    ctx.ob("R2", "CURSOR", f, "reported offset = position of the accepted DOS header", p == B, f"returns {p}; the accepted header was parsed at {B}", r)
    ctx.rep.count("pe_parse_sites", total, floor=16)
    _r2_truncation(ctx)


def _eof_handlers(ctx, f, st):
    """Handlers that may catch the EOFError raised by a struct parse in statement `st` (lemma L10): the handlers of the
    innermost enclosing `try` whose body contains the statement and that has a handler for EOFError / a base of it / an
    unresolved class.  [] when the exception leaves the function."""
    fv = FuncView.of(f.node)
    eof = ast.Raise(exc=_nm("EOFError"), cause=None)
    cur = st
    while True:
        par = fv.parent.get(id(cur))
        if par is None or par is f.node:
            return []
        if isinstance(par, ast.Try) and any(cur is b for b in par.body) and par.handlers and _may_catch(par, eof):
            out = []
            for h in par.handlers:
                one = ast.Try(body=[], handlers=[h], orelse=[], finalbody=[])
                if _may_catch(one, eof):
                    out.append(h)
            return out
        cur = par


def _r2_truncation(ctx):
    """EXIT: once the IMAGE_FILE_HEADER is parsed its TimeDateStamp is what find_compile_stamps reports as compile stamp,
    also when a later header is cut short.  A struct parse that comes after the file header can raise EOFError; where a
    handler of the function catches it and a return of the pair follows, the first element must already hold
    FILE.TimeDateStamp: no CFG path leads from the completed file header parse to the point before such a parse without
    passing a definition of the returned local from FILE.TimeDateStamp (devices 1, 2, 3)."""
    f = ctx.repo.func("pe.find_compile_stamps")
    text = "compile stamp reported once the file header is parsed"
    v = _view(ctx, f)
    cn, cfg, fv = v.cn, ctx.cfg(f), FuncView.of(f.node)
    fsite = v.first("FILE")
    fst = fv.stmt_of(fsite.node) if fsite is not None else None
    if fst is None or not cfg.has(fst):
        ctx.undecided("R2", "EXIT", f, text, "no IMAGE_FILE_HEADER parse on the stream is found in the function")
        return
    later = []
    for s in v.parses:
        st = fv.stmt_of(s.node)
        if st is not None and st is not fst and cfg.has(st) and not any(st is x for x in later):
            later.append(st)
    bad, unknown, checked = [], [], 0
    for r in cfg.return_stmts():
        val = r.value if isinstance(r.value, ast.Tuple) else (cn.canon(r.value) if r.value is not None else None)
        if not (isinstance(val, ast.Tuple) and len(val.elts) == 2):
            continue
        e0 = strip_cast(val.elts[0])
        if _u(cn.canon(e0, full=True)) == "FILE.TimeDateStamp":
            continue  # this return hands out the field itself
        if is_none(e0):
            defs, name = [], None
        elif isinstance(e0, ast.Name) and e0.id not in cn.pars:
            name = e0.id
            all_defs = assignments_to(cn.fn, name)
            if any(vv is None or not isinstance(d, (ast.Assign, ast.AnnAssign)) for d, vv in all_defs):
                unknown.append(f"the first element `{name}` of a returned pair is not defined by plain assignments")
                continue
            defs = [d for d, vv in all_defs if _u(cn.canon(strip_cast(vv), full=True)) == "FILE.TimeDateStamp"]
            other = [vv for d, vv in all_defs if not any(d is x for x in defs) and not is_none(vv)]
            if other:
                unknown.append(f"the first element of a returned pair is also defined as {_u(other[0])[:60]}")
                continue
        else:
            unknown.append(f"the first element {_u(e0)[:60]} of a returned pair is neither a local nor FILE.TimeDateStamp")
            continue
        dn = [cfg.node(d) for d in defs if cfg.has(d)]
        rn, fnode = cfg.node(r), cfg.node(fst)
        for st in later:
            hs = [h for h in _eof_handlers(ctx, f, st) if cfg.has(h) and (cfg.node(h) == rn or cfg.reaches(cfg.node(h), rn, avoiding=dn))]
            if not hs:
                continue  # the exception leaves the function, or the handler does not lead to this return
            checked += 1
            # the point before the parse: a predecessor of its statement that the completed file header parse reaches
            # without the stamp having been taken
            for pnode in cfg.g.predecessors(cfg.node(st)):
                if pnode in dn:
                    continue
                if pnode == fnode or cfg.reaches(fnode, pnode, avoiding=dn):
                    role = next((s.role for s in v.parses if fv.stmt_of(s.node) is st), "?")
                    bad.append(f"the {role} parse can be reached from the completed IMAGE_FILE_HEADER parse before the first element of the returned pair "
                               f"({_u(e0)}) is set from FILE.TimeDateStamp; when it raises EOFError the handler leads to `return {_u(r.value)[:50]}` and the compile stamp of the image is lost")
                    break
    if bad:
        ctx.ob("R2", "EXIT", f, text, False, bad[0], fsite.node)
    elif unknown:
        ctx.undecided("R2", "EXIT", f, text, unknown[0], fsite.node)
    else:
        ctx.ob("R2", "EXIT", f, text, True, f"{len(later)} later struct parses: wherever their EOFError is caught and a pair is returned, the first element was set from FILE.TimeDateStamp "
               "right after the file header parse (or the exception leaves the function)", fsite.node, nontrivial=bool(checked))


def _is_export_rva(ctx, f, text):
    """OPT.DataDirectory[IMAGE_DIRECTORY_ENTRY_EXPORT].VirtualAddress"""
    try:
        e = ast.parse(text, mode="eval").body
    except SyntaxError:
        return False
    if not (isinstance(e, ast.Attribute) and e.attr == "VirtualAddress" and isinstance(e.value, ast.Subscript)):
        return False
    sub = e.value
    if _u(sub.value) != "OPT.DataDirectory":
        return False
    return _const_of(ctx, f, sub.slice) == tables.PE_DEFINES["IMAGE_DIRECTORY_ENTRY_EXPORT"]


def _section_choice(ctx, f, cn, sec):
    """How the local `sec` is chosen from the section table: (element variable, iterable, [(condition, polarity)]) for
    `for x in T: if C(x): sec = x` and for `sec = next((x for x in T if C(x)), ..)`; None when it is chosen otherwise."""
    fn = cn.fn
    fv = FuncView.of(fn)
    defs = [(st, v) for st, v in assignments_to(fn, sec) if not (v is not None and is_none(v))]
    if not defs or any(v is None for _s, v in defs):
        return None
    out = None
    for st, v in defs:
        v = strip_cast(v)
        got = None
        if isinstance(v, ast.Name):
            loop = fv.enclosing(st, (ast.For,))
            while loop is not None and not (isinstance(loop.target, ast.Name) and loop.target.id == v.id):
                loop = fv.enclosing(loop, (ast.For,))
            if loop is not None:
                got = (v.id, loop.iter, _dom_facts(ctx, f, st))
        elif isinstance(v, ast.Call) and dotted(v.func) == "next" and v.args:
            g = v.args[0]
            if isinstance(g, ast.Name):
                g = cn._origins(g, st)
                g = g[0][1] if len(g) == 1 else None
            if isinstance(g, ast.GeneratorExp) and len(g.generators) == 1 and isinstance(g.generators[0].target, ast.Name) \
                    and isinstance(g.elt, ast.Name) and g.elt.id == g.generators[0].target.id:
                gen = g.generators[0]
                got = (gen.target.id, gen.iter, [(c, True) for c in gen.ifs])
        if got is None or (out is not None and _u(out[1]) != _u(got[1])):
            return None
        out = got if out is None else (out[0], out[1], out[2] + got[2]) if out[0] == got[0] else None
        if out is None:
            return None
    return out


def _export_ob(ctx, f, v, site, B):
    cn = v.cn
    text = "IMAGE_EXPORT_DIRECTORY position"
    ex = site.cpos
    if ex is None:
        ctx.undecided("R2", "CURSOR", f, text, "the stream position before the export directory parse is not tracked", site.node)
        return
    rel = ex - B
    raw = [mon[0] for mon, c in rel.terms.items() if len(mon) == 1 and c == 1 and mon[0].endswith(".PointerToRawData")]
    form = f"export directory parsed at {ex}; required {B} + (export rva - S.VirtualAddress) + S.PointerToRawData for the section S containing the rva"
    if len(raw) != 1:
        ctx.ob("R2", "CURSOR", f, text, False, form, site.node)
        return
    sec = raw[0].rsplit(".", 1)[0]
    rva = _single_atom(rel - SymPoly.atom(raw[0]) + SymPoly.atom(f"{sec}.VirtualAddress"))
    if rva is None or rva.startswith(sec + "."):
        ctx.ob("R2", "CURSOR", f, text, False, form, site.node)
        return
    dd_ok = _is_export_rva(ctx, f, rva)
    detail = f"export directory at {ex}; rva from OPT.DataDirectory[EXPORT]={dd_ok}"
    if not dd_ok and cn.unlocated_parse(rva):
        ctx.undecided("R2", "CURSOR", f, text, f"export directory at {ex}: the rva is a field of a header parsed by a call whose struct type is not identified", site.node)
        return
    if not dd_ok:
        ctx.ob("R2", "CURSOR", f, text, False, detail, site.node)
        return
    ch = _section_choice(ctx, f, cn, sec) if sec.isidentifier() else None
    if ch is None:
        ctx.ob("R2", "CURSOR", f, text, True, detail, site.node)
        ctx.undecided("R2", "CURSOR", f, "section containing the export rva", f"cannot identify how the section `{sec}` is chosen from the section table", site.node)
        return
    lv, it, facts = ch
    tab = cn.canon(it, full=True)
    from_table = any(isinstance(n, ast.Name) and n.id == "SECTION" for n in ast.walk(tab))
    got = _ineqs(cn, facts, extra={lv: _nm(_SEC)})
    R = SymPoly.atom(rva)
    va, vs = SymPoly.atom(f"{_SEC}.VirtualAddress"), SymPoly.atom(f"{_SEC}.VirtualSize")
    need = {R - va, va + vs - R - SymPoly.const(1)}
    ctx.ob("R2", "CURSOR", f, text, True, detail, site.node)
    if not from_table:
        ctx.undecided("R2", "CURSOR", f, "section containing the export rva", f"the sections searched ({_u(tab)[:80]}) are not recognised as the parsed section table", site.node)
        return
    ctx.ob("R2", "CURSOR", f, "section containing the export rva", need <= got,
           f"section chosen under {sorted(map(repr, got))} >= 0; required S.VirtualAddress <= rva < S.VirtualAddress + S.VirtualSize, i.e. {sorted(map(repr, need))} >= 0", site.node)


# ============================================================================ R3: the two scanners
def _scanner_summary(ctx, f):
    """Canonical description of what a scanner accepts (names of locals do not occur in it)."""
    v = _view(ctx, f)
    cn = v.cn
    sc = v.scan()
    out = {"status": sc["status"], "why": sc["why"]}
    if sc["status"] != "ok":
        return out
    A = SymPoly.atom(sc["A"])
    START = SymPoly.atom("START")
    rel = lambda p: None if p is None else repr(p - A + START)
    out["range"] = repr(sc["M"])
    out["start"] = v.start_expr()
    out["dos"] = rel(sc["B"])
    fh_ = v.first("FILE")
    out["file"] = rel(fh_.cpos) if fh_ is not None else None
    out["lfanew"] = sorted(repr(p) for p in _ineqs(cn, _dom_facts(ctx, f, fh_.node))) if fh_ is not None else None
    acc, _rets = _accepts(ctx, f, cn)
    out["machines"] = [_mfmt(x) for x in sorted(acc, key=_mkey)]
    fv = FuncView.of(f.node)
    eof = {}
    for role in ("DOS", "FILE"):
        s = v.first(role)
        types = set()
        if s is not None:
            chain = [s.node] + fv.ancestors(s.node)
            for child, anc in zip(chain, chain[1:]):
                if isinstance(anc, ast.Try) and any(child is b for b in anc.body):
                    types |= {src(h.type) for h in anc.handlers}
        eof[role] = sorted(types)
    out["eof"] = eof
    return out


def _tested_fields(ctx, f, cn):
    tests = [s2.test for s2 in statements(f.node) if isinstance(s2, (ast.If, ast.While, ast.Assert))]
    for n in ast.walk(f.node):
        if isinstance(n, ast.IfExp):
            tests.append(n.test)
        elif isinstance(n, ast.comprehension):
            tests.extend(n.ifs)
        elif isinstance(n, ast.Call) and dotted(n.func) in ("filter", "any", "all"):
            tests.extend(n.args)
    out = set()
    for t in tests:
        for n in ast.walk(cn.canon(t, full=True)):  # through temporaries (`ok = hdr.field == ..; if ok and ..`)
            if isinstance(n, ast.Attribute) and isinstance(n.value, ast.Name) and n.value.id in _STRUCT_ROLES:
                out.add(n.attr)
    return sorted(out)


def _loop_exits(loop):
    """(statement, kind) of the statements inside the candidate loop that leave it instead of going on to the next
    candidate: return, raise, and a break that is bound to this loop (not to a loop nested in it)."""
    out = []

    def visit(body, inner):
        for st in body:
            if isinstance(st, (ast.FunctionDef, ast.AsyncFunctionDef, ast.ClassDef)):
                continue
            if isinstance(st, ast.Return):
                out.append((st, "return"))
            elif isinstance(st, ast.Raise):
                out.append((st, "raise"))
            elif isinstance(st, ast.Break) and not inner:
                out.append((st, "break"))
            for name in ("body", "orelse", "finalbody"):
                blk = getattr(st, name, None)
                if isinstance(blk, list) and blk and isinstance(blk[0], ast.stmt):
                    visit(blk, inner or (name == "body" and isinstance(st, (ast.For, ast.AsyncFor, ast.While))))
            for h in getattr(st, "handlers", None) or []:
                visit(h.body, inner)
            for case in getattr(st, "cases", None) or []:
                visit(case.body, inner)

    visit(loop.body, False)
    return out


def _loop_facts(ctx, f, cn, loop, stmts):
    """(canonical test, polarity) of the branch edges *inside the candidate loop* that dominate the statements and,
    transitively, the definitions the tested values were traced through.  Conditions outside the loop hold for every
    candidate alike and say nothing about the one under inspection."""
    cfg = ctx.cfg(f)
    tests = [s for s in ast.walk(loop) if isinstance(s, (ast.If, ast.While)) and s is not loop and cfg.has(s)]
    todo, seen, out = list(stmts), set(), []
    while todo:
        st = todo.pop()
        if id(st) in seen or not cfg.has(st):
            continue
        seen.add(id(st))
        target = cfg.node(st)
        for s in tests:
            pol = True if cfg.dominates(cfg.edge_node(s, "true"), target) else False if cfg.dominates(cfg.edge_node(s, "false"), target) else None
            if pol is None:
                continue
            for leaf, lp in _flatten(s.test, pol):
                cn.prov = []
                out.append((cn.canon(leaf, full=True), lp))
                todo.extend(cn.prov)
    return out


def _may_catch(tr, rs):
    """May a handler of the try statement catch what the raise statement raises?  False only when the raised class and
    every handler class are builtin exception classes and none of the handler classes is a base of the raised one."""
    import builtins

    def cls_of(e):
        c = getattr(builtins, dotted(e) or "", None)
        return c if isinstance(c, type) and issubclass(c, BaseException) else None

    exc = rs.exc.func if isinstance(rs.exc, ast.Call) else rs.exc
    raised = cls_of(exc) if exc is not None else None
    if raised is None:
        return True
    for h in tr.handlers:
        types_ = [None] if h.type is None else list(h.type.elts) if isinstance(h.type, ast.Tuple) else [h.type]
        for t in types_:
            c = cls_of(t) if t is not None else None
            if c is None or issubclass(raised, c):
                return True
    return False


def _mentions(e):
    """Which candidate headers a canonical test talks about: "machine" (FILE.Machine), "header" (any other field of the
    candidate's DOS / file header)."""
    out = set()
    for n in ast.walk(e):
        if isinstance(n, ast.Attribute) and isinstance(n.value, ast.Name) and n.value.id in ("DOS", "FILE"):
            out.add("machine" if (n.value.id, n.attr) == ("FILE", "Machine") else "header")
        elif isinstance(n, ast.Name) and n.id in ("DOS", "FILE"):
            out.add("header")
    if "machine" in out:
        out.discard("header")
    return out


def _scan_exits(ctx, f):
    """R3: a candidate that is *not* reported must not end the scan.  The scanners look at every offset of the search range
    and the image is the first candidate with 0 < e_lfanew < range and an x86/x64 Machine; bytes prepended to the stage may
    form earlier candidates that fail one of the tests.  So inside the candidate loop (a) no return may yield None for a
    Machine case that reaches it, (b) no break / raise may be reached by a candidate whose Machine is not x86/x64: such a
    candidate has to fall through to the next offset.  Decided by the case distinction on FILE.Machine over the branch
    edges inside the loop that dominate the exit (tests on e_lfanew are independent of the case and stay symbolic)."""
    v = _view(ctx, f)
    cn = v.cn
    text = "a rejected candidate does not end the scan"
    loop = v.scan().get("loop")
    if loop is None:
        if f.fq != "pe.find_mz_offset" and v.has_mz:
            ctx.ob("R3", "EXIT", f, text, True, "the image is located through find_mz_offset (no candidate loop of its own)")
        else:
            ctx.undecided("R3", "EXIT", f, text, "candidate loop over a range not identified")
        return
    accepted = {tables.PE_DEFINES["IMAGE_FILE_MACHINE_AMD64"], tables.PE_DEFINES["IMAGE_FILE_MACHINE_I386"]}
    fv = FuncView.of(f.node)
    file_parse = v.first("FILE")
    bad, unsure = [], []
    for st, kind in _loop_exits(loop):
        chain = [st] + fv.ancestors(st)
        chain = chain[: next(i for i, n in enumerate(chain) if n is loop)]
        handler = next((n for n in chain if isinstance(n, ast.ExceptHandler)), None)
        if handler is not None:
            tr = fv.parent.get(id(handler))
            covered = file_parse is not None and isinstance(tr, ast.Try) and any(file_parse.node is n for b in tr.body for n in ast.walk(b))
            if covered and (kind != "return" or st.value is None or is_none(cn.canon(st.value, full=True))):
                bad.append(f"{kind} in the exception handler around the file header parse: a candidate whose file header (at an offset taken from its e_lfanew) lies beyond the data ends the scan")
            else:
                unsure.append(f"{kind} in an exception handler inside the loop")
            continue
        if kind == "raise" and any(isinstance(n, ast.Try) and any(c is b for b in n.body) and _may_catch(n, st) for c, n in zip(chain, chain[1:])):
            unsure.append("raise inside a try block of the loop that may handle it")
            continue
        if kind == "return" and st.value is not None:
            cn.prov = []
            val = cn.canon(st.value, full=True)
            facts = _loop_facts(ctx, f, cn, loop, list(cn.prov) + [st])
            alts = _alts(val)
        else:
            facts = _loop_facts(ctx, f, cn, loop, [st])
            alts = [(ast.Constant(value=None), [])]
        foreign = [c for c, _p in facts if not _mentions(c) and not isinstance(c, ast.Constant)]
        hit_yes, hit_maybe = [], []
        for alt, sel in alts:
            for m in _machine_values(ctx):
                leaf = _mach_leaf(ctx, f, m)
                status = "yes"
                for c, pol in facts + sel:
                    t = _tv3(c, leaf)
                    if t is not None and t != pol:
                        status = "no"
                        break
                    if t is None and "machine" in _mentions(c):
                        status = "maybe"
                if status == "no":
                    continue
                if kind == "return":
                    if not is_none(_pick(ctx, f, alt, leaf, m)):
                        continue  # something is reported: judged by `accepted machines` / `machine -> architecture`
                elif m in accepted:
                    continue  # the break of a hit
                (hit_yes if status == "yes" else hit_maybe).append(m)
        what = {"return": "returns None", "break": "leaves the loop (break)", "raise": "raises"}[kind]
        if foreign and (hit_yes or hit_maybe):
            unsure.append(f"an exit under a condition that is not on the candidate's headers ({_u(foreign[0])[:60]})")
        elif hit_yes:
            bad.append(f"the scan {what} at a candidate with Machine in {[_mfmt(x) for x in sorted(set(hit_yes), key=_mkey)]} instead of going on to the next offset")
        elif hit_maybe:
            unsure.append(f"an exit whose Machine condition is not resolved for {[_mfmt(x) for x in sorted(set(hit_maybe), key=_mkey)]}")
    if bad:
        ctx.ob("R3", "EXIT", f, text, False, "; ".join(bad[:3]) + " - prepended bytes that form such a candidate hide the image (the other scanners skip it)", loop)
    elif unsure:
        ctx.undecided("R3", "EXIT", f, text, "; ".join(unsure[:3]), loop)
    else:
        ctx.ob("R3", "EXIT", f, text, True, "inside the candidate loop every return reports a hit and every break is reached by x86/x64 candidates only: all other candidates fall through to the next offset", loop)


def r3(ctx):
    a, b = ctx.repo.func("pe.find_mz_offset"), ctx.repo.func("pe.find_architecture")
    AMD64, I386 = tables.PE_DEFINES["IMAGE_FILE_MACHINE_AMD64"], tables.PE_DEFINES["IMAGE_FILE_MACHINE_I386"]
    sa, sb = _scanner_summary(ctx, a), _scanner_summary(ctx, b)
    delegated = sb["status"] == "undecided" and _view(ctx, b).has_mz
    if delegated:
        ctx.ob("R3", "AGREE", a, "find_mz_offset ~ find_architecture", True, "find_architecture locates the image through find_mz_offset (one search loop)")
    elif sa["status"] == "ok" and sb["status"] == "ok":
        diff = {k: (sa[k], sb[k]) for k in sa if sa[k] != sb[k]}
        und = [k for k in ("start",) if sa[k] is None or sb[k] is None]
        if und and not [k for k in diff if k not in und]:
            ctx.undecided("R3", "AGREE", a, "find_mz_offset ~ find_architecture", "cannot identify how the start of the search is computed in one of the scanners")
        else:
            ctx.ob("R3", "AGREE", a, "find_mz_offset ~ find_architecture", not diff,
                   "both scanners use the same range, start, header positions, e_lfanew constraint, accepted machines and EOF handling" if not diff else f"siblings differ (find_mz_offset vs find_architecture): {diff}")
    elif "undecided" in (sa["status"], sb["status"]):
        ctx.undecided("R3", "AGREE", a, "find_mz_offset ~ find_architecture", "candidate loop not identified: " + (sa["why"] or sb["why"]))
    else:
        ctx.ob("R3", "AGREE", a, "find_mz_offset ~ find_architecture", False, "candidate position is wrong: " + (sa["why"] or sb["why"]))
    # the magic bytes (e_magic, PE signature) are customisable artifacts that are *reported*: a candidate header is judged
    # by e_lfanew and Machine only, never by its magic
    for f in (a, b):
        v = _view(ctx, f)
        if not v.parses:
            ctx.undecided("R3", "AGREE", f, "candidate judged by e_lfanew and Machine only", "no struct parse on the stream is found in the scanner")
            continue
        tested = _tested_fields(ctx, f, v.cn)
        extra = [t for t in tested if t not in ("e_lfanew", "Machine")]
        ctx.ob("R3", "AGREE", f, "candidate judged by e_lfanew and Machine only", not extra,
               f"header fields tested: {tested}" + ("" if not extra else f"; {extra} must not filter candidates (a stage with customised magic would not be located)"), f.node)
    # 0 < e_lfanew < maxrange before the file header is looked at, in both scanners
    for f in (a, b):
        v = _view(ctx, f)
        sc = v.scan()
        fh_ = v.first("FILE")
        if f is b and delegated:
            ctx.ob("R3", "AGREE", f, "e_lfanew constraint", True, "the candidate is located through find_mz_offset, which applies the constraint")
            continue
        if sc["status"] == "undecided" or sc["M"] is None or fh_ is None:
            ctx.undecided("R3", "AGREE", f, "e_lfanew constraint", "candidate loop / file header parse not identified")
            continue
        Lf = SymPoly.atom("DOS.e_lfanew")
        need = {Lf - SymPoly.const(1), sc["M"] - Lf - SymPoly.const(1)}
        got = _ineqs(v.cn, _dom_facts(ctx, f, fh_.node))
        ctx.ob("R3", "AGREE", f, "e_lfanew constraint", need <= got, f"file header parsed under {sorted(map(repr, got))} >= 0 (required 0 < e_lfanew < search range, i.e. {sorted(map(repr, need))} >= 0)", fh_.node)
    # a candidate that fails a test falls through to the next offset: no exit from the candidate loop but a hit
    for f in (a, b):
        _scan_exits(ctx, f)
    # accepted machines / machine -> architecture: case distinction on FILE.Machine over the returns that report a hit
    acc, rets = _accepts(ctx, a, _view(ctx, a).cn)
    if not rets:
        ctx.undecided("R3", "TABLE", a, "accepted machines", "no return of a found offset is identified")
    else:
        ctx.ob("R3", "TABLE", a, "accepted machines", set(acc) == {AMD64, I386}, f"find_mz_offset reports a hit for Machine in {[_mfmt(x) for x in sorted(acc, key=_mkey)]} (required AMD64 {AMD64:#x} and I386 {I386:#x} only)")
    m, rets = _accepts(ctx, b, _view(ctx, b).cn)
    if not rets:
        ctx.undecided("R3", "TABLE", b, "machine -> architecture", "no return of an architecture is identified")
    else:
        ctx.ob("R3", "TABLE", b, "machine -> architecture", m == {AMD64: {"x64"}, I386: {"x86"}}, "mapping " + str({_mfmt(k): sorted(map(str, vs)) for k, vs in sorted(m.items(), key=lambda kv: _mkey(kv[0]))}))
    # 64-bit optional header exactly on AMD64
    for fq in ("pe.find_compile_stamps", "pe.find_stage_prepend_append"):
        f = ctx.repo.func(fq)
        v = _view(ctx, f)
        opts = [s for s in v.parses if s.role == "OPT"]
        if not opts:
            ctx.undecided("R3", "AGREE", f, "optional header selection", "no optional header parse on the stream is found")
            continue
        # per struct type: the machines for which it is the type parsed - the cases consistent with the conditions that
        # dominate the parse and, for a type selected by a conditional expression / table lookup, with its selection
        by_type = {}
        for s in opts:
            dom = [(v.cn.canon(n, full=True), pol) for n, pol in _dom_facts(ctx, f, s.node)]
            for name, sel in (s.alts or [(s.what, [])]):
                cases = _machine_cases(ctx, f, v.cn, dom + sel)
                if name is not None:
                    by_type.setdefault(name.lstrip("_"), set()).update(cases)
        ok, seen = True, {}
        for name, cases in sorted(by_type.items()):
            seen[name] = [_mfmt(x) for x in sorted(cases, key=_mkey)]
            ok = ok and (cases == {AMD64} if name.endswith("64") else (AMD64 not in cases and I386 in cases))
        ctx.ob("R3", "AGREE", f, "optional header selection", ok and len(seen) == 2, f"optional header variant parsed for Machine in: {seen} (64-bit one exactly on AMD64, 32-bit one on I386 and never on AMD64)")


def r4(ctx):
    mod = ctx.repo.module("version")
    env = module_env(mod)
    for name, floor in (("MAX_ENUM_TO_VERSION", 18), ("PE_EXPORT_STAMP_TO_VERSION", 53)):
        node = ctx.repo.const(f"version.{name}")
        if not isinstance(node, ast.Dict):
            ctx.undecided("R4", "TABLE", f"version.py::{name}", "literal", "the table is not a dict display: its rows cannot be enumerated")
            continue
        rows = []
        keys_seen = set()
        for k, v in zip(node.keys, node.values):
            kk, vv = _c(k, env), _c(v, env)
            dup = kk in keys_seen
            keys_seen.add(kk)
            m = VERSION_RE.match(vv) if isinstance(vv, str) else None
            ok = m is not None and isinstance(kk, int) and not dup
            date = None
            ver = None
            if m:
                try:
                    date = datetime.date(int(m.group(6)), MONTHS[m.group(4)], int(m.group(5)))
                    ver = tuple(int(x) for x in m.groups()[:3] if x is not None)
                except (KeyError, ValueError):
                    ok = False
            ctx.rep.ob("R4", "TABLE", f"version.py::{name}::{kk!r}", ok and date is not None,
                       f"{kk!r} -> {vv!r}: " + ("well-formed" if ok and date else "does not match 'Cobalt Strike M.m[.p] (Mon DD, YYYY)' / duplicate key / invalid date"), "dissect/cobaltstrike/version.py", getattr(k, "lineno", 0))
            if ok and date:
                rows.append((kk, ver, date, vv))
        ctx.rep.count(f"{name}_rows", len(rows), floor=floor)
        rows.sort(key=lambda r: r[0])
        mono = True
        bad = []
        for (k1, v1, d1, s1), (k2, v2, d2, s2) in zip(rows, rows[1:]):
            if (v1, d1) > (v2, d2) or d1 > d2:
                mono = False
                bad.append((k1, s1, k2, s2))
        ctx.ob("R4", "TABLE", f"version.py::{name}", "monotone", mono, "sorted by key, (version, date) never decreases" if mono else f"later keys map to earlier releases: {bad[:3]}")
        # contiguity: keys of one release string are contiguous
        order = [r[3] for r in rows]
        seen, last, contig = set(), None, True
        for s in order:
            if s != last and s in seen:
                contig = False
            seen.add(s)
            last = s
        ctx.ob("R4", "TABLE", f"version.py::{name}", "contiguous releases", contig, "keys that map to one release are contiguous" if contig else "a release string reappears after another release")
        # version text <-> date agreement inside one table: same version tuple => same date
        by_ver = {}
        for k, ver, date, s in rows:
            by_ver.setdefault((ver, s.split(" (")[0]), set()).add(date)
    # cross-table: a version that appears in both tables has the same date text... (May 02 vs May 04 2019 are distinct builds)


# ============================================================================ path-wise value flow (term builder)
# Walks the paths of loop-free code and builds, per path, the symbolic *terms* of the values (allowed device 3): the
# inputs stay names, definitions are substituted, nothing is ever computed on concrete input data - the only folding is
# constant folding of constant sub-expressions of the code itself (device 6).  A `decide` callback states the named
# assumption of the case under analysis (device 2/5: the abstract outcome of one of the code's own tests); a test that
# neither constants nor the assumption decide forks, and the fork is recorded in the path condition.  The only loop
# form accepted is `for x in <tuple/list display of the code>`: a finite sequence of cases written in the code (device
# 5), followed element by element; every other loop, `try`, `while`, `match` ... makes the caller's obligation undecided.
# Independent of statement shapes: nested ifs, early returns, conditional expressions, temporaries, walrus, tuple
# unpacking and comprehensions over literal sequences all give the same terms.
class _Unsupported(Exception):
    pass


_CMP = {ast.Eq: lambda a, b: a == b, ast.NotEq: lambda a, b: a != b, ast.Lt: lambda a, b: a < b, ast.LtE: lambda a, b: a <= b,
        ast.Gt: lambda a, b: a > b, ast.GtE: lambda a, b: a >= b, ast.Is: lambda a, b: a is b, ast.IsNot: lambda a, b: a is not b,
        ast.In: lambda a, b: a in b, ast.NotIn: lambda a, b: a not in b}
_MIRROR = {ast.Eq: ast.Eq, ast.NotEq: ast.NotEq, ast.Lt: ast.Gt, ast.Gt: ast.Lt, ast.LtE: ast.GtE, ast.GtE: ast.LtE}
_FORKS = "$forks"


def _lit(e):
    try:
        return const_eval(e)
    except (NotConst, TypeError, ValueError, KeyError):
        return _NOCONST


class _SymExec:
    def __init__(self, decide=None, rewrite=None, limit=48):
        self.decide = decide or (lambda e: None)
        self.rewrite = rewrite
        self.limit = limit

    # ---- expressions
    def truth(self, t):
        if isinstance(t, ast.Constant):
            return bool(t.value)
        if isinstance(t, (ast.Tuple, ast.List)) and not any(isinstance(x, ast.Starred) for x in t.elts):
            return bool(t.elts)
        if isinstance(t, ast.UnaryOp) and isinstance(t.op, ast.Not):
            v = self.truth(t.operand)
            return None if v is None else (not v)
        if isinstance(t, ast.BoolOp):
            vals = [self.truth(v) for v in t.values]
            if isinstance(t.op, ast.And):
                return False if any(v is False for v in vals) else True if all(v is True for v in vals) else None
            return True if any(v is True for v in vals) else False if all(v is False for v in vals) else None
        if isinstance(t, ast.Call) and dotted(t.func) == "bool" and len(t.args) == 1 and not t.keywords:
            return self.truth(t.args[0])
        if isinstance(t, ast.Compare) and len(t.ops) == 1 and type(t.ops[0]) in _CMP:
            a, b = _lit(t.left), _lit(t.comparators[0])
            if a is not _NOCONST and b is not _NOCONST:
                try:
                    return bool(_CMP[type(t.ops[0])](a, b))
                except TypeError:
                    return None
        return self.decide(t)

    def ev(self, e, env):
        if e is None:
            return ast.Constant(value=None)
        return self.simp(e, env, frozenset())

    def simp(self, e, env, shadow):
        if isinstance(e, ast.Name):
            if isinstance(e.ctx, ast.Load) and e.id in env and e.id not in shadow:
                return copy.deepcopy(env[e.id])
            return e
        if isinstance(e, ast.Attribute):
            d = dotted(e)
            if d is not None and d in env and d.split(".")[0] not in shadow:
                return copy.deepcopy(env[d])
        if isinstance(e, (ast.Lambda, ast.Constant)):
            return e
        if isinstance(e, ast.NamedExpr):
            v = self.simp(e.value, env, shadow)
            env[e.target.id] = v
            return v
        if isinstance(e, ast.IfExp):
            t = self.simp(e.test, env, shadow)
            tv = self.truth(t)
            if tv is not None:
                return self.simp(e.body if tv else e.orelse, env, shadow)
            return ast.IfExp(test=t, body=self.simp(e.body, dict(env), shadow), orelse=self.simp(e.orelse, dict(env), shadow))
        if isinstance(e, ast.BoolOp):
            vals = []
            for i, x in enumerate(e.values):
                sx = self.simp(x, env if not vals else dict(env), shadow)
                tv = self.truth(sx)
                last = i == len(e.values) - 1
                short = tv is True if isinstance(e.op, ast.Or) else tv is False
                if short:
                    vals.append(sx)
                    break
                if tv is None or last:
                    vals.append(sx)
            return vals[0] if len(vals) == 1 else ast.BoolOp(op=e.op, values=vals)
        if isinstance(e, (ast.GeneratorExp, ast.ListComp, ast.SetComp, ast.DictComp)):
            x = self._expand(e, env, shadow)
            if x is not None:
                return x
            names = frozenset(n.id for g in e.generators for n in ast.walk(g.target) if isinstance(n, ast.Name))
            new = copy.copy(e)
            sh = shadow
            gens = []
            for g in e.generators:
                g2 = copy.copy(g)
                g2.iter = self.simp(g.iter, env, sh)
                sh = sh | names
                g2.ifs = [self.simp(c, env, sh) for c in g.ifs]
                gens.append(g2)
            new.generators = gens
            for fld in ("elt", "key", "value"):
                if hasattr(e, fld):
                    setattr(new, fld, self.simp(getattr(e, fld), env, sh))
            return new
        new = copy.copy(e)
        for fld, val in ast.iter_fields(e):
            if isinstance(val, ast.expr):
                setattr(new, fld, self.simp(val, env, shadow))
            elif isinstance(val, list):
                items = []
                for x in val:
                    if isinstance(x, ast.expr):
                        items.append(self.simp(x, env, shadow))
                    elif isinstance(x, ast.keyword):
                        items.append(ast.keyword(arg=x.arg, value=self.simp(x.value, env, shadow)))
                    else:
                        items.append(x)
                setattr(new, fld, items)
        return self._post(new)

    def _expand(self, e, env, shadow):
        """A list comprehension / generator over a literal sequence -> the display of its elements."""
        if isinstance(e, ast.DictComp) or len(e.generators) != 1:
            return None
        g = e.generators[0]
        if g.is_async or not isinstance(g.target, ast.Name):
            return None
        it = self.simp(g.iter, env, shadow)
        if not isinstance(it, (ast.Tuple, ast.List)) or any(isinstance(x, ast.Starred) for x in it.elts):
            return None
        elts = []
        for x in it.elts:
            en = dict(env)
            en[g.target.id] = x
            keep = True
            for c in g.ifs:
                tv = self.truth(self.simp(c, en, shadow - {g.target.id}))
                if tv is None:
                    return None
                keep = keep and tv
            if keep:
                elts.append(self.simp(e.elt, en, shadow - {g.target.id}))
        return ast.List(elts=elts, ctx=ast.Load()) if isinstance(e, ast.ListComp) else ast.Tuple(elts=elts, ctx=ast.Load())

    def _post(self, e):
        if isinstance(e, ast.Call) and dotted(e.func) in ("tuple", "list") and len(e.args) == 1 and not e.keywords and isinstance(e.args[0], (ast.Tuple, ast.List)):
            return (ast.Tuple if dotted(e.func) == "tuple" else ast.List)(elts=list(e.args[0].elts), ctx=ast.Load())
        if isinstance(e, ast.Subscript) and isinstance(e.value, (ast.Tuple, ast.List)) and isinstance(e.slice, ast.Constant) and type(e.slice.value) is int \
                and not any(isinstance(x, ast.Starred) for x in e.value.elts) and -len(e.value.elts) <= e.slice.value < len(e.value.elts):
            return e.value.elts[e.slice.value]
        if isinstance(e, ast.Call) and dotted(e.func) == "int" and len(e.args) == 1 and not e.keywords and isinstance(e.args[0], ast.Constant) and type(e.args[0].value) is int:
            return e.args[0]
        if self.rewrite is not None:
            r = self.rewrite(e)
            if r is not None:
                return r
        return e

    # ---- statements
    def bind(self, target, value, env):
        if isinstance(target, ast.Name):
            env[target.id] = value
        elif isinstance(target, ast.Attribute):
            d = dotted(target)
            if d is not None:
                env[d] = value
        elif isinstance(target, (ast.Tuple, ast.List)):
            if any(isinstance(x, ast.Starred) for x in target.elts):
                raise _Unsupported("starred unpacking")
            if isinstance(value, (ast.Tuple, ast.List)) and len(value.elts) == len(target.elts) and not any(isinstance(x, ast.Starred) for x in value.elts):
                for t, x in zip(target.elts, value.elts):
                    self.bind(t, x, env)
            else:
                for i, t in enumerate(target.elts):
                    self.bind(t, ast.Subscript(value=value, slice=ast.Constant(value=i), ctx=ast.Load()), env)
        elif isinstance(target, ast.Subscript):
            d = dotted(target.value)
            if d is not None:
                env.pop(d, None)

    def run(self, body, env=None):
        """[(signal, value, env)] with signal in return/raise/next (fell off the end)."""
        return self._block(body, dict(env or {}))

    def _block(self, body, env):
        states, out = [env], []
        for st in body:
            nxt = []
            for en in states:
                for sig, val, e2 in self._stmt(st, en):
                    if sig == "next":
                        nxt.append(e2)
                    else:
                        out.append((sig, val, e2))
            states = nxt
            if len(states) + len(out) > self.limit:
                raise _Unsupported("too many paths")
        return out + [("next", None, en) for en in states]

    def _stmt(self, st, env):
        if isinstance(st, ast.Assign):
            v = self.ev(st.value, env)
            for t in st.targets:
                self.bind(t, v, env)
            return [("next", None, env)]
        if isinstance(st, ast.AnnAssign):
            if st.value is not None:
                self.bind(st.target, self.ev(st.value, env), env)
            return [("next", None, env)]
        if isinstance(st, ast.AugAssign):
            cur = self.ev(ast.Name(id=st.target.id, ctx=ast.Load()) if isinstance(st.target, ast.Name) else copy.deepcopy(st.target), env)
            self.bind(st.target, self._post(ast.BinOp(left=cur, op=st.op, right=self.ev(st.value, env))), env)
            return [("next", None, env)]
        if isinstance(st, ast.Expr):
            c = st.value
            if isinstance(c, ast.Call) and isinstance(c.func, ast.Attribute) and isinstance(c.func.value, ast.Name) and c.func.value.id in env:
                # a method call on a tracked local may change it in place: list displays are updated, anything else is forgotten
                x, cur = c.func.value.id, env[c.func.value.id]
                args = [self.ev(a, env) for a in c.args]
                if isinstance(cur, ast.List) and c.func.attr == "append" and len(args) == 1 and not c.keywords:
                    env[x] = ast.List(elts=list(cur.elts) + args, ctx=ast.Load())
                elif isinstance(cur, ast.List) and c.func.attr == "extend" and len(args) == 1 and isinstance(args[0], (ast.List, ast.Tuple)) and not c.keywords:
                    env[x] = ast.List(elts=list(cur.elts) + list(args[0].elts), ctx=ast.Load())
                elif isinstance(cur, (ast.List, ast.Dict, ast.Set, ast.ListComp, ast.DictComp, ast.SetComp)) or (isinstance(cur, ast.Call) and dotted(cur.func) in ("list", "dict", "set", "bytearray")):
                    env[x] = ast.Call(func=_nm("changed_in_place"), args=[cur], keywords=[])
                return [("next", None, env)]
            self.ev(c, env)
            return [("next", None, env)]
        if isinstance(st, (ast.Pass, ast.Assert, ast.Import, ast.ImportFrom, ast.Global, ast.Nonlocal)):
            return [("next", None, env)]
        if isinstance(st, ast.Return):
            return [("return", self.ev(st.value, env), env)]
        if isinstance(st, ast.Raise):
            return [("raise", None, env)]
        if isinstance(st, ast.Break):
            return [("break", None, env)]
        if isinstance(st, ast.Continue):
            return [("continue", None, env)]
        if isinstance(st, ast.If):
            t = self.ev(st.test, env)
            tv = self.truth(t)
            if tv is True:
                return self._block(st.body, env)
            if tv is False:
                return self._block(st.orelse, env)
            e1, e2 = dict(env), dict(env)
            e1[_FORKS] = e2[_FORKS] = env.get(_FORKS, ()) + (_u(t),)
            return self._block(st.body, e1) + self._block(st.orelse, e2)
        if isinstance(st, ast.With):
            for it in st.items:
                v = self.ev(it.context_expr, env)
                if it.optional_vars is not None:
                    self.bind(it.optional_vars, v, env)
            return self._block(st.body, env)
        if isinstance(st, ast.For):
            it = self.ev(st.iter, env)
            if not isinstance(it, (ast.Tuple, ast.List)) or any(isinstance(x, ast.Starred) for x in it.elts):
                raise _Unsupported("loop over " + _u(it)[:60])
            states, out, done = [env], [], []
            for x in it.elts:
                nxt = []
                for en in states:
                    en = dict(en)
                    self.bind(st.target, x, en)
                    for sig, val, e2 in self._block(st.body, en):
                        if sig in ("next", "continue"):
                            nxt.append(e2)
                        elif sig == "break":
                            done.append(e2)
                        else:
                            out.append((sig, val, e2))
                states = nxt
                if len(states) + len(out) + len(done) > self.limit:
                    raise _Unsupported("too many paths")
            for en in states:
                out.extend(self._block(st.orelse, en))
            return out + [("next", None, en) for en in done]
        raise _Unsupported(type(st).__name__ + " statement")


def _uncertain(env, pattern):
    """The path forked on a test that does not mention the scenario's inputs: it may be infeasible."""
    return any(not re.search(pattern, t) for t in env.get(_FORKS, ()))


def _norm_text(expr_src):
    return _u(ast.parse(expr_src, mode="eval").body)


# ============================================================================ R5: version deduction
_TABLE_OF = {"from_pe_export_stamp": "PE_EXPORT_STAMP_TO_VERSION", "from_max_setting_enum": "MAX_ENUM_TO_VERSION"}


def r5(ctx):
    _r5_precedence(ctx)
    _r5_lookups(ctx)
    _r5_regex(ctx)
    _r5_init(ctx)


def _version_table(ctx, f, e):
    """"PE" / "MAX" when the expression denotes one of the two version tables of version.py (imported by name, under an
    alias, or reached through the module), else None."""
    d = dotted(e)
    if d is None or d.split(".")[0] in params(f.node) or assignments_to(f.node, d.split(".")[0]):
        return None
    names = {"PE_EXPORT_STAMP_TO_VERSION": "PE", "MAX_ENUM_TO_VERSION": "MAX"}
    try:
        sym = ctx.rs.lookup_dotted(f.module.name, d)
    except Exception:
        sym = None
    if sym is not None and sym.kind == "const" and sym.module == "version" and sym.name in names:
        return names[sym.name]
    if sym is None or sym.kind in ("const", "external"):
        return names.get(d.split(".")[-1])
    return None


_TABLE_TEXT = {"PE": "PE_EXPORT_STAMP_TO_VERSION", "MAX": "MAX_ENUM_TO_VERSION"}
_FALSY = (None, "", 0, False)
_HIT = type("_Hit", (), {"__repr__": lambda self: "<the entry>"})()  # "default" of a chain that ends in a lookup known to hit


def _table_keys(ctx, which):
    node = ctx.repo.const(f"version.{_TABLE_TEXT[which]}")
    if not isinstance(node, ast.Dict) or any(k is None for k in node.keys):
        return None
    env = module_env(ctx.repo.module("version"))
    ks = [_c(k, env) for k in node.keys]
    return None if any(k is None for k in ks) else set(ks)


class _LookupCase:
    """One case of the analysis of BeaconConfig.version: which lookups are known to hit / to miss.  `facts` maps (table,
    text of the key) to True (the key is in the table) / False (it is not) - the abstract outcomes of the code's own
    lookup (device 5); a lookup with a *constant* key is decided against the constant keys of the table (device 6); every
    other lookup stays unknown.  `rewrite`/`decide` are the callbacks of the path walk: `T.get(k[, d])` becomes the
    symbolic entry `T[k]` on a hit and `d` / None on a miss, `k in T` a constant; an entry `T[k]` is a non-empty string that
    is not 'Unknown' (lemma L9)."""

    def __init__(self, ctx, f, facts):
        self.ctx, self.f, self.facts = ctx, f, facts
        self.undecidable = False

    def status(self, which, key):
        if isinstance(key, ast.Constant):
            ks = _table_keys(self.ctx, which)
            if ks is None:
                self.undecidable = True
                return None
            try:
                return key.value in ks
            except TypeError:
                return None
        return self.facts.get((which, _u(key)))

    def lookup(self, e):
        """(table, key, default | None) for `T.get(k[, d])` on one of the version tables"""
        if isinstance(e, ast.Call) and isinstance(e.func, ast.Attribute) and e.func.attr == "get" and not e.keywords and 1 <= len(e.args) <= 2 \
                and not any(isinstance(a, ast.Starred) for a in e.args):
            which = _version_table(self.ctx, self.f, e.func.value)
            if which is not None:
                return which, e.args[0], (e.args[1] if len(e.args) == 2 else None)
        return None

    def entry(self, e):
        """(table, key) for the symbolic entry `T[k]`"""
        if isinstance(e, ast.Subscript) and not isinstance(e.slice, ast.Slice):
            which = _version_table(self.ctx, self.f, e.value)
            if which is not None:
                return which, e.slice
        return None

    def rewrite(self, e):
        lk = self.lookup(e)
        if lk is not None:
            st = self.status(lk[0], lk[1])
            if st is True:
                return ast.Subscript(value=e.func.value, slice=lk[1], ctx=ast.Load())
            if st is False:
                return lk[2] if lk[2] is not None else ast.Constant(value=None)
            return None
        if isinstance(e, ast.Compare) and len(e.ops) == 1 and isinstance(e.ops[0], (ast.In, ast.NotIn)):
            which = _version_table(self.ctx, self.f, e.comparators[0])
            if which is None and isinstance(e.comparators[0], ast.Call) and isinstance(e.comparators[0].func, ast.Attribute) and e.comparators[0].func.attr == "keys" and not e.comparators[0].args:
                which = _version_table(self.ctx, self.f, e.comparators[0].func.value)
            if which is not None:
                st = self.status(which, e.left)
                if st is not None:
                    return ast.Constant(value=st if isinstance(e.ops[0], ast.In) else not st)
        return None

    def decide(self, t):
        if self.entry(t) is not None:
            return True  # L9: a table entry is a non-empty string
        if isinstance(t, ast.Compare) and len(t.ops) == 1 and type(t.ops[0]) in (ast.Is, ast.IsNot, ast.Eq, ast.NotEq):
            l, r = t.left, t.comparators[0]
            if self.entry(r) is not None:
                l, r = r, l
            if is_none(l):
                l, r = r, l
            if is_none(r) and isinstance(l, ast.Call) and _version_chain(self, l) is not None:
                return type(t.ops[0]) in (ast.IsNot, ast.NotEq)  # a BeaconVersion object (lookup / constructor call) is not None
            if self.entry(l) is not None and isinstance(r, ast.Constant):
                c = r.value
                if c is None or (isinstance(c, str) and not VERSION_RE.match(c)) or (not isinstance(c, str) and type(t.ops[0]) in (ast.Eq, ast.NotEq)):
                    return type(t.ops[0]) in (ast.IsNot, ast.NotEq)  # L9: an entry has the table format, a constant that has not differs
        return None


def _version_chain(case, term, level="obj"):
    """The *source chain* of a version term in a case: ([(table, key expression)], default) meaning "the entry of the first
    table that contains its key, else the default" (default _HIT: the last lookup is known to hit).  Recognised forms -
    BeaconVersion-valued (level obj): a call of one of the two lookup classmethods (their contract `T.get(key, 'Unknown')`
    is the obligation `..get(<argument>, 'Unknown')`), the class called on a string term; string-valued: a constant, an
    entry `T[k]` known to exist, `T.get(k)`, `T.get(k, d)` with d a string term, `a or b` over string terms (lemma L9:
    table entries are non-empty strings, so `T.get(k) or d` is `T.get(k, d)`, and nothing after a truthy constant default
    is reached).  None: some other form."""
    ctx, f = case.ctx, case.f
    if level == "obj":
        if not isinstance(term, ast.Call):
            return None
        cal = ctx.rs.resolve_call(f, term)
        if cal.kind == "func" and cal.func is not None and cal.fq in ("version.BeaconVersion.from_pe_export_stamp", "version.BeaconVersion.from_max_setting_enum"):
            arg = next(iter(bind_args(term, cal.func.node, skip_self=True).values()), None)
            if arg is None:
                return None
            which = "PE" if cal.fq.endswith("from_pe_export_stamp") else "MAX"
            st = case.status(which, arg)
            return ([(which, arg)], _HIT) if st is True else ([], "Unknown") if st is False else ([(which, arg)], "Unknown")
        if cal.kind == "class" and cal.fq == "version.BeaconVersion" and len(term.args) == 1 and not term.keywords and not isinstance(term.args[0], ast.Starred):
            return _version_chain(case, term.args[0], "str")
        return None
    if isinstance(term, ast.Constant):
        return [], term.value
    en = case.entry(term)
    if en is not None:
        return ([en], _HIT) if case.status(*en) is True else None  # an unguarded `T[k]` raises on a miss: not modelled
    lk = case.lookup(term)
    if lk is not None:  # neither hit nor miss is known in this case (else the walk has rewritten it)
        if lk[2] is None:
            return [(lk[0], lk[1])], None
        rest = _version_chain(case, lk[2], "str")
        return None if rest is None else ([(lk[0], lk[1])] + rest[0], rest[1])
    if isinstance(term, ast.BoolOp) and isinstance(term.op, ast.Or):
        lookups, default = [], None
        for x in term.values:
            c = _version_chain(case, x, "str")
            if c is None:
                return None
            lookups, default = lookups + c[0], c[1]
            if not any(default is z or (type(default) is type(z) and default == z) for z in _FALSY):
                break  # a truthy default: what follows is never reached
        return lookups, default
    return None


def _chain_text(chain):
    lookups, default = chain
    parts = [f"{_TABLE_TEXT[w]}[{k if isinstance(k, str) else _u(k)}]" for w, k in lookups] + ([] if default is _HIT else [repr(default)])
    return ", else ".join(parts)


def _self_attr(n, selfn):
    return isinstance(n, ast.Attribute) and isinstance(n.value, ast.Name) and n.value.id == selfn


def _self_stores(f):
    """Names of the instance attributes a method assigns (`self.X = ..`, also as part of a tuple target / augmented)."""
    ps = params(f.node)
    if not ps:
        return set()
    return {n.attr for n in ast.walk(f.node) if _self_attr(n, ps[0]) and isinstance(n.ctx, ast.Store)}


def _constructed_values(ctx, f, attrs):
    """{'self.X': constant} for the attributes to which the constructor of the method's class assigns one constant (or
    that are class-level constants and not assigned by the constructor): the state of a freshly constructed object."""
    out = {}
    if not attrs or not f.cls:
        return out
    ps = params(f.node)
    cls_fq = f"{f.module.name}.{f.cls}"
    init = ctx.repo.func(cls_fq + ".__init__") if ctx.repo.has_func(cls_fq + ".__init__") else None
    try:
        cattrs = ctx.repo.class_attrs(cls_fq)
    except Exception:
        cattrs = {}
    for x in attrs:
        vals = []
        if init is not None:
            ips = params(init.node)
            for st in statements(init.node):
                tgts = st.targets if isinstance(st, ast.Assign) else [st.target] if isinstance(st, (ast.AnnAssign, ast.AugAssign)) else []
                for t in tgts:
                    for n in ast.walk(t):
                        if ips and _self_attr(n, ips[0]) and n.attr == x:
                            vals.append(st.value if isinstance(st, (ast.Assign, ast.AnnAssign)) and n is t else None)
        if not vals and x in cattrs:
            vals = [cattrs[x]]
        if len(vals) == 1 and isinstance(vals[0], ast.Constant):
            out[f"{ps[0]}.{x}"] = vals[0]
    return out


_MEMO_DECORATORS = ("cached_property", "lru_cache", "cache")


def _attr_writers(ctx, cls_fq, names, skip):
    """{attribute: sorted qualified names of the package functions that assign / delete `<object>.attribute`} for objects
    that are, or may be, instances of the class (who-may-write; an object whose static class is known to be another one
    is left out); functions in `skip` are not looked at, nor are the constructor's assignments to its own `self`."""
    out = {}
    seen = set()
    for g in ctx.repo.all_funcs():
        if g.fq in skip:
            continue
        own = params(g.node)[0] if g.fq == cls_fq + ".__init__" and params(g.node) else None
        for n in ast.walk(g.node):
            hit = obj = None
            if isinstance(n, ast.Attribute) and isinstance(n.ctx, (ast.Store, ast.Del)) and n.attr in names:
                hit, obj = n.attr, n.value
            elif isinstance(n, ast.Call) and dotted(n.func) in ("setattr", "delattr", "object.__setattr__") and len(n.args) >= 2 and isinstance(n.args[1], ast.Constant) and n.args[1].value in names:
                hit, obj = n.args[1].value, n.args[0]
            if hit is None or id(n) in seen:
                continue
            seen.add(id(n))
            if own is not None and isinstance(obj, ast.Name) and obj.id == own:
                continue
            t = ctx.rs.expr_type(g, obj)
            if t is not None and t not in (cls_fq, "type:" + cls_fq):
                continue
            out.setdefault(hit, set()).add(g.fq)
    return {k: sorted(v) for k, v in out.items()}


def _r5_freshness(ctx, f, memo, env0):
    """The deduced version is a function of the export stamp / highest setting index the object holds *when it is asked*.
    A result stored on the instance (an attribute the property assigns, or a memoising decorator) and handed out again
    without recomputation is only that if nothing it was computed from can change in between: every instance attribute
    the stored term or its path condition reads must not be assigned after construction (who-may-write over the package),
    or the store must be reset when it is."""
    text = "version follows the current export stamp"
    ps = params(f.node)
    if not ps or not f.cls:
        ctx.undecided("R5", "ALIAS", f, text, "the property is not a method of a class")
        return
    selfn, cls_fq = ps[0], f"{f.module.name}.{f.cls}"
    decos = [dotted(d.func if isinstance(d, ast.Call) else d) or "?" for d in f.node.decorator_list]
    by_deco = [d for d in decos if d.split(".")[-1] in _MEMO_DECORATORS]
    if not memo and not by_deco:
        ctx.ob("R5", "ALIAS", f, text, True, "the property assigns no instance attribute and carries no memoising decorator: the version is computed from the current attributes at every access")
        return

    def attrs_of(term, forks=()):
        out = {n.attr for n in ast.walk(term) if _self_attr(n, selfn)} if term is not None else set()
        for t in forks:
            out |= set(re.findall(r"\b%s\.(\w+)" % re.escape(selfn), t))
        return out

    def later(t):  # abstract case "a result is stored": the stored attribute is not None
        if isinstance(t, ast.Compare) and len(t.ops) == 1 and type(t.ops[0]) in (ast.Is, ast.IsNot, ast.Eq, ast.NotEq):
            l, r = t.left, t.comparators[0]
            if is_none(l):
                l, r = r, l
            if is_none(r) and _self_attr(l, selfn) and l.attr in memo:
                return type(t.ops[0]) in (ast.IsNot, ast.NotEq)
        return None

    try:
        reuse, partial = [], False
        if by_deco:
            reuse = [by_deco[0]]
        else:
            for sig, val, env in _SymExec(later).run(f.node.body):
                if sig == "return" and val is not None and attrs_of(val) & memo:
                    reuse.append("self." + sorted(attrs_of(val) & memo)[0])
                    partial = partial or bool(attrs_of(None, env.get(_FORKS, ())) - memo)
        if not reuse:
            ctx.ob("R5", "ALIAS", f, text, True, f"the property assigns {sorted(memo)} but every access that returns recomputes the value: nothing stored is handed out")
            return
        deps = set()
        for sig, val, env in _SymExec().run(f.node.body, {} if by_deco else env0):
            if sig == "return":
                deps |= attrs_of(val, env.get(_FORKS, ()))
                for x in memo:
                    if f"{selfn}.{x}" in env:
                        deps |= attrs_of(env[f"{selfn}.{x}"])
        deps -= memo
    except _Unsupported as e:
        ctx.undecided("R5", "ALIAS", f, text, f"the property body cannot be evaluated symbolically ({e})")
        return
    how = f"the @{by_deco[0]} decorator stores the first result" if by_deco else f"a later access returns the stored {reuse[0]} without recomputation"
    if partial:
        ctx.undecided("R5", "ALIAS", f, text, f"{how} only under conditions on other attributes: which inputs the reused value still depends on is not decided")
        return
    if memo and _attr_writers(ctx, cls_fq, memo, {f.fq, cls_fq + ".__init__"}):
        ctx.undecided("R5", "ALIAS", f, text, f"{how}, and the store is reset elsewhere in the package: whether every change of {sorted(deps)} is followed by a reset is not decided")
        return
    methods = {m.qualname.split(".")[-1] for m in ctx.repo.methods(cls_fq)}
    plain = {d for d in deps if d not in methods}
    late = _attr_writers(ctx, cls_fq, plain, set())
    if late:
        y = sorted(late)[0]
        ctx.ob("R5", "ALIAS", f, text, False,
               f"{how}, but it was computed from {selfn}.{y}, a plain attribute that is assigned after construction (in {', '.join(late[y][:3])}): once the version has been read it no longer follows {y} "
               f"(a stamp that becomes known later does not decide; the text, tuple and date reported are those of the earlier estimate)")
    else:
        ctx.undecided("R5", "ALIAS", f, text, f"{how}; it depends on {sorted(deps)}, none of which is assigned after construction inside the package - whether clients may change them is not decided")


def _r5_precedence(ctx):
    f = ctx.repo.func("beacon.BeaconConfig.version")
    text = "version precedence"
    STAMP, ENUM = "self.pe_export_stamp", "self.max_setting_enum"

    # case analysis over the abstract outcomes of the truth test of an Optional[int] (lemma L2): the export stamp is None
    # (no export directory), 0, or a non-zero unsigned timestamp (kept symbolic; lemma L3); and, per case, over the
    # outcome of the lookup that has to decide: the key is / is not in the table
    def scenario(s, case):
        def rewrite(e):
            if s != "set" and isinstance(e, ast.Attribute) and _u(e) == STAMP:
                return ast.Constant(value=None if s == "none" else 0)
            return case.rewrite(e)

        def decide(t):
            d = case.decide(t)
            if d is not None or s != "set":
                return d
            if _u(t) == STAMP:
                return True
            if isinstance(t, ast.Compare) and len(t.ops) == 1:
                l, op, r = t.left, type(t.ops[0]), t.comparators[0]
                if _u(r) == STAMP and op in _MIRROR:
                    l, op, r = r, _MIRROR[op], l
                if _u(l) == STAMP:
                    if is_none(r) and op in (ast.Is, ast.IsNot, ast.Eq, ast.NotEq):
                        return op in (ast.IsNot, ast.NotEq)
                    if _lit(r) == 0 and type(_lit(r)) is int:  # a non-zero unsigned timestamp
                        return {ast.Eq: False, ast.NotEq: True, ast.Gt: True, ast.GtE: True, ast.Lt: False, ast.LtE: False}.get(op)
            return None
        return rewrite, decide

    # the deduced version as a source chain: with an export stamp the table entry for it and 'Unknown' when the table has
    # none - never an estimate from the setting index; without a stamp the entry for the highest setting index, else 'Unknown'
    label = {"set": "export stamp present", "none": "no export stamp", "zero": "export stamp 0"}
    bad, seen = [], set()
    # instance attributes the property itself assigns (a stored result): the precedence is analysed for the first access,
    # i.e. with the value the constructor gives them; whether a *later* access may reuse the stored result is the separate
    # obligation `version follows the current export stamp`
    memo = _self_stores(f)
    env0 = _constructed_values(ctx, f, memo)
    _r5_freshness(ctx, f, memo, env0)
    try:
        for s in ("set", "none", "zero"):
            which, key = ("PE", STAMP) if s == "set" else ("MAX", ENUM)
            for hit in (True, False):
                case = _LookupCase(ctx, f, {(which, key): hit})
                want = ([(which, key)], _HIT) if hit else ([], "Unknown")
                what = f"{label[s]}, {_TABLE_TEXT[which]} has {'an' if hit else 'no'} entry for {key}"
                rewrite, decide = scenario(s, case)
                outs = _SymExec(decide, rewrite).run(f.node.body, env0)
                for sig, val, env in outs:
                    if sig == "raise":
                        continue
                    chain = _version_chain(case, val) if val is not None else None
                    if case.undecidable:
                        ctx.undecided("R5", "DOM", f, text, "a version table is not a dict display: a lookup with a constant key cannot be decided")
                        return
                    if chain is None:
                        ctx.undecided("R5", "DOM", f, text, f"the returned value {_u(val)[:80] if val is not None else None} is not built from the two BeaconVersion lookups / version tables in a recognised way")
                        return
                    got = ([(w, _u(k)) for w, k in chain[0]], chain[1])
                    seen.add((s, hit))
                    if got != want:
                        bad.append(f"{what}: the version is {_chain_text(chain)} (required {_chain_text(want)})" + (f" (path condition {env[_FORKS]})" if env.get(_FORKS) else ""))
    except _Unsupported as e:
        ctx.undecided("R5", "DOM", f, text, f"the property body cannot be evaluated symbolically ({e})")
        return
    ok = not bad and len(seen) == 6
    ctx.ob("R5", "DOM", f, text, ok, "export stamp decides when present ('Unknown' when the table has no entry for it), otherwise the highest setting index" if ok else "; ".join(sorted(bad, key=lambda b: "(path condition" in b)[:4]) or f"cases with a returned version: {sorted(seen)}")


def _r5_lookups(ctx):
    tables_ = set(_TABLE_OF.values())
    for meth, table in _TABLE_OF.items():
        g = ctx.repo.func(f"version.BeaconVersion.{meth}")
        ps = params(g.node)
        p = ps[1] if len(ps) > 1 else None
        text = f"{table}.get(<argument>, 'Unknown')"
        try:
            vals = [val for sig, val, _e in _SymExec().run(g.node.body) if sig == "return"]
        except _Unsupported:
            vals = [_Canon(ctx, g).canon(r.value, full=True) for r in ctx.cfg(g).return_stmts() if r.value is not None]
        gets = [c for val in vals for c in ast.walk(val) if isinstance(c, ast.Call) and isinstance(c.func, ast.Attribute) and c.func.attr == "get" and dotted(c.func.value) in tables_]
        if not gets or p is None:
            ctx.undecided("R5", "AGREE", g, text, "no `.get` lookup in one of the version tables flows into the returned value")
            continue
        ok = len(gets) == 1 and dotted(gets[0].func.value) == table and len(gets[0].args) == 2 and not gets[0].keywords \
            and _u(gets[0].args[0]) == p and _c(gets[0].args[1], module_env(g.module)) == "Unknown"
        ctx.ob("R5", "AGREE", g, text, ok, "looks up its own table with default 'Unknown'" if ok else f"lookup is {[_u(c) for c in gets]}")


# ---------------------------------------------------------------------------- the version regex, by its syntax tree
# Tokens of a parsed pattern (sequence context; unnamed / non-capturing groups are transparent):
#   ("lit", text)                  a run of literal characters
#   ("num", name, min, max)        a named group whose sub-pattern is a run of digit-class items (max None = unbounded)
#   ("any", name, min, max)        a named group `.*` / `.+` / `[^)]*` / `[^)]+`
#   ("opt", [tokens])              a greedy `( .. )?`
#   ("at", which)                  an anchor
#   ("?", description)             anything else (not recognised)
_RX_FORMAT = [("lit", "Cobalt Strike "), ("num", "major"), ("lit", "."), ("num", "minor"), ("opt", [("lit", "."), ("num", "patch")]),
              ("lit", " ("), ("any", "date"), ("lit", ")")]
_RX_GROUPS = ["major", "minor", "patch", "date"]


def _rx_unbounded(n):
    return None if n == _sre_c.MAXREPEAT else int(n)


def _rx_is_digit_item(item):
    """The item matches exactly one character, and only a decimal digit: `\d`, `[0-9]`, `[\d]`, `[0-4]`, a digit literal."""
    op, av = item
    if op is _sre_c.LITERAL:
        return 48 <= av <= 57
    if op is _sre_c.IN:
        if not av:
            return False
        for o2, a2 in av:
            if o2 is _sre_c.CATEGORY and a2 is _sre_c.CATEGORY_DIGIT:
                continue
            if o2 is _sre_c.RANGE and 48 <= a2[0] <= a2[1] <= 57:
                continue
            if o2 is _sre_c.LITERAL and 48 <= a2 <= 57:
                continue
            return False  # NEGATE, other categories, other characters
        return True
    return False


def _rx_is_any_item(item):
    """`.` or `[^)]`: any character (but the closing parenthesis)"""
    op, av = item
    if op is _sre_c.ANY:
        return True
    if op is _sre_c.NOT_LITERAL:
        return av == 41
    if op is _sre_c.IN:
        return len(av) == 2 and av[0][0] is _sre_c.NEGATE and av[1] == (_sre_c.LITERAL, 41)
    return False


def _rx_group_body(body):
    """("num"|"any", min, max) for the sub-pattern of a named group, None when it is of no recognised form."""
    items = list(body)
    if not items:
        return None
    lo, hi, kinds = 0, 0, set()
    for op, av in items:
        if op is _sre_c.MAX_REPEAT and len(av[2]) == 1 and _rx_is_digit_item(av[2][0]):
            kinds.add("num")
            mn, mx = int(av[0]), _rx_unbounded(av[1])
        elif _rx_is_digit_item((op, av)):
            kinds.add("num")
            mn, mx = 1, 1
        elif op in (_sre_c.MAX_REPEAT, _sre_c.MIN_REPEAT) and len(av[2]) == 1 and _rx_is_any_item(av[2][0]) and len(items) == 1:
            kinds.add("any")
            mn, mx = int(av[0]), _rx_unbounded(av[1])
        else:
            return None
        lo += mn
        hi = None if hi is None or mx is None else hi + mx
    if len(kinds) != 1:
        return None
    return kinds.pop(), lo, hi


def _rx_tokens(sub, names):
    out = []

    def push(tok):
        if tok[0] == "lit" and out and out[-1][0] == "lit":
            out[-1] = ("lit", out[-1][1] + tok[1])
        else:
            out.append(tok)

    for op, av in sub:
        if op is _sre_c.LITERAL:
            push(("lit", chr(av)))
        elif op is _sre_c.AT:
            push(("at", str(av)))
        elif op is _sre_c.SUBPATTERN:
            group, add_flags, del_flags, body = av
            name = names.get(group)
            if add_flags or del_flags:
                push(("?", "a group with inline flags"))
            elif name is None:
                for t in _rx_tokens(body, names):
                    push(t)
            else:
                kind = _rx_group_body(body)
                push((kind[0], name, kind[1], kind[2]) if kind else ("?", f"named group <{name}> with a sub-pattern that is neither a run of digits nor `.*`/`[^)]*`"))
        elif op is _sre_c.MAX_REPEAT and int(av[0]) == 0 and _rx_unbounded(av[1]) == 1:
            push(("opt", _rx_tokens(av[2], names)))
        else:
            push(("?", str(op).lower()))
    return out


def _rx_walk(toks, depth=0):
    for t in toks:
        yield t, depth
        if t[0] == "opt":
            yield from _rx_walk(t[1], depth + 1)


def _rx_shape(toks):
    return [(t[0], _rx_shape(t[1])) if t[0] == "opt" else (t[0], t[1]) if t[0] in ("num", "any") else (t[0],) for t in toks]


def _rx_lits(toks):
    return [x for t in toks for x in (_rx_lits(t[1]) if t[0] == "opt" else [t[1]] if t[0] == "lit" else [])]


def _table_components(ctx):
    """Widths of the version components that occur in the two tables: {"major": (min, max), ..}; the date texts' widths
    under "date"; whether a release without / with a patch component occurs.  The rows are parsed with the checker's own
    format parser (R4 reports the rows that do not have the format)."""
    env = module_env(ctx.repo.module("version"))
    widths = {}
    arity = set()
    for name in _TABLE_OF.values():
        node = ctx.repo.const(f"version.{name}")
        if not isinstance(node, ast.Dict):
            continue
        for v in node.values:
            vv = _c(v, env)
            m = VERSION_RE.match(vv) if isinstance(vv, str) else None
            if not m:
                continue
            parts = {"major": m.group(1), "minor": m.group(2), "patch": m.group(3), "date": f"{m.group(4)} {m.group(5)}, {m.group(6)}"}
            arity.add(2 if parts["patch"] is None else 3)
            for k, x in parts.items():
                if x is not None:
                    lo, hi = widths.get(k, (len(x), len(x)))
                    widths[k] = (min(lo, len(x)), max(hi, len(x)))
    return widths, arity


def _regex_facts(ctx):
    """Syntax-tree facts of BeaconVersion.REGEX_VERSION: dict(status, why, names, tokens)."""
    cache = ctx.__dict__.setdefault("_c18_regex", {})
    node = ctx.repo.class_attrs("version.BeaconVersion").get("REGEX_VERSION")
    if cache.get("node") is node and node is not None:
        return cache["facts"]
    rx = _c(node, module_env(ctx.repo.module("version")))
    facts = {"status": "ok", "why": "", "names": [], "tokens": None, "text": rx}
    if not isinstance(rx, str):
        facts.update(status="undecided", why="REGEX_VERSION is not a constant string of the class body")
    else:
        try:
            tree = _sre_parse.parse(rx, 0)
            names = {idx: nm for nm, idx in tree.state.groupdict.items()}
            facts["names"] = [names[i] for i in sorted(names)]
            facts["tokens"] = _rx_tokens(tree, names)
        except (re.error, RecursionError, OverflowError) as e:
            facts.update(status="invalid", why=f"the pattern does not parse: {e}")
    cache["node"], cache["facts"] = node, facts
    return facts


def _r5_regex(ctx):
    where = "version.py::BeaconVersion.REGEX_VERSION"
    fx = _regex_facts(ctx)
    if fx["status"] == "undecided":
        ctx.undecided("R5", "TABLE", where, "named groups", fx["why"])
        ctx.undecided("R5", "TABLE", where, "pattern", fx["why"])
        return
    if fx["status"] == "invalid":
        ctx.ob("R5", "TABLE", where, "named groups", False, fx["why"])
        ctx.ob("R5", "TABLE", where, "pattern", False, fx["why"])
        return
    # the four groups exist and are numbered in the order of the text they capture (other named groups may exist)
    groups = [g for g in fx["names"] if g in _RX_GROUPS]
    ctx.ob("R5", "TABLE", where, "named groups", groups == _RX_GROUPS, f"named groups in the order of their group numbers: {fx['names']} (required {_RX_GROUPS})")
    toks = list(fx["tokens"])
    # anchors at the two ends do not change what `match` captures for a text of the table format
    while toks and toks[0][0] == "at" and toks[0][1] in ("AT_BEGINNING", "AT_BEGINNING_STRING"):
        toks.pop(0)
    while toks and toks[-1][0] == "at" and toks[-1][1] in ("AT_END", "AT_END_STRING"):
        toks.pop()
    text = "pattern"
    located = {t[1]: (t, d) for t, d in _rx_walk(toks) if t[0] in ("num", "any")}
    widths, arity = _table_components(ctx)
    # located and wrong, whatever the rest of the pattern looks like: a patch group outside every `( .. )?` takes part in
    # every match, so the two-component releases of the tables cannot match
    pt = located.get("patch")
    if pt is not None and pt[1] == 0 and pt[0][0] == "num" and pt[0][2] >= 1 and 2 in arity and all(t[0] != "?" for t in toks):
        ctx.ob("R5", "TABLE", where, text, False, "the <patch> group (at least one digit) is not inside an optional `( .. )?` sub-pattern: it takes part in every match, so a release 'M.m (date)' of the tables either does not match or loses digits of its minor component to the patch group")
        return
    unrec = [t[1] for t, _d in _rx_walk(toks) if t[0] in ("?", "at")]
    if unrec:
        ctx.undecided("R5", "TABLE", where, text, f"the pattern contains constructs outside the recognised forms: {sorted(set(unrec))}")
        return
    if _rx_shape(toks) != _rx_shape(_RX_FORMAT):
        ctx.undecided("R5", "TABLE", where, text, "the sequence of literals, groups and optional parts is not of the form 'Cobalt Strike <major>.<minor>[.<patch>] (<date>)': " + repr(_rx_shape(toks))[:200])
        return
    # same shape: every literal of the pattern is mandatory text, so it has to be the literal of the table format
    got, want = _rx_lits(toks), _rx_lits(_RX_FORMAT)
    if got != want:
        ctx.ob("R5", "TABLE", where, text, False, f"literal text of the pattern {got} differs from the format of the table values {want}: no table value can match")
        return
    # repeat bounds against the component widths that occur in the tables
    bad, open_ = [], []
    for name in _RX_GROUPS:
        _k, _n, lo, hi = located[name][0]
        w = widths.get(name)
        if w is None:
            continue
        if hi is not None and hi < w[1]:
            bad.append(f"<{name}> matches at most {hi} characters, the tables contain a {name} component of {w[1]}")
        if lo > w[0]:
            bad.append(f"<{name}> needs at least {lo} characters, the tables contain a {name} component of {w[0]}")
        if lo == 0 and name != "date":
            open_.append(f"<{name}> may be empty")
    if bad:
        ctx.ob("R5", "TABLE", where, text, False, "; ".join(bad))
    elif open_:
        ctx.undecided("R5", "TABLE", where, text, "; ".join(open_) + ": int('') is outside the table format, the lemma 'a group that took part is non-empty' does not apply")
    else:
        ctx.ob("R5", "TABLE", where, text, True, "syntax tree: 'Cobalt Strike ' <major: digits>+ '.' <minor: digits>+ ( '.' <patch: digits>+ )? ' (' <date: any> ')' - the version regex separates major/minor/optional patch/date")


def _match_rewrite(e):
    """re.match(..) -> M ; M['k'] / M.groupdict()['k'] -> M.group('k')"""
    if isinstance(e, ast.Call):
        d = dotted(e.func) or ""
        if d in ("re.match", "re.fullmatch", "re.search") or (isinstance(e.func, ast.Attribute) and e.func.attr in ("match", "fullmatch", "search") and not d.startswith("M.")):
            return _nm("M")
    if isinstance(e, ast.Subscript) and isinstance(e.slice, ast.Constant) and isinstance(e.slice.value, str):
        if _u(e.value) in ("M", "M.groupdict()"):
            return ast.Call(func=ast.Attribute(value=_nm("M"), attr="group", ctx=ast.Load()), args=[e.slice], keywords=[])
    return None


def _r5_init(ctx):
    init = ctx.repo.func("version.BeaconVersion.__init__")
    text = "tuple/date from the named groups"
    PATCH = _norm_text("M.group('patch')")
    # lemma L4 needs the syntax-tree fact "the <patch> group is a run of at least one digit" (obligation `pattern`)
    pt = next((t for t, _d in _rx_walk(_regex_facts(ctx).get("tokens") or []) if t[0] == "num" and t[1] == "patch"), None)
    l4 = "" if pt is not None and pt[2] >= 1 else " (assuming that a <patch> group that took part in the match is non-empty: not established from the pattern)"

    def scenario(present):
        def rewrite(e):
            r = _match_rewrite(e)
            if not present and _u(r if r is not None else e) == PATCH:
                return ast.Constant(value=None)  # the optional group did not take part in the match
            return r

        def decide(t):
            x = _u(t)
            if x == "M":
                return True
            if x == PATCH:  # case "took part": a non-empty string of digits (lemma L4)
                return True
            if isinstance(t, ast.Compare) and len(t.ops) == 1 and type(t.ops[0]) in (ast.Is, ast.IsNot, ast.Eq, ast.NotEq):
                l, r = _u(t.left), t.comparators[0]
                if l in ("M", PATCH) and (is_none(r) or (l == PATCH and _lit(r) == "")):
                    return type(t.ops[0]) in (ast.IsNot, ast.NotEq)
            return None
        return rewrite, decide

    g = lambda k: f"int(M.group('{k}'))"
    want = {True: _norm_text(f"({g('major')}, {g('minor')}, {g('patch')})"), False: _norm_text(f"({g('major')}, {g('minor')})")}
    bad, checked, dates = [], 0, []
    try:
        for present in (True, False):
            rewrite, decide = scenario(present)
            for sig, _val, env in _SymExec(decide, rewrite).run(init.node.body):
                if sig == "raise" or _uncertain(env, r"\bM\b"):
                    continue
                tup = env.get("self.tuple")
                if tup is None or not any(isinstance(n, ast.Name) and n.id == "M" for n in ast.walk(tup)):
                    ctx.undecided("R5", "AGREE", init, text, f"self.tuple is not computed from the match groups in the constructor (value: {_u(tup)[:80] if tup is not None else None})")
                    return
                checked += 1
                if _u(tup) != want[present]:
                    bad.append(f"patch group {'present' if present else 'absent'}: self.tuple = {_u(tup)[:160]} (required {want[present]})")
                dates.append(env.get("self.date"))
    except _Unsupported as e:
        ctx.undecided("R5", "AGREE", init, text, f"the constructor cannot be evaluated symbolically ({e})")
        return
    if not checked:
        ctx.undecided("R5", "AGREE", init, text, "no path of the constructor that assigns self.tuple after a successful match is identified")
        return
    dt = True
    for d in dates:
        hit = False
        for n in ast.walk(d) if d is not None else ():
            if isinstance(n, ast.Call) and isinstance(n.func, ast.Attribute) and n.func.attr == "strptime" and len(n.args) == 2 and not n.keywords \
                    and _u(n.args[0]) == _norm_text("M.group('date')") and _c(n.args[1], module_env(init.module)) == "%b %d, %Y":
                hit = True
        dt = dt and hit
    ok = not bad and dt
    ctx.ob("R5", "AGREE", init, text, ok, "3-tuple exactly when the patch group matched, 2-tuple otherwise, elements int() of the named groups; date parsed from the date group with '%b %d, %Y'" + l4
           if ok else "; ".join(bad + ([] if dt else ["self.date is not strptime(<date group>, '%b %d, %Y')"])))


# ============================================================================ R6: prepend / append / magic_mz
def _accumulator(cn, name):
    """`name = E0` followed by unconditional `name += E` in `for x in T` loops: (E0, [(T, x, E)])."""
    fn = cn.fn
    fv = FuncView.of(fn)
    init, parts = [], []
    for st, v in assignments_to(fn, name):
        add = None
        if v is None and isinstance(st, ast.AugAssign) and isinstance(st.op, ast.Add):
            add = st.value
        elif v is not None and isinstance(v, ast.BinOp) and isinstance(v.op, ast.Add) and isinstance(v.left, ast.Name) and v.left.id == name:
            add = v.right
        elif v is not None and isinstance(st, (ast.Assign, ast.AnnAssign)) and not any(isinstance(x, ast.Name) and x.id == name for x in ast.walk(v)):
            init.append(v)
            continue
        if add is None:
            return None
        loop = fv.parent.get(id(st))
        if not (isinstance(loop, ast.For) and isinstance(loop.target, ast.Name) and any(st is b for b in loop.body) and not loop.orelse):
            return None
        if any(isinstance(n, (ast.Break, ast.Continue, ast.Return)) for n in ast.walk(loop)):
            return None
        parts.append((loop.iter, loop.target.id, add))
    if len(init) != 1 or not parts:
        return None
    return init[0], parts


def _whole_table(tab):
    """Is the canonical expression the complete section table: one SECTION parse per iteration, nothing filtered?"""
    return isinstance(tab, (ast.ListComp, ast.GeneratorExp)) and len(tab.generators) == 1 and not tab.generators[0].ifs and _u(tab.elt) == "SECTION"


def _sum_atom(cn, it, var, elt, sums):
    tab = cn.canon(it, full=True)
    ep = cn.poly(elt, extra={var: _nm(_SEC)})
    name = f"SUM[{_u(tab)}]({ep!r})"
    whole = _whole_table(tab)
    if not any(isinstance(n, ast.Name) and n.id == "SECTION" for n in ast.walk(tab)):
        whole = None  # not recognised as (a part of) the parsed section table
    sums[name] = (whole, ep)
    return SymPoly.atom(name)


def _expand_sums(cn, poly):
    """Replace accumulator locals and `sum(.. for x in T)` atoms by SUM atoms; -> (poly, {atom: (over the whole section table, element poly)})."""
    sums, mapping = {}, {}
    for a in poly.atoms():
        if a.isidentifier():
            acc = _accumulator(cn, a)
            if acc is not None:
                p = cn.poly(acc[0])
                for it, var, elt in acc[1]:
                    p = p + _sum_atom(cn, it, var, elt, sums)
                mapping[a] = p
            else:
                defs = assignments_to(cn.fn, a)
                if a not in cn.pars and len(defs) == 1 and defs[0][1] is not None and isinstance(defs[0][0], (ast.Assign, ast.AnnAssign)) \
                        and not any(isinstance(x, ast.Name) and x.id == a for x in ast.walk(defs[0][1])):
                    p = cn.poly(defs[0][1])
                    if p != SymPoly.atom(a):
                        mapping[a] = p
        elif a.startswith("sum("):
            try:
                e = ast.parse(a, mode="eval").body
            except SyntaxError:
                continue
            if isinstance(e, ast.Call) and len(e.args) in (1, 2) and not e.keywords and isinstance(e.args[0], (ast.GeneratorExp, ast.ListComp)) and len(e.args[0].generators) == 1:
                g = e.args[0].generators[0]
                if isinstance(g.target, ast.Name) and not g.ifs:
                    p = _sum_atom(cn, g.iter, g.target.id, e.args[0].elt, sums)
                    if len(e.args) == 2:
                        p = p + _poly(e.args[1])
                    mapping[a] = p
    if not mapping:
        return poly, sums
    p2, s2 = _expand_sums(cn, _sub(poly, mapping))
    sums.update(s2)
    return p2, sums


# ---- the end of the image when the position is computed differently on different paths
_NSEC = "NSEC"  # the number of entries of the section table (FILE.NumberOfSections, the length of the parsed table)


class _CountNorm(ast.NodeTransformer):
    """Names the size of the section table in a canonical test: `len(<whole table>)`, `FILE.NumberOfSections` and the
    whole table itself (a list in a truth test stands for its length, lemma L11) become NSEC."""

    def visit_Call(self, node):
        if dotted(node.func) == "len" and len(node.args) == 1 and not node.keywords and _whole_table(node.args[0]):
            return _nm(_NSEC)
        return self.generic_visit(node)

    def visit_Attribute(self, node):
        if _u(node) == "FILE.NumberOfSections":
            return _nm(_NSEC)
        return self.generic_visit(node)

    def visit_ListComp(self, node):
        return _nm(_NSEC) if _whole_table(node) else node


def _count_guard(cn, facts):
    """What the (test, polarity) facts say about the number of section table entries (lemma L11): "free" - no fact
    mentions the table; "nonempty" - every fact on it is equivalent to NSEC != 0; "empty" - every fact on it is
    equivalent to NSEC == 0; None - some fact on the table / its entries is of no recognised form (a particular count, a
    test on an entry ...) or the facts contradict each other."""
    A = SymPoly.atom(_NSEC)
    seen = set()
    for test, pol0 in facts:
        for leaf, pol in _flatten(test, pol0):
            c = _CountNorm().visit(cn.canon(leaf, full=True))
            if isinstance(c, ast.Call) and dotted(c.func) == "bool" and len(c.args) == 1 and not c.keywords:
                c = c.args[0]
            if not any(isinstance(n, ast.Name) and n.id in (_NSEC, "SECTION", _SEC) for n in ast.walk(c)):
                continue
            if isinstance(c, ast.Name) and c.id == _NSEC:
                seen.add("nonempty" if pol else "empty")
                continue
            if not isinstance(c, ast.Compare):
                return None
            parts = compare_parts(c, mirrored=False)
            if len(parts) != 1:
                return None
            l, op, r = parts[0]
            lp, rp = _poly(l), _poly(r)
            if isinstance(op, (ast.Lt, ast.LtE, ast.Gt, ast.GtE)):
                p = _rel(lp, op, rp, pol)
                if p is not None and (p - A).const_value() == -1:  # NSEC - 1 >= 0
                    seen.add("nonempty")
                elif p is not None and (p + A).const_value() == 0:  # -NSEC >= 0 for an unsigned count
                    seen.add("empty")
                else:
                    return None
            elif isinstance(op, (ast.Eq, ast.NotEq)):
                d = lp - rp
                if (d - A).const_value() == 0 or (d + A).const_value() == 0:  # NSEC == 0 / NSEC != 0
                    seen.add("empty" if isinstance(op, ast.Eq) == pol else "nonempty")
                else:
                    return None
            else:
                return None
    if not seen:
        return "free"
    return seen.pop() if len(seen) == 1 else None


def _split_choice(e, budget=8):
    """The alternatives of a value built from conditional expressions (at the top or under + / -):
    [(value without the choice, [(test, polarity)])]; a single pair when there is no choice."""
    if isinstance(e, ast.IfExp):
        out = [(v, [(e.test, True)] + fs) for v, fs in _split_choice(e.body, budget)] + [(v, [(e.test, False)] + fs) for v, fs in _split_choice(e.orelse, budget)]
        return out if len(out) <= budget else [(e, [])]
    if isinstance(e, ast.BinOp) and isinstance(e.op, (ast.Add, ast.Sub)):
        ls, rs = _split_choice(e.left, budget), _split_choice(e.right, budget)
        if len(ls) * len(rs) > 1 and len(ls) * len(rs) <= budget:
            return [(ast.BinOp(left=l, op=e.op, right=r), lf + rf) for l, lf in ls for r, rf in rs]
    return [(e, [])]


def _loop_last(cn, st):
    """A plain assignment directly in the body of `for x in T` without break/continue/return: the definition that leaves
    the loop is the one computed for the last element, x == T[-1]."""
    loop = FuncView.of(cn.fn).parent.get(id(st))
    if isinstance(loop, ast.For) and isinstance(loop.target, ast.Name) and any(st is b for b in loop.body) and not loop.orelse \
            and not any(isinstance(n, (ast.Break, ast.Continue, ast.Return)) for n in ast.walk(loop)):
        return {loop.target.id: ast.Subscript(value=copy.deepcopy(loop.iter), slice=ast.Constant(value=-1), ctx=ast.Load())}
    return None


def _path_facts(ctx, f, cn, name, st, at):
    """(test, polarity) of every `if` (outside loops) whose one branch edge lies on *all* CFG paths that carry the
    definition `st` of the local to `at` without passing another definition of it (device 2: graph paths) - e.g. the
    false edge of the `if` that guards an overriding definition."""
    cfg = ctx.cfg(f)
    fv = FuncView.of(cn.fn)
    ust = fv.stmt_of(at)
    if ust is None or not cfg.has(ust) or not cfg.has(st):
        return []
    src_n, use = cfg.node(st), cfg.node(ust)
    others = []
    for d, _v in assignments_to(cn.fn, name):
        s = d if isinstance(d, ast.stmt) else fv.stmt_of(d)
        if s is not None and s is not st and cfg.has(s):
            others.append(cfg.edge_node(s, "iter") if isinstance(s, (ast.For, ast.AsyncFor)) else cfg.node(s))
    out = []
    for s in statements(cn.fn):
        if not isinstance(s, ast.If) or not cfg.has(s) or cfg.reaches(cfg.node(s), cfg.node(s)):
            continue
        t, fl = cfg.edge_node(s, "true"), cfg.edge_node(s, "false")
        if t is None or fl is None or src_n in (t, fl) or use in (t, fl):
            continue
        if not cfg.reaches(src_n, use, avoiding=others + [fl]):
            out.append((s.test, False))
        elif not cfg.reaches(src_n, use, avoiding=others + [t]):
            out.append((s.test, True))
    return out


def _local_terms(ctx, f, cn, name, at, depth=0):
    """Path-wise value of a local with several definitions (device 3, reaching definitions): one
    (polynomial, (test, polarity) facts dominating the definitions, [definition statements]) per definition that
    reaches `at`; `name += E` / `name = name + E` outside a loop continues with the definitions that reach it.  None when
    a reaching definition is of another kind (parameter, unpacking, inside a loop it accumulates in ...)."""
    if depth > 4:
        return None
    fn, cfg = cn.fn, ctx.cfg(f)

    def mentions(e):
        return any(isinstance(x, ast.Name) and x.id == name for x in ast.walk(e))

    out = []
    for st, v in reaching_defs(ctx, f, name, at):
        if st is fn or not isinstance(st, (ast.Assign, ast.AnnAssign, ast.AugAssign)) or not cfg.has(st):
            return None
        facts = _dom_facts(ctx, f, st) + _path_facts(ctx, f, cn, name, st, at)
        add = None
        if isinstance(st, ast.AugAssign):
            if not isinstance(st.op, ast.Add) or not isinstance(st.target, ast.Name):
                return None
            add = st.value
        elif v is None:
            return None
        elif isinstance(v, ast.BinOp) and isinstance(v.op, ast.Add) and isinstance(v.left, ast.Name) and v.left.id == name:
            add = v.right
        if add is not None:
            n = cfg.node(st)
            if mentions(add) or cfg.reaches(n, n):
                return None
            prev = _local_terms(ctx, f, cn, name, st, depth + 1)
            if not prev:
                return None
            ap = cn.poly(add)
            out.extend((p + ap, fs + facts, ch + [st]) for p, fs, ch in prev)
        elif mentions(v):
            return None
        else:
            out.append((cn.poly(v, extra=_loop_last(cn, st)), facts, [st]))
    return out if out and len(out) <= 8 else None


def _end_alternatives(ctx, f, cn, pos, at):
    """The append position as one polynomial per way it is computed: a local of the position that has several definitions
    contributes one alternative per reaching definition, a conditional expression one per branch (both with the facts
    under which the alternative is the value).  -> [(poly, sums, facts, local | None, definition chain)]; a single
    alternative without facts when the position is computed in one way."""
    fn = cn.fn
    done, todo, steps = [], [(pos, [], None, [])], 0
    while todo:
        steps += 1
        if steps > 32 or len(todo) + len(done) > 8:
            return None
        p, facts, local, chain = todo.pop()
        p, sums = _expand_sums(cn, p)
        pick = None
        for a in sorted(p.atoms()):
            if a.isidentifier():
                if local is None and a not in cn.pars and a != "MZ" and len(assignments_to(fn, a)) > 1 and _accumulator(cn, a) is None:
                    terms = _local_terms(ctx, f, cn, a, at)
                    if terms is not None:
                        pick = ("local", a, terms)
                        break
            elif not a.startswith("SUM["):
                try:
                    e = ast.parse(a, mode="eval").body
                except SyntaxError:
                    continue
                ch = _split_choice(e)
                if len(ch) > 1:
                    pick = ("choice", a, ch)
                    break
        if pick is None:
            done.append((p, sums, facts, local, chain))
        elif pick[0] == "choice":
            for val, fs in pick[2]:
                todo.append((_sub(p, {pick[1]: _poly(cn.canon(val))}), facts + fs, local, chain))
        else:
            for tp, tf, tch in pick[2]:
                todo.append((_sub(p, {pick[1]: tp}), facts + tf, pick[1], tch))
    return done


def _entry_selection(cn, poly):
    """Does the polynomial read the section table only through entries selected by a constant index (`T[k].field`, T the
    whole table) - no aggregate over the table, nothing unresolved?  -> sorted [(k, field)] (not empty) or None."""
    sel = set()
    for a in poly.atoms():
        if a.isidentifier():
            if a in cn.pars or a == "MZ" or not assignments_to(cn.fn, a):
                continue
            return None
        if a.startswith("SUM["):
            return None
        try:
            c = cn.canon(ast.parse(a, mode="eval").body, full=True)
        except SyntaxError:
            return None
        if not any(isinstance(n, ast.Name) and n.id in ("SECTION", _SEC) for n in ast.walk(c)):
            if cn.unlocated_parse(a):
                return None
            continue
        k = None
        if isinstance(c, ast.Attribute) and isinstance(c.value, ast.Subscript) and not isinstance(c.value.slice, ast.Slice):
            k = _c(c.value.slice)
            if k is None and _poly(_CountNorm().visit(copy.deepcopy(c.value.slice))) == SymPoly.atom(_NSEC) - SymPoly.const(1):
                k = -1  # T[len(T) - 1] is T[-1]
        if type(k) is int and _whole_table(c.value.value):
            sel.add((k, c.attr))
        else:
            return None
    return sorted(sel) or None


def _table_reads_recognised(cn, poly):
    """Every atom that reads the section table is a summarised sum over it or a constant-index entry field (so the value
    is understood, not e.g. a max(..) / a helper call over the table)."""
    for a in poly.atoms():
        if a.isidentifier() or a.startswith("SUM["):
            continue
        try:
            c = cn.canon(ast.parse(a, mode="eval").body, full=True)
        except SyntaxError:
            return False
        if any(isinstance(n, ast.Name) and n.id in ("SECTION", _SEC) for n in ast.walk(c)) and _entry_selection(cn, SymPoly.atom(a)) is None:
            return False
    return True


def _kills_free(ctx, f, cn, local, chain):
    """No other definition of the local that can follow the chain depends on the section table: whether the chain's value
    survives to the use is then independent of the table."""
    cfg = ctx.cfg(f)
    fv = FuncView.of(cn.fn)
    last = cfg.node(chain[-1])
    for st, _v in assignments_to(cn.fn, local):
        s = st if isinstance(st, ast.stmt) else fv.stmt_of(st)
        if s is None or not cfg.has(s) or any(s is c for c in chain):
            continue
        if cfg.reaches(last, cfg.node(s)) and _count_guard(cn, _dom_facts(ctx, f, s)) != "free":
            return False
    return True


def _judge_end(ctx, f, cn, alt, branching):
    """-> (verdict "ok" | "violated" | "undecided", detail) for one way the append position is computed."""
    pos, sums, facts, local, chain = alt
    MZ, H = SymPoly.atom("MZ"), SymPoly.atom("OPT.SizeOfHeaders")
    req = "required MZ + OPT.SizeOfHeaders + sum(SizeOfRawData over the section table)"
    locs = sorted(a for a in pos.atoms() if a.isidentifier() and a not in cn.pars and a != "MZ" and assignments_to(cn.fn, a))
    good = [a for a, (whole, ep) in sums.items() if whole and ep == SymPoly.atom(f"{_SEC}.SizeOfRawData")]
    want = MZ + H + (SymPoly.atom(good[0]) if good else SymPoly.atom("SUM[section table](SEC.SizeOfRawData)"))
    unknown_tab = [a for a, (whole, _ep) in sums.items() if whole is None and a in pos.atoms()]
    locs += sorted(a for a in pos.atoms() if not a.isidentifier() and not a.startswith("SUM[") and cn.unlocated_parse(a))
    if pos == want:
        return "ok", f"append read at {pos}; {req}"
    guard = _count_guard(cn, facts) if facts else "free"
    if guard == "empty" and _sub(pos, {a: SymPoly() for a, (whole, _ep) in sums.items() if whole}) == MZ + H:
        return "ok", f"append read at {pos} when the section table is empty (the image ends after its headers)"
    if locs or unknown_tab:
        return "undecided", f"append read at {pos}: cannot identify how the locals {locs} are computed / the iterable summed over is not recognised as the section table"
    if not branching:
        return "violated", f"append read at {pos}; {req}"
    sel = _entry_selection(cn, pos)
    free = local is None or _kills_free(ctx, f, cn, local, chain)
    if sel and guard in ("free", "nonempty") and free:
        ents = ", ".join(f"entry [{k}].{fld}" for k, fld in sel)
        return "violated", (f"with a non-empty section table the append read can be at {pos}: the end of the image is taken from {ents} only, the raw data of the other "
                            f"entries does not enter (the table is not ordered by file position and an entry without raw data has PointerToRawData 0); {req}")
    if guard == "nonempty" and free and _table_reads_recognised(cn, pos):
        return "violated", f"with a non-empty section table the append read can be at {pos}; {req}"
    return "undecided", f"append read at {pos} on one of several ways the position is computed; the conditions under which this way is taken are not of a recognised form"


def r6(ctx):
    f = ctx.repo.func("pe.find_stage_prepend_append")
    v = _view(ctx, f)
    cn = v.cn
    MZ = SymPoly.atom("MZ")
    pairs = [r.value if isinstance(r.value, ast.Tuple) else cn.canon(r.value) for r in ctx.cfg(f).return_stmts() if r.value is not None]
    pairs = [p for p in pairs if isinstance(p, ast.Tuple) and len(p.elts) == 2]
    t_pre, t_app = "prepend = bytes [0, mz_offset)", "append position"
    # ---- prepend: the read that flows into the first element of the returned pair
    pre = _reads_into(v, [p.elts[0] for p in pairs if not is_none(p.elts[0])])
    app = [s for s in _reads_into(v, [p.elts[1] for p in pairs if not is_none(p.elts[1])]) if not any(s is x for x in pre)]
    pre = [s for s in pre if not any(s is x for x in _reads_into(v, [p.elts[1] for p in pairs if not is_none(p.elts[1])]))] or pre
    if not v.has_mz or len(pre) != 1:
        ctx.undecided("R6", "CURSOR", f, t_pre, f"{len(pre)} stream reads flow into the first element of the returned pair / image base not identified")
    else:
        s = pre[0]
        ln = cn.poly(s.node.args[0]) if s.node.args else None
        facts = _dom_facts(ctx, f, s.node)
        # the read is not executed when the image starts the file: the dominating facts entail MZ != 0 (lemma L6)
        guard = _excludes_zero(cn, facts, "MZ")
        if s.cpos is None:
            _untracked(ctx, "R6", f, t_pre, v, s, "prepend read")
        elif guard is None and s.cpos == SymPoly() and ln == MZ:
            ctx.undecided("R6", "CURSOR", f, t_pre, f"prepend: {ln} bytes read at {s.cpos}; the conditions on the image base that dominate the read are not of a recognised form (whether they exclude image base 0 is not decided)", s.node)
        else:
            ok = s.cpos == SymPoly() and ln == MZ and guard is True
            ctx.ob("R6", "CURSOR", f, t_pre, ok, f"prepend: {ln} bytes read at {s.cpos} (required: MZ bytes at 0), only when the image does not start the file: {guard is True}", s.node)
    # ---- append: read at image base + SizeOfHeaders + sum of SizeOfRawData over the section table - on every way the
    # position is computed (reaching definitions of its locals, branches of conditional expressions)
    if not v.has_mz or len(app) != 1:
        ctx.undecided("R6", "CURSOR", f, t_app, f"{len(app)} stream reads flow into the second element of the returned pair / image base not identified")
    elif app[0].cpos is None:
        _untracked(ctx, "R6", f, t_app, v, app[0], "append read")
    else:
        before = v.sites[: next(i for i, s in enumerate(v.sites) if s is app[0])]
        at = next((s.node for s in reversed(before) if s.kind == "seek"), app[0].node)
        alts = _end_alternatives(ctx, f, cn, app[0].cpos, at)
        if not alts:
            pos, sums = _expand_sums(cn, app[0].cpos)
            alts = [(pos, sums, [], None, [])]
        branching = len(alts) > 1 or bool(alts[0][2])
        res = [_judge_end(ctx, f, cn, alt, branching) for alt in alts]
        bad = [d for k, d in res if k == "violated"]
        und = [d for k, d in res if k == "undecided"]
        if bad:
            ctx.ob("R6", "CURSOR", f, t_app, False, "; ".join(bad[:2]), app[0].node)
        elif und:
            ctx.undecided("R6", "CURSOR", f, t_app, und[0], app[0].node)
        else:
            ctx.ob("R6", "CURSOR", f, t_app, True, "; ".join(d for _k, d in res[:3]), app[0].node)
    _r6_magic_mz(ctx)


def _r6_magic_mz(ctx):
    g = ctx.repo.func("pe.find_magic_mz")
    text = "magic_mz = prefix before the stub"
    X64, X86 = bytes.fromhex("554889e54881"), bytes.fromhex("e8000000005b")
    env = module_env(g.module)
    for nm, ref in (("DOSHEADER_X64", X64), ("DOSHEADER_X86", X86)):
        if nm in g.module.consts:
            val = _c(g.module.consts[nm], env)
            ctx.ob("R6", "TABLE", "pe.py::" + nm, "DOS stub bytes", val == ref, f"{nm} = {val.hex() if isinstance(val, bytes) else val} (reference {ref.hex()})")
    # the window searched starts at the image base
    v = _view(ctx, g)
    rets = [r.value for r in ctx.cfg(g).return_stmts() if r.value is not None and not is_none(r.value)]
    reads = _reads_into(v, rets)
    if v.has_mz and len(reads) == 1 and reads[0].cpos is not None:
        ctx.ob("R6", "CURSOR", g, "magic_mz window starts at the image base", reads[0].cpos == SymPoly.atom("MZ"), f"searched bytes read at {reads[0].cpos}; required MZ", reads[0].node)
    elif v.has_mz and len(reads) == 1:
        _untracked(ctx, "R6", g, "magic_mz window starts at the image base", v, reads[0], "read of the bytes searched")
    else:
        ctx.undecided("R6", "CURSOR", g, "magic_mz window starts at the image base", f"{len(reads)} stream reads flow into the returned value / position not tracked")

    def stub_of(e):
        c = _const_of(ctx, g, e)
        return "X86" if c == X86 else "X64" if c == X64 else None

    def scenario(found):
        def rewrite(e):
            if isinstance(e, ast.Call):
                if isinstance(e.func, ast.Attribute) and e.func.attr in ("find", "index") and len(e.args) == 1 and not e.keywords:
                    k = stub_of(e.args[0])
                    if k is not None and found[k]:
                        return ast.Call(func=_nm("FOUND_" + k), args=[e.func.value], keywords=[])
                    if k is not None and e.func.attr == "find":
                        return ast.Constant(value=-1)
                cal = ctx.rs.resolve_call(g, e)
                if cal.kind == "func" and cal.fq == "pe.find_mz_offset":
                    return _nm("MZ")
            return None

        def decide(t):
            if isinstance(t, ast.Compare) and len(t.ops) == 1:
                l, op, r = t.left, type(t.ops[0]), t.comparators[0]
                if _u(l) == "MZ" and is_none(r) and op in (ast.Is, ast.IsNot):
                    return op is ast.IsNot
                if op in (ast.In, ast.NotIn):
                    k = stub_of(l)
                    if k is not None:
                        return found[k] if op is ast.In else not found[k]
                if op in _MIRROR and isinstance(r, ast.Call) and isinstance(r.func, ast.Name) and r.func.id.startswith("FOUND_"):
                    l, op, r = r, _MIRROR[op], l
                if isinstance(l, ast.Call) and isinstance(l.func, ast.Name) and l.func.id.startswith("FOUND_"):
                    c = _lit(r)
                    if type(c) is int:  # a found index is >= 0
                        if op is ast.Eq:
                            return False if c < 0 else None
                        if op is ast.NotEq:
                            return True if c < 0 else None
                        if op is ast.Lt:
                            return False if c <= 0 else None
                        if op is ast.LtE:
                            return False if c < 0 else None
                        if op is ast.Gt:
                            return True if c < 0 else None
                        if op is ast.GtE:
                            return True if c <= 0 else None
            return None
        return rewrite, decide

    bad, checked = [], 0
    try:
        for f86 in (True, False):
            for f64 in (True, False):
                rewrite, decide = scenario({"X86": f86, "X64": f64})
                want = "X86" if f86 else "X64" if f64 else None
                for sig, val, en in _SymExec(decide, rewrite).run(g.node.body):
                    if sig == "raise" or _uncertain(en, r"\bMZ\b|FOUND_"):
                        continue
                    val = val if val is not None else ast.Constant(value=None)
                    if not (is_none(val) or (isinstance(val, ast.Subscript) and isinstance(val.slice, ast.Slice))):
                        ctx.undecided("R6", "AGREE", g, text, f"the returned value {_u(val)[:80]} is neither None nor a slice of the bytes searched")
                        return
                    checked += 1
                    if want is None:
                        ok = is_none(val)
                    else:
                        ok = isinstance(val, ast.Subscript) and isinstance(val.slice, ast.Slice) and val.slice.step is None \
                            and (val.slice.lower is None or _lit(val.slice.lower) == 0) and val.slice.upper is not None \
                            and _u(val.slice.upper) == f"FOUND_{want}({_u(val.value)})"
                    if not ok:
                        bad.append(f"x86 stub {'found' if f86 else 'absent'}, x64 stub {'found' if f64 else 'absent'}: returns {_u(val)[:100]}")
    except _Unsupported as e:
        ctx.undecided("R6", "AGREE", g, text, f"the function cannot be evaluated symbolically ({e})")
        return
    if not checked:
        ctx.undecided("R6", "AGREE", g, text, "no path of the function is identified")
        return
    ctx.ob("R6", "AGREE", g, text, not bad, "returns the bytes before the x86 DOS stub when it occurs, else those before the x64 stub, else None" if not bad else "; ".join(bad[:4]))


# ============================================================================ R7: the reported bytes are the bytes read
# What find_magic_pe / find_stage_prepend_append hand out is a stream read (R2/R6 judge where and how much is read) after
# the operations applied to it on the way to the return.  The chain of operations is collected by following definitions
# backwards from the returned value (device 3); each operation is classified by lemma L12 (device 5: the finite vocabulary
# of bytes operations the lemma covers; everything else is unknown -> undecided).
_ASCII_WS = b" \t\n\r\x0b\x0c"  # what bytes.strip()/lstrip()/rstrip() remove when called without an argument
_CASE_METHODS = frozenset({"lower", "upper", "swapcase", "title", "capitalize"})


class _ByteFlow:
    """Backward value flow from an expression to the stream reads it may hold: `paths` is a list of
    (terminal, node, ops) with terminal 'read' (a read site of the cursor walk), 'none' (None / empty constant) or
    'unknown' (anything the walk does not follow), and ops the operations applied on the way, each (kind, text) with
    kind 'same' (value unchanged), 'trim' (only trailing NUL bytes removed), 'bad' (bytes of the value removed or
    changed otherwise) or 'unknown'."""

    def __init__(self, ctx, f, view):
        self.ctx, self.f = ctx, f
        self.reads = {id(s.node) for s in view.sites if s.kind == "read"}
        self.env = module_env(f.module)
        self.paths = []
        self.budget = 96

    def _strip_op(self, call):
        m = call.func.attr
        if call.keywords or len(call.args) > 1 or any(isinstance(a, ast.Starred) for a in call.args):
            return ("unknown", _u(call)[:60])
        if not call.args or is_none(call.args[0]):
            chars = _ASCII_WS
        else:
            chars = _c(call.args[0], self.env)
            if not isinstance(chars, (bytes, bytearray)):
                return ("unknown", f".{m}(<not a constant>)")
            chars = bytes(chars)
        if not chars:
            return ("same", f".{m}(b'')")
        shown = f".{m}({chars!r})" if call.args else f".{m}()"
        if m == "rstrip":
            if set(chars) == {0}:
                return ("trim", shown)
            return ("bad", f"{shown} removes trailing bytes other than NUL padding")
        return ("bad", f"{shown} removes bytes at the start of the value")

    def _slice_op(self, sl):
        lo, hi, step = (None if x is None or is_none(x) else x for x in (sl.lower, sl.upper, sl.step))
        lo_c = _c(lo, self.env) if lo is not None else 0
        if hi is None and (step is None or _c(step, self.env) == 1):
            if type(lo_c) is int and lo_c == 0:
                return ("same", "[:]")
            if type(lo_c) is int and lo_c > 0:
                return ("bad", f"[{lo_c}:] drops bytes at the start of the value")
        return ("unknown", f"[{_u(sl)}]")

    def trace(self, e, at, ops=(), seen=frozenset()):
        self.budget -= 1
        if self.budget < 0:
            self.paths.append(("unknown", e, ops + (("unknown", "too many alternatives"),)))
            return
        e = strip_cast(e)
        if isinstance(e, ast.Constant):
            kind = "none" if e.value is None or e.value == b"" else "unknown"
            self.paths.append((kind, e, ops))
        elif isinstance(e, ast.NamedExpr):
            self.trace(e.value, at, ops, seen)
        elif isinstance(e, ast.Name):
            defs = reaching_defs(self.ctx, self.f, e.id, at)
            if not defs:
                self.paths.append(("unknown", e, ops))
            for st, v in defs:
                if v is None or st is self.f.node:
                    self.paths.append(("unknown", e, ops))  # parameter, loop target, unpacking, augmented assignment
                elif id(st) not in seen:  # a loop-carried definition is followed once
                    self.trace(v, st, ops, seen | {id(st)})
        elif isinstance(e, ast.IfExp):
            self.trace(e.body, at, ops, seen)
            self.trace(e.orelse, at, ops, seen)
        elif isinstance(e, ast.BoolOp):  # the value of `a or b` / `a and b` is one of the operands
            for v in e.values:
                self.trace(v, at, ops, seen)
        elif isinstance(e, ast.Subscript) and isinstance(e.slice, ast.Slice):
            self.trace(e.value, at, ops + (self._slice_op(e.slice),), seen)
        elif isinstance(e, ast.Call) and id(e) in self.reads:
            self.paths.append(("read", e, ops))
        elif isinstance(e, ast.Call) and isinstance(e.func, ast.Name) and e.func.id == "bytes" and len(e.args) == 1 and not e.keywords \
                and not isinstance(e.args[0], ast.Starred):
            self.trace(e.args[0], at, ops + (("same", "bytes(..)"),), seen)
        elif isinstance(e, ast.Call) and isinstance(e.func, ast.Attribute) and e.func.attr in ("strip", "lstrip", "rstrip"):
            self.trace(e.func.value, at, ops + (self._strip_op(e),), seen)
        elif isinstance(e, ast.Call) and isinstance(e.func, ast.Attribute) and e.func.attr in _CASE_METHODS and not e.args and not e.keywords:
            self.trace(e.func.value, at, ops + (("bad", f".{e.func.attr}() changes the letters among the bytes"),), seen)
        else:
            self.paths.append(("unknown", e, ops))


def _bytes_ob(ctx, f, text, values, padded, what):
    """`values`: [(expression, statement it is evaluated in)] - the alternatives of one reported value.  `padded`: NUL
    padding may follow the value in the stream (its removal at the end is then not a change of the value)."""
    flow = _ByteFlow(ctx, f, _view(ctx, f))
    for e, at in values:
        flow.trace(e, at)
    reads = [p for p in flow.paths if p[0] == "read"]
    node = reads[0][1] if reads else None

    def wrong(op):
        return op[0] == "bad" or (op[0] == "trim" and not padded)

    def chain(ops):
        return "read" + "".join(t if k != "bad" else t.split(" ")[0] for k, t in reversed(ops) if not (k == "same" and t == "bytes(..)"))

    known = [p for p in reads if all(op[0] != "unknown" for op in p[2])]
    bad = [p for p in known if any(wrong(op) for op in p[2])]
    unknown = [p for p in flow.paths if p[0] == "unknown" or any(op[0] == "unknown" for op in p[2])]
    if bad:
        why = []
        for p in bad[:2]:
            op = next(op for op in p[2] if wrong(op))
            why.append(f"{chain(p[2])}: " + (op[1] if op[0] == "bad" else f"{op[1]} removes trailing NUL bytes, but nothing pads the {what}: they are bytes of the image"))
        ctx.ob("R7", "AGREE", f, text, False, f"the {what} is not reported as read - " + "; ".join(why), bad[0][1])
    elif not reads:
        ctx.undecided("R7", "AGREE", f, text, f"no stream read is found to flow into the {what}" + (f" (not followed: {_u(unknown[0][1])[:60]})" if unknown else ""))
    elif unknown:
        p = unknown[0]
        op = next((op[1] for op in p[2] if op[0] == "unknown"), None)
        ctx.undecided("R7", "AGREE", f, text, f"the {what} passes through an operation the rule has no lemma for: {op or _u(p[1])[:60]}", node)
    else:
        forms = sorted({chain(p[2]) for p in reads})
        ctx.ob("R7", "AGREE", f, text, True, f"the {what} is the stream read" + (", trailing NUL padding apart" if padded else "") + f": {'; '.join(forms[:3])}", node)
    return bool(reads)


def r7(ctx):
    n = 0
    # ---- find_magic_pe: the returned value
    f = ctx.repo.func("pe.find_magic_pe")
    rets = [(r.value, r) for r in ctx.cfg(f).return_stmts() if r.value is not None and not is_none(r.value)]
    t_magic = "PE magic = the bytes read, trailing padding apart"
    if not rets:
        ctx.undecided("R7", "AGREE", f, t_magic, "the function returns no value")
    else:
        n += _bytes_ob(ctx, f, t_magic, rets, True, "PE magic")
    # ---- find_stage_prepend_append: the two elements of the returned pair
    f = ctx.repo.func("pe.find_stage_prepend_append")
    pairs, other = [], []
    for r in ctx.cfg(f).return_stmts():
        v = strip_cast(r.value) if r.value is not None else None
        if v is None or is_none(v):
            continue
        cands = [(v, r)]
        if isinstance(v, ast.Name):
            cands = [(strip_cast(dv) if dv is not None else None, st) for st, dv in reaching_defs(ctx, f, v.id, r)]
        for c, at in cands:
            if isinstance(c, ast.Tuple) and len(c.elts) == 2 and not any(isinstance(x, ast.Starred) for x in c.elts):
                pairs.append((c, at))
            else:
                other.append(c if c is not None else v)
    t_pre, t_app = "prepend = the bytes read", "append = the bytes read, trailing padding apart"
    if other or not pairs:
        why = f"the returned value {_u(other[0])[:60]} is not a pair display" if other else "no returned pair is found"
        ctx.undecided("R7", "AGREE", f, t_pre, why)
        ctx.undecided("R7", "AGREE", f, t_app, why)
    else:
        for i, text, padded, what in ((0, t_pre, False, "stage prepend"), (1, t_app, True, "stage append")):
            vals = [(p.elts[i], at) for p, at in pairs if not is_none(p.elts[i])]
            if not vals:
                ctx.undecided("R7", "AGREE", f, text, f"every returned pair has None as its {what}")
            else:
                n += _bytes_ob(ctx, f, text, vals, padded, what)
    ctx.rep.count("reported_byte_flows", n)
