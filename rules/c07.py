"""C07 - End-to-end decoding: only the routing / binding structure is decidable statically."""

from __future__ import annotations

import ast

from csverif.astutil import (
    assignments_to, body_walk, compare_parts, const_eval, dotted, fn_calls, is_const, kwarg, NotConst, params, src,
    statements,
)
from csverif.cfg import ENTRY, EXIT
from csverif.q import FuncView, calls_to, dominating_conditions, origin, raise_class, specialise


def _c(node):
    try:
        return const_eval(node) if node is not None else None
    except NotConst:
        return None


def _setting_key(expr):
    """The 'SETTING_X' subscript key inside an expression (through list()/copy wrappers)."""
    for n in ast.walk(expr):
        if isinstance(n, ast.Subscript) and isinstance(_c(n.slice), str) and (dotted(n.value) or "").endswith("settings"):
            return _c(n.slice)
    return None


def run(ctx):
    rep = ctx.rep
    rep.explanation = (
        "Static analysis of the routing/binding structure in c2.py and client.py: every exit of get_transform_for_http "
        "with the branch conditions that dominate it (verb equality AND URI prefix; response -> response transform; "
        "otherwise raise ValueError, never None); the setting each transform/verb/URI attribute of C2Http is built from; "
        "dominance of the key-material validation over the key attributes; the transforms, keys and framing the client "
        "uses to build requests vs. the ones the decoder uses. Whole-session histories are not decided."
    )
    rep.not_decided = ["whole-session decoding over all interleavings", "metadata_cache / beacon_keys evolution over time", "packet contents"]
    rep.trusted_base = ["CPython ast", "networkx dominators"]
    r1(ctx)
    r2(ctx)
    r3(ctx)
    r4(ctx)
    r5(ctx)
    # the traffic decoder is only as good as the transform layer it routes to: C04's obligations on
    # HttpDataTransform.transform/recover are necessary conditions of C07 as well
    from rules import c04

    ctx.import_obligations("R6", c04.run)
    # the client's check-in must be producible for every host: the byte cap on the metadata info string (C19.R5)
    from rules import c19

    ctx.import_obligations("R7", c19.r5)


def r1(ctx):
    f = ctx.repo.func("c2.C2Http.get_transform_for_http")
    cfg = ctx.cfg(f)
    http = params(f.node)[1]
    want = {
        "self.transform_get": {f"isinstance({http}, HttpRequest)", f"{http}.method == self.get_verb", f"{http}.uri.startswith(self.get_uris)"},
        "self.transform_submit": {f"isinstance({http}, HttpRequest)", f"{http}.method == self.submit_verb", f"{http}.uri.startswith(self.submit_uri)"},
        "self.transform_response": {f"isinstance({http}, HttpResponse)"},
    }
    seen = set()
    for r in cfg.return_stmts():
        d = dotted(r.value)
        conds = {t for t, pol, _n in dominating_conditions(ctx, f, r) if pol}
        # normalise argument order of == tests
        norm = set()
        for t, pol, n in dominating_conditions(ctx, f, r):
            if not pol:
                continue
            cp = compare_parts(n)
            if cp and isinstance(cp[0][1], ast.Eq):
                a, b = sorted([src(cp[0][0]), src(cp[0][2])])
                a2, b2 = (a, b) if a.startswith(http) else (b, a)
                norm.add(f"{a2} == {b2}")
            else:
                norm.add(t)
        if d not in want:
            ctx.ob("R1", "EXIT", f, "return " + src(r.value), False, f"returns {src(r.value)}: not one of the three transforms (None/other would mis-route)", r)
            continue
        seen.add(d)
        missing = want[d] - norm
        ctx.ob("R1", "EXIT", f, "return " + d, not missing, f"returned under {sorted(norm)}; missing required conditions {sorted(missing)}", r)
    ctx.ob("R1", "EXIT", f, "all three routes", seen == set(want), f"routes present: {sorted(seen)}")
    ctx.ob("R1", "EXIT", f, "falls off end", not cfg.falls_off_end(), "no path returns None implicitly" if not cfg.falls_off_end() else "a path falls off the end and returns None")
    rs = [r for r in cfg.raise_stmts() if r.exc is not None]
    ctx.ob("R1", "EXIT", f, "unrelated -> ValueError", bool(rs) and all(raise_class(r) == "ValueError" for r in rs), f"raises {[raise_class(r) for r in rs]} for unrelated messages")
    # bytes are parsed first
    ok = any(ctx.rs.resolve_call(f, c).fq == "c2.parse_raw_http" for c in fn_calls(f.node))
    ctx.ob("R1", "AGREE", f, "parse_raw_http(bytes)", ok, "raw bytes are parsed with parse_raw_http")


def r2(ctx):
    f = ctx.repo.func("c2.C2Http.__init__")
    attrs = {}
    for st in statements(f.node):
        tgt = st.targets[0] if isinstance(st, ast.Assign) and len(st.targets) == 1 else st.target if isinstance(st, ast.AnnAssign) else None
        if tgt is not None and st.value is not None and (dotted(tgt) or "").startswith("self."):
            attrs.setdefault(dotted(tgt), []).append(st.value)
    want_t = {"self.transform_submit": ("SETTING_C2_POSTREQ", None, None), "self.transform_get": ("SETTING_C2_REQUEST", None, None),
              "self.transform_response": ("SETTING_C2_RECOVER", True, "output")}
    for a, (key, rev, build) in want_t.items():
        vs = attrs.get(a, [])
        ok = False
        detail = f"{a} assigned {len(vs)} times"
        if len(vs) == 1 and isinstance(vs[0], ast.Call) and ctx.rs.resolve_call(f, vs[0]).fq == "c2.HttpDataTransform":
            c = vs[0]
            steps = kwarg(c, "steps") if kwarg(c, "steps") is not None else (c.args[0] if c.args else None)
            k = _setting_key(steps) if steps is not None else None
            r = kwarg(c, "reverse") if kwarg(c, "reverse") is not None else (c.args[1] if len(c.args) > 1 else None)
            b = kwarg(c, "build") if kwarg(c, "build") is not None else (c.args[2] if len(c.args) > 2 else None)
            got = (k, _c(r) if r is not None else None, _c(b) if b is not None else None)
            ok = got == (key, rev, build) or (rev is None and got == (key, False, None))
            detail = f"built from (setting, reverse, build)={got}; required {(key, rev, build)}"
        ctx.ob("R2", "AGREE", f, a, ok, detail)
    want_s = {"self.submit_uri": "SETTING_SUBMITURI", "self.submit_verb": "SETTING_C2_VERB_POST", "self.get_verb": "SETTING_C2_VERB_GET"}
    for a, key in want_s.items():
        vs = attrs.get(a, [])
        k = _setting_key(vs[0]) if len(vs) == 1 else None
        enc = len(vs) == 1 and isinstance(vs[0], ast.Call) and isinstance(vs[0].func, ast.Attribute) and vs[0].func.attr == "encode"
        ctx.ob("R2", "AGREE", f, a, k == key and enc, f"{a} read from {k} (required {key}) and encoded to bytes={enc}")
    vs = attrs.get("self.get_uris", [])
    ok = len(vs) == 1 and "bconfig.uris" in src(vs[0]) and isinstance(vs[0], ast.Call) and dotted(vs[0].func) == "tuple"
    ctx.ob("R2", "AGREE", f, "self.get_uris", ok, f"get URIs are tuple(<encoded> bconfig.uris): {src(vs[0]) if vs else None}")
    vs = attrs.get("self.beacon_keys", [])
    ok = len(vs) == 1 and isinstance(vs[0], ast.Call) and dotted(vs[0].func) == "BeaconKeys" and {k.arg: dotted(k.value) for k in vs[0].keywords} == {"aes_key": "self.aes_key", "hmac_key": "self.hmac_key"}
    ctx.ob("R2", "AGREE", f, "self.beacon_keys", ok, f"default keys built from the validated attributes: {src(vs[0]) if vs else None}")
    vs = attrs.get("self.priv", [])
    ctx.ob("R2", "AGREE", f, "self.priv", len(vs) == 1 and dotted(vs[0]) == "rsa_private_key", f"private key stored from its parameter: {src(vs[0]) if vs else None}")


def r3(ctx):
    f = ctx.repo.func("c2.C2Http.__init__")
    cfg = ctx.cfg(f)
    # both keys -> raise; none of the three -> raise
    for label, assume in (("aes_rand and aes_key", {"aes_rand": True, "aes_key": True}),
                          ("no key material", {"aes_key": False, "aes_rand": False, "rsa_private_key": False})):
        spec = specialise(cfg, assume)
        leaks = spec.reaches(ENTRY, EXIT)
        # and no key attribute is assigned on the way to the raise
        stores = [n for n, st in cfg.stmt.items() if isinstance(st, ast.Assign) and any((dotted(t) or "") in ("self.beacon_keys",) for t in st.targets)]
        reached = [n for n in stores if spec.reaches(ENTRY, n)]
        ctx.ob("R3", "DOM", f, f"reject: {label}", not leaks and not reached, f"with {assume} the constructor can complete={leaks}; builds beacon_keys={bool(reached)}")
        bad = [raise_class(st) for n, st in cfg.stmt.items() if isinstance(st, ast.Raise) and spec.reaches(ENTRY, n) and raise_class(st) != "ValueError"]
        ctx.ob("R3", "EXIT", f, f"reject: {label} -> ValueError", not bad, f"other exception classes raised on this path: {bad}", nontrivial=False)
    # length tests after derivation
    derive = [n for n, st in cfg.stmt.items() if isinstance(st, ast.Assign) and isinstance(st.value, ast.Call) and ctx.rs.resolve_call(f, st.value).fq == "c2.derive_aes_hmac_keys"]
    for attr in ("self.aes_key", "self.hmac_key"):
        tests = []
        for n, st in cfg.stmt.items():
            if isinstance(st, ast.If):
                for cj in ast.walk(st.test):
                    if isinstance(cj, ast.Compare) and isinstance(cj.left, ast.Call) and dotted(cj.left.func) == "len" and dotted(cj.left.args[0]) == attr and isinstance(cj.ops[0], ast.NotEq) and _c(cj.comparators[0]) == 16:
                        tests.append((n, st))
        ok = False
        detail = f"no `len({attr}) != 16` rejection"
        for n, st in tests:
            t = cfg.edge_node(st, "true")
            raises = not cfg.reaches(t, EXIT)
            after = all(not cfg.reaches(n, d) for d in derive)
            keys = [k for k, s2 in cfg.stmt.items() if isinstance(s2, ast.Assign) and dotted(s2.targets[0]) == "self.beacon_keys"]
            dom = all(cfg.dominates(n, k) for k in keys) and bool(keys)
            ok = raises and after and dom
            detail = f"wrong length raises={raises}; test follows the derivation from aes_rand={after}; dominates the construction of beacon_keys={dom}"
        ctx.ob("R3", "DOM", f, f"len({attr}) == 16", ok, detail)


def r4(ctx):
    g = ctx.repo.func("client.HttpBeaconClient.get_task")
    from csverif.q import inline as _inl
    tr = [c for c in fn_calls(g.node) if isinstance(c.func, ast.Attribute) and c.func.attr == "transform"]
    ok = len(tr) == 1 and dotted(tr[0].func.value) == "self.c2http.transform_get"
    md = False
    if ok:
        tr = [_inl(g.node, tr[0])]
        a = tr[0].args[0] if tr[0].args else None
        if isinstance(a, ast.Call) and dotted(a.func) in ("C2Data", "ClientC2Data"):
            m = kwarg(a, "metadata")
            md = isinstance(m, ast.Call) and dotted(m.func) == "encrypt_metadata" and dotted(m.args[0]) == "self.metadata" and dotted(kwarg(m, "public_key") or (m.args[1] if len(m.args) > 1 else None)) == "self.c2http.pub"
        rq = kwarg(tr[0], "request")
        md = md and isinstance(rq, ast.Call) and dotted(rq.func) == "self._initial_get_request"
    ctx.ob("R4", "AGREE", g, "GET built with transform_get", ok and md, f"check-in uses self.c2http.transform_get={ok}; carries encrypt_metadata(self.metadata, server public key) on the initial GET request={md}")
    rec = [c for c in fn_calls(g.node) if isinstance(c.func, ast.Attribute) and c.func.attr == "iter_recover_http" and dotted(c.func.value) == "self.c2http"]
    ctx.ob("R4", "AGREE", g, "response decoded by c2http", len(rec) == 1, "the task response is decoded by the same C2Http instance")
    s = ctx.repo.func("client.HttpBeaconClient.send_callback")
    tr = [c for c in fn_calls(s.node) if isinstance(c.func, ast.Attribute) and c.func.attr == "transform"]
    ok = len(tr) == 1 and dotted(tr[0].func.value) == "self.c2http.transform_submit"
    body = False
    if ok:
        tr = [_inl(s.node, tr[0])]
        a = tr[0].args[0] if tr[0].args else None
        if isinstance(a, ast.Call) and dotted(a.func) in ("C2Data", "ClientC2Data"):
            idv, outv = kwarg(a, "id"), kwarg(a, "output")
            id_ok = idv is not None and src(idv) == "str(self.beacon_id).encode()"
            oo = outv.func.value if isinstance(outv, ast.Call) and isinstance(outv.func, ast.Attribute) and outv.func.attr == "dumps" else None
            enc_ok = isinstance(oo, ast.Call) and dotted(oo.func) == "encrypt_packet" and any(k.arg is None and "self.c2http.beacon_keys._asdict()" in src(k.value) for k in oo.keywords)
            pk = oo.args[0].func.value if enc_ok and isinstance(oo.args[0], ast.Call) and isinstance(oo.args[0].func, ast.Attribute) and oo.args[0].func.attr == "dumps" else None
            pk_ok = isinstance(pk, ast.Call) and dotted(pk.func) == "CallbackPacket"
            rq = kwarg(tr[0], "request")
            body = id_ok and enc_ok and pk_ok and isinstance(rq, ast.Call) and dotted(rq.func) == "self._initial_post_request"
    ctx.ob("R4", "AGREE", s, "POST built with transform_submit", ok and body,
           f"callback uses self.c2http.transform_submit={ok}; id = decimal beacon id, output = encrypt_packet(CallbackPacket.dumps(), **c2http.beacon_keys).dumps() on the initial POST request={body}")
    for fq, verb, uri in (("client.HttpBeaconClient._initial_get_request", "self.get_verb", "self.get_uri"), ("client.HttpBeaconClient._initial_post_request", "self.submit_verb", "self.submit_uri")):
        f = ctx.repo.func(fq)
        c = [c for c in fn_calls(f.node) if dotted(c.func) == "HttpRequest"]
        ok = len(c) == 1 and dotted(kwarg(c[0], "method")) == verb and uri in src(kwarg(c[0], "uri"))
        ctx.ob("R4", "AGREE", f, "HttpRequest(method, uri)", ok, f"initial request uses {verb} and {uri}")
    run = ctx.repo.func("client.HttpBeaconClient.run")
    binds = {dotted(st.targets[0] if isinstance(st, ast.Assign) else st.target): src(st.value) for st in statements(run.node) if isinstance(st, (ast.Assign, ast.AnnAssign)) and st.value is not None and not isinstance(getattr(st, "targets", [None])[0], ast.Tuple)}
    ok = binds.get("self.get_verb") == "self.c2http.get_verb" and binds.get("self.submit_verb") == "self.c2http.submit_verb" and binds.get("self.submit_uri") == "self.c2http.submit_uri.decode()"
    ctx.ob("R4", "AGREE", run, "client verbs/uris from c2http", ok, f"get_verb={binds.get('self.get_verb')} submit_verb={binds.get('self.submit_verb')} submit_uri={binds.get('self.submit_uri')}")
    c2 = [v for k, v in binds.items() if k == "self.c2http"]
    ok = bool(c2) and "aes_key=self.aes_key" in c2[0] and "hmac_key=self.hmac_key" in c2[0] and c2[0].startswith("C2Http(bconfig")
    ctx.ob("R4", "AGREE", run, "self.c2http", ok, f"decoder built from the same configuration and the client's derived keys: {c2[0] if c2 else None}")
    # decoder: packet classes and order
    ir = ctx.repo.func("c2.C2Http.iter_recover_http")
    cfg = ctx.cfg(ir)
    fv = FuncView.of(ir.node)
    ys = [n for n in body_walk(ir.node) if isinstance(n, ast.Yield)]
    kinds = {}
    for y in ys:
        v = y.value
        if isinstance(v, ast.Call):
            cal = ctx.rs.resolve_call(ir, v)
            if cal.kind == "struct":
                conds = [t for t, pol, n in dominating_conditions(ctx, ir, y) if pol and t.startswith("isinstance(")]
                kinds[cal.struct[2]] = conds
    ok = any("ClientC2Data" in c for c in kinds.get("CallbackPacket", [])) and any("ServerC2Data" in c for c in kinds.get("TaskPacket", []))
    ctx.ob("R4", "AGREE", ir, "packet classes", ok, f"client data -> CallbackPacket, server data -> TaskPacket: {kinds}")
    py = [y for y in ys if isinstance(y.value, ast.Call)]
    my = [y for y in ys if y not in py]
    ok = bool(my) and bool(py) and all(not cfg.reaches(cfg.node(fv.stmt_of(p)), cfg.node(fv.stmt_of(m))) for p in py for m in my)
    ctx.ob("R4", "DOM", ir, "metadata before packets", ok, "decrypted metadata is yielded before any packet of the same message" if ok else "packet yields can precede the metadata yield")
    # the decoder is a generator: what it learns from a message (derived session keys, metadata cache) must be stored
    # before it first suspends, otherwise a consumer that takes only the first packet leaves the decoder without keys
    late = []
    for s in statements(ir.node):
        tg = s.targets if isinstance(s, ast.Assign) else [s.target] if isinstance(s, (ast.AugAssign, ast.AnnAssign)) else []
        for t in tg:
            base = t
            while isinstance(base, ast.Subscript):
                base = base.value
            if (dotted(base) or "").startswith("self.") and cfg.has(s):
                if any(cfg.reaches(cfg.node(fv.stmt_of(y)), cfg.node(s)) for y in ys):
                    late.append(src(s)[:60])
    stores = [s for s in statements(ir.node) if isinstance(s, ast.Assign) and dotted(s.targets[0]) == "self.beacon_keys"]
    ctx.ob("R4", "DOM", ir, "decoder state stored before the first yield", bool(stores) and not late,
           f"{len(stores)} store(s) of the derived keys; none reachable from a yield" if stores and not late else f"state stores reachable after a yield (lost when the generator is not resumed): {late}; key stores={len(stores)}")
    tf = [c for c in fn_calls(ir.node) if dotted(c.func) == "self.get_transform_for_http"]
    rc = [c for c in fn_calls(ir.node) if isinstance(c.func, ast.Attribute) and c.func.attr == "recover"]
    ok = len(tf) == 1 and len(rc) == 1 and origin(ir.node, rc[0].func.value) is tf[0] and src(rc[0].args[0]) == src(tf[0].args[0])
    ctx.ob("R4", "AGREE", ir, "transform.recover(http)", ok, "the message is recovered with the transform selected for it" if ok else "recover is not applied with the routed transform on the same message")
    dm = [c for c in fn_calls(ir.node) if ctx.rs.resolve_call(ir, c).fq == "c2.decrypt_metadata"]
    ok = len(dm) == 1 and dotted(dm[0].args[1] if len(dm[0].args) > 1 else None) == "self.priv" and any(t == "self.priv" and pol for t, pol, n in dominating_conditions(ctx, ir, dm[0]))
    ctx.ob("R4", "DOM", ir, "decrypt_metadata(..., self.priv)", ok, "metadata is decrypted only with a private key present" if ok else "metadata decryption not guarded by self.priv")


def r5(ctx):
    try:
        from csverif import effects
    except ImportError:
        return
    effects.check_escape(ctx, "R5", ["c2.C2Http.get_transform_for_http"], allowed={"ValueError"})
