"""C07 - End-to-end decoding: only the routing / binding structure is decidable statically.

The rules locate their subjects by role on the normalised code (single-definition temporaries inlined, callees
resolved, arguments bound to the callee's parameters) and decide on the CFG:

* R1  every exit of the router returns one of the three transforms under the facts (message class, verb equality,
      URI prefix) that dominate it; no implicit None; only ValueError is raised;
* R2  what every routing attribute of the decoder is built from;
* R3  infeasibility of the constructor completing under rejected key material / wrong key lengths (CFG specialised
      under the assumption);
* R4  the client builds its requests with the transform, keys and framing the decoder undoes; generator ordering;
* R8  the router is complete: a request that has the verb and the URI prefix of a route is given that route's transform
      whatever the tests on the other route's verb / URI say (Malleable C2 `set verb` may make the two verbs the same
      string), and a response is given the response transform - the converse of R1;
* R11 recover's `append` / `prepend` steps take the literal off by position: no method whose result depends on the byte
      values of the (arbitrary) payload - strip family, first/last-occurrence cuts, replace - decides how much is removed;
* R12 the decoder keeps sufficient key material sufficient: after a fresh RSA decryption of the metadata the session keys
      are derived and stored whenever *either* default key is missing, in the order (aes_key, hmac_key), from aes_rand.
* R13 the client sends the request as the transform left it: between `<c2http>.<route>.transform(..)` and the sending
      call no entry of a container field of the transformed request (headers, params; also through an alias, a copy that
      is sent instead, or a method the request is handed to) is replaced or removed in favour of a value that does not
      come from the transform - the transform performs the profile's dynamic placements under free names.
* R14 'same metadata, same order' over repeated check-ins: whenever a message carries a metadata blob and the decoder holds
      a private key, the decoder generator yields the metadata before the packets / before it ends - both when the blob is
      not yet in the decoder's metadata cache and when it already is (the cache only saves the RSA decryption); a
      `yield from <generator method of the package>` is followed one level (a generator's `return <value>` yields nothing).
* R15 both sides of the router's URI-prefix test are in the same form: the `uri` field parse_raw_http builds is a *selection*
      of the start line (token, path component, codec re-coding) - no percent-decoding, case folding, rewriting or path
      normalisation that get_uris / submit_uri (the configured URIs, verbatim - R2) do not undergo as well.

A subject that cannot be located is reported as undecided, a located subject that does not satisfy the condition as
violated.

Technique
---------
Numbers refer to the ALLOWED list of RULES_GUIDE.md ("What counts as *static* here").  No rule of this module runs
/repo code or evaluates an expression of /repo on data chosen by the checker: there are no sample inputs, no numeric
enumeration, no loop unrolling, no stream enumeration and no regex matching anywhere in it.  The only evaluation is
constant folding of literals (`_c`) and three-valued evaluation of branch tests whose leaves are decided by a *named
assumption* (`_tv` / `_spec`); the only iteration is the fixpoint of `_resolve` / `_aliases` over the facts / copies.

* R1  1 (syntax tree, resolved callees `parse_raw_http` / the router itself, isinstance classes resolved to package
      classes); 2 (CFG return/raise statements, `falls_off_end`, branch tests that dominate an exit); 3 (reaching
      definitions of a returned local and conditional expressions followed back to the alternatives they select, each
      with the symbolic facts it is selected under; temporaries inlined; `a or b` holding with `a` known to fail yields
      `b` - unit resolution on facts compared as text, no solver); 5/6 (the exits are compared with the reference table
      `_ROUTES` of the three transforms and the facts each requires).
* R2  1 (stores to the routing attributes, resolved constructors, arguments bound to parameters/NamedTuple fields);
      3 (single-definition temporaries inlined, alias closure over plain copies, key values followed to a constructor
      parameter or element i of `derive_aes_hmac_keys(..)`); 6 (setting-key / reverse / build literals folded and
      compared with the reference table of settings).  Structural lemma: `x.encode()`, `x.encode('utf-8')`,
      `str.encode(x)` and `bytes(x, 'utf-8')` are the same str->bytes conversion.
* R3  2 (CFG of the constructor specialised under the named assumptions "aes_rand and aes_key both truthy", "no key
      material (all three falsy)", "the key is not None and its length is not 16": reachability of EXIT / of the
      construction of the default keys); 3 (alias closure of the key l-value; tests that precede a later store to the
      key are left symbolic); 1 (raise classes).  Lemmas: a truthy value is not None; under `len(v) != 16` exactly the
      tests `len(v) == 16` / `len(v) != 16` (either operand order) are decided - every other test on the length stays
      unknown (no arithmetic on lengths is attempted).
* R4  1 (transform / recover / decrypt_metadata / encrypt_packet / constructor calls located through resolved callees,
      arguments bound to parameters; who writes attributes of self); 2 (CFG of the decoder generator specialised per
      member of the code's own finite vocabulary {ClientC2Data, ServerC2Data} - device 5 - to collect the packet class
      each yield can produce; reachability between yields and state stores; dominating presence test of self.priv);
      3 (temporaries inlined, terms compared structurally as normalised text, single returned constructor of a package
      method followed); 6 (literal format strings / setting keys compared with finite tables).  Lemma (decimal id):
      for an int n, `str(n)`, `'%d' % n` (also %i %u %s), `'{}'.format(n)` (also {0} {:d} {0:d}), `f'{n}'` (also !s !r
      :d) and `b'%d' % n` (also %i %u) all denote its decimal digits, and UTF-8 / ASCII / Latin-1 encode such a string
      to the same bytes (ASCII-compatible encodings); `hex/oct/bin/repr/chr/...(n)` and `n.to_bytes(..)` are located
      conversions that are not that.  Recognised structurally, never by formatting a sample number.
* R5  1/3 (the engine's may-raise summary over the call graph from the router, `csverif.effects.check_escape`; a raise
      through a local is given the class of the instance bound to it by def-use).
* R8  5 (case analysis over the finite vocabulary the router itself dispatches on - the message class and the four atomic
      tests `method == <verb attribute>` / `uri.startswith(<URI attribute>)` of `_ROUTES`: per request route the three
      ways the *other* route's condition can fail, plus "the message is a HttpResponse"; every one of these truth
      assignments is realisable, because verbs and URIs are free strings of the profile; the assignment where both
      routes match is the ambiguous configuration the property does not speak about and is not judged); 2/3 (path-wise
      value flow through the router's CFG under that named assumption: branch tests evaluated three-valued, an
      undecided test followed both ways, locals holding a transform / None tracked through assignments; no concrete
      message, verb or URI exists anywhere).  Verdict: an exit other than the required transform on a path whose
      branches were all decided by the assumption (or when no exit at all is the required one) is a violation; when
      only paths through tests the rule cannot classify lead to another exit the obligation is undecided.  Lemmas: a
      parsed message is not an instance of bytes/bytearray/memoryview/str; an instance of a class that defines neither
      `__bool__` nor `__len__` (checked on HttpDataTransform) is truthy and is not None.
* R9  1 (the `<c2http>.<route>.transform(..)` call located through the decoder attribute; callees resolved: package
      functions / classes are "helpers not seen into", everything else is a candidate for the sending call; the field
      names are read off the NamedTuple declaration of HttpRequest - device 5, the code's own finite vocabulary);
      3 (def-use: which expressions denote the transformed request is decided by reaching definitions - the local is
      re-bound to the response later on -, single-definition temporaries and the elements of unpacked values are
      substituted into the arguments of every call, and the fields of the request read anywhere inside are collected).
      The sending call is the candidate - result used, i.e. not a bare expression statement such as a log call - that
      receives the most fields.  Verdict: a field it does not receive and that is read nowhere else (apart from log
      statements and stores into locals nothing reads) is a violation; when the missing field is read by another
      statement / test, the request is passed on as a whole or handed to a package helper, the obligation is undecided.
* R10 1 (HttpRequest(..)/HttpResponse(..) constructions resolved, `body` / `headers` bound to their fields; the
      `<headers>[<name>] = <value>` stores); 3 (def-use substitution of single-definition locals and of the elements of an
      unpacked value down to `<s>.partition/rpartition/split/rsplit(<constant sep>[, n])[i]` or a slice of <s> at
      `<s>.find/index/rfind/rindex(<constant sep>)` [+ len(sep)]; conditional expressions judged per non-constant
      alternative).  Lemma (the documented result shape of the str/bytes methods, `_cut_class`): partition(sep)[0] / [2]
      are the text before / everything after the first sep; split(sep, 1)[0] / [1] the same; rpartition and rsplit(sep, 1)
      cut at the last sep; without a limit (or with a limit above 1) element 0 of split(sep) is the text before the first
      sep and every other element is a piece between two separators; `s[:s.find(sep)]` / `s[s.find(sep) + len(sep):]`
      are the first-separator cuts, with rfind/rindex the last-separator cuts.  A located cut of another class than the
      required one is a violation, any other expression undecided.  No string is ever split by the checker.
* R11 5 (one case per step name `append` / `prepend` of the step vocabulary: the loop body of recover is walked path-wise
      once with the step name replaced by that literal - the path walker `_Side` of rules.c04, its technique is stated
      there; payload, step argument and all loop-carried locals stay symbols); 3 (the final symbolic term of the payload
      accumulator on every normally completing path); 1 (which methods of the finite set strip/lstrip/rstrip,
      removeprefix/removesuffix, partition/rpartition/split/rsplit, replace, find/index/... are applied to a sub-term that
      contains the accumulator symbol, and with which argument / constant index).  Lemmas (documented result shapes of the
      bytes methods, `_affix_cuts`): strip-set - x.rstrip(s) / lstrip / strip remove every leading / trailing byte that
      OCCURS IN s, a set of byte values; affix - (p + s).removesuffix(s) == p, (s + p).removeprefix(s) == p; occurrence - in
      p + s the last occurrence of a non-empty s is the appended one, in s + p the first is the prepended one, any other
      occurrence may lie inside p.  The payload p is an arbitrary byte string and the literal s a free non-empty string of
      the profile, so a located strip-family call / wrong-occurrence cut / replace is a violation, a search method without
      a lemma (find, index, translate ...) undecided.  No byte string is ever stripped or split by the checker.
* R12 5 (case analysis over the code's own two boolean flags "default aes_key present / missing", "default hmac_key
      present / missing": the three assignments with at least one key missing - each is a state the constructor accepts
      together with an RSA private key); 2 (CFG of the decoder generator specialised under that named assumption with
      `_spec`; reachability from the statement of the decrypt_metadata(..) call to every yield and to the exit *avoiding*
      the stores of self.beacon_keys; stores located with `_self_writes`); 3 (def-use of the stored BeaconKeys(..) fields
      down to element i of derive_aes_hmac_keys(<metadata>.aes_rand) / BeaconKeys.from_aes_rand(..), reaching definitions
      of <metadata> = the decrypt_metadata call).  Lemma: a validated key is None or 16 bytes (R3), so "missing" decides
      `k` false, `k is None` true, `None in (k, ..)` true and "present" the opposite; any other test that mentions the keys
      and lies between the decryption and the leak makes the obligation undecided, never violated.
* R13 1 (the `<c2http>.<route>.transform(..)` call as in R9; subscript stores / `del` / `|=`, the in-place mapping methods of
      the finite table `_MAP_WRITES`, and the three mapping-merge expression forms in which a later operand wins -
      `{**m, k: v}`, `m | other`, `dict(m, k=v)`; field names from the NamedTuple declaration of HttpRequest; callees
      resolved, arguments bound to parameters); 3 (reaching definitions decide which expressions denote the transformed
      request or the container of one of its fields: aliases, `dict(m)` / `m.copy()` / `copy.copy(m)` / `{**m}` copies, a
      `{.. for k, v in m.items()}` re-keyed copy, a package method that returns the parameter the request was bound to; a
      written value is "foreign" when no sub-expression of it reads the request; the request / a field container passed
      to a package function is followed into it with the parameter standing for it, two levels deep); 2 (only statements
      reachable on the CFG from the statement of the transform call are judged; a dominating test `<key> not in
      <container>` discharges a store, any other dominating test that reads the container makes it undecided).  Lemma
      (documented mapping semantics): in `{**m, k: v}`, `m | o`, `dict(m, **kw)`, `m.update(o)` and `m |= o` the later /
      right / keyword entries win; `m.setdefault(k, v)` never replaces an entry.  Verdict: a located replacement / removal
      with a foreign value is a violation - header and parameter names of a placement are free strings of the profile,
      so every fixed name is the placement of some well-formed profile; a value re-computed from the request itself or
      a popped value that is used is undecided.  What an *external* callee (httpx, logging) does with the request is not
      analysed.
* R14 5 (case analysis over the code's own boolean "the blob is a key of the cache": the cache is located by role - an
      attribute of self the decoder or a generator method it delegates to fills entry-wise -, the two cases are the two
      outcomes of the membership / `.get(..) is None` test the code itself makes; both are realisable: a first check-in, and
      a repeated check-in or a second pass over a capture); 2 (CFG of the decoder generator specialised under the named
      assumption "metadata blob present and truthy, self.priv present, blob cached / not cached"; reachability from ENTRY to
      every packet yield and to EXIT *avoiding* the statements that yield a value; normal exits only - a raise is not an
      exit); 3 (a test is looked at with the locals that have exactly one reaching definition at that statement substituted;
      the blob followed through argument binding into the parameters of a `yield from` callee, one level deep; a cache
      test reachable from a store into the cache is left symbolic).  Verdict: a yield-free path all of whose relevant tests
      are decided by the assumption (or do not read the metadata / key / cache / a package helper, also through reaching
      definitions) is a violation; a path that exists only through a loop that may not iterate, an exception handler, an
      unclassified test or an unseen callee makes the obligation undecided.  Lemma (language semantics): in a generator
      function `return <value>` produces no item; `yield from <non-empty display>` produces one.
* R15 1 (HttpRequest(..) constructions resolved, `uri` bound to its field; external callees by their import-resolved names);
      3 (the value followed backwards through *all* reaching definitions, unpacked / iterated values as a whole, to the
      parameter); 6 (the finite tables `_SELECTIONS` / `_RECODINGS` / `_SELECT_FUNCS` - results are sub-sequences or codec
      re-codings of the subject - and `_VALUE_TRANSFORMS` - documented stdlib functions that are not the identity on URIs:
      percent-(de)coding, case folding, replace/translate/re.sub, normpath; the same table is applied to the inlined values
      stored to self.get_uris / self.submit_uri).  Verdict: a located transformation on the parser side that the
      configured side does not have is a violation (URIs are free printable profile strings, so some well-formed profile has
      a URI on which it is not the identity); the same transformation on both sides, or a step outside the tables, is
      undecided.  No URI is ever transformed by the checker.
* R6  obligations of `rules.c04.run`, R7 obligations of `rules.c19.r5`, imported unchanged - their technique is stated
      in (and audited with) those modules.
"""

from __future__ import annotations

import ast
import copy

from csverif.astutil import bind_args, body_walk, compare_parts, const_eval, dotted, fn_calls, is_none, NotConst, params, src, statements, strip_cast
from csverif.cfg import ENTRY, EXIT
from csverif.q import FuncView, dominating_conditions, inline, reaching_defs

KEY_LEN = 16  # property statement: AES-128 key / HMAC key derived from sha256 halves


# ---------------------------------------------------------------------------- generic private helpers
def _c(node):
    try:
        return const_eval(node) if node is not None else None
    except NotConst:
        return None


def _inl(f, e):
    """Expression e of function f with every single-definition temporary substituted (None stays None)."""
    return None if e is None else inline(f.node, e)


def _emit(ctx, rule, kind, where, text, verdict, detail, node=None, nontrivial=True):
    """verdict True -> discharged, False -> violated, None -> undecided (subject not located)."""
    if verdict is None:
        return ctx.undecided(rule, kind, where, text, detail, node)
    return ctx.ob(rule, kind, where, text, bool(verdict), detail, node, nontrivial=nontrivial)


def _callee(ctx, f, e):
    if not isinstance(e, ast.Call):
        return None
    try:
        return ctx.rs.resolve_call(f, e)
    except Exception:
        return None


def _fq(ctx, f, e):
    """'module.qualname' of the package function/class a call expression resolves to, 'struct:<C type>' for a cstruct
    constructor, the dotted external name for anything else that has one."""
    cal = _callee(ctx, f, e)
    if cal is None:
        return None
    if cal.kind == "func" and cal.func is not None:
        return cal.func.fq
    if cal.kind == "class":
        return cal.fq
    if cal.kind == "struct" and cal.struct:
        return "struct:" + cal.struct[2]
    if cal.kind == "external":
        return cal.fq
    return None


def _cls_fq(ctx, f, e):
    """Set of package classes named by the class argument of an isinstance (a name or a tuple of names)."""
    out = set()
    for x in (e.elts if isinstance(e, ast.Tuple) else [e]):
        d = dotted(x)
        s = ctx.rs.lookup_dotted(f.module.name, d) if d else None
        if s is None or s.kind != "class":
            return None
        out.add(s.fq)
    return out


def _fields(ctx, cls_fq):
    """[(field, default)] of a NamedTuple-style class in declaration order (taken from the base class if the class
    itself declares none)."""
    node = ctx.repo.cls(cls_fq)
    out = [(st.target.id, st.value) for st in node.body if isinstance(st, ast.AnnAssign) and isinstance(st.target, ast.Name)]
    if out:
        return out
    for b in node.bases:
        d = dotted(b)
        s = ctx.rs.lookup_dotted(cls_fq.split(".")[0], d) if d else None
        if s is not None and s.kind == "class":
            r = _fields(ctx, s.fq)
            if r:
                return r
    return []


def _bind(ctx, f, call, fallback=()):
    """Parameter/field name -> argument expression of a call to a package function, method, class or NamedTuple
    (defaults filled in).  A `**x` argument is kept under the key '**'.  Unresolved callee: positional arguments are
    bound to the names in `fallback`."""
    cal = _callee(ctx, f, call)
    star = [k.value for k in call.keywords if k.arg is None]
    out = None
    if cal is not None and cal.kind == "func" and cal.func is not None:
        fn = cal.func.node
        skip = False
        if cal.func.cls and isinstance(call.func, ast.Attribute):
            deco = {dotted(d) for d in getattr(fn, "decorator_list", [])}
            recv = dotted(call.func.value)
            s = ctx.rs.lookup_dotted(f.module.name, recv) if recv else None
            skip = "staticmethod" not in deco and not (s is not None and s.kind == "class" and "classmethod" not in deco)
        out = dict(bind_args(call, fn, skip_self=skip))
        for k, v in cal.bound.items():
            out.setdefault(k, v)
    elif cal is not None and cal.kind == "class":
        init = ctx.rs.class_init(cal.fq)
        if init is not None:
            out = dict(bind_args(call, init.node, skip_self=True))
        else:
            fl = _fields(ctx, cal.fq)
            if fl and not any(isinstance(a, ast.Starred) for a in call.args):
                out = dict(zip([n for n, _d in fl], call.args))
                for k in call.keywords:
                    if k.arg is not None:
                        out[k.arg] = k.value
                for n, d in fl:
                    if n not in out:
                        out[n] = None if star else d
    if out is None:
        if any(isinstance(a, ast.Starred) for a in call.args):
            return {"**": star[0]} if star else {}
        out = dict(zip(fallback, call.args))
        for k in call.keywords:
            if k.arg is not None:
                out[k.arg] = k.value
    if star:
        out["**"] = star[0]
    return out


def _stores(fn):
    """dotted target (local name or attribute chain) -> [(statement, value)] for every binding in fn.  Tuple targets are
    bound element-wise; unpacking a non-literal value v binds element i to the synthetic expression `v[i]`; bindings
    without a value expression (augmented assignment, loop/with targets) have value None."""
    out = {}

    def add(t, v, st):
        if isinstance(t, (ast.Tuple, ast.List)):
            if any(isinstance(x, ast.Starred) for x in t.elts):
                for x in t.elts:
                    add(x.value if isinstance(x, ast.Starred) else x, None, st)
            elif isinstance(v, (ast.Tuple, ast.List)) and len(v.elts) == len(t.elts) and not any(isinstance(x, ast.Starred) for x in v.elts):
                for te, ve in zip(t.elts, v.elts):
                    add(te, ve, st)
            else:
                for i, te in enumerate(t.elts):
                    add(te, None if v is None else ast.Subscript(value=v, slice=ast.Constant(value=i), ctx=ast.Load()), st)
            return
        d = dotted(t)
        if d is not None:
            out.setdefault(d, []).append((st, v))

    for st in statements(fn):
        if isinstance(st, ast.Assign):
            for t in st.targets:
                add(t, st.value, st)
        elif isinstance(st, ast.AnnAssign):
            if st.value is not None:
                add(st.target, st.value, st)
        elif isinstance(st, ast.AugAssign):
            add(st.target, None, st)
        elif isinstance(st, (ast.For, ast.AsyncFor)):
            add(st.target, None, st)
        elif isinstance(st, (ast.With, ast.AsyncWith)):
            for it in st.items:
                if it.optional_vars is not None:
                    add(it.optional_vars, None, st)
    for n in body_walk(fn):
        if isinstance(n, ast.NamedExpr):
            out.setdefault(n.target.id, []).append((FuncView.of(fn).stmt_of(n), n.value))
    return out


def _atoms(e, pol, out):
    """Split a test that holds with polarity `pol` into the atomic (expression, polarity) facts it implies: negations
    pushed inwards, `a and b` holding / `a or b` failing split (also spelled all([..]) / any([..])), bool(x) is x."""
    while True:
        if isinstance(e, ast.UnaryOp) and isinstance(e.op, ast.Not):
            e, pol = e.operand, not pol
        elif isinstance(e, ast.Call) and dotted(e.func) == "bool" and len(e.args) == 1 and not e.keywords:
            e = e.args[0]
        else:
            break
    if isinstance(e, ast.BoolOp) and isinstance(e.op, ast.And if pol else ast.Or):
        for v in e.values:
            _atoms(v, pol, out)
        return
    if isinstance(e, ast.Call) and dotted(e.func) == ("all" if pol else "any") and len(e.args) == 1 and isinstance(e.args[0], (ast.List, ast.Tuple)):
        for v in e.args[0].elts:
            _atoms(v, pol, out)
        return
    out.append((e, pol))


def _split(f, test, pol):
    out = []
    _atoms(_inl(f, test), pol, out)
    return out


def _resolve(facts):
    """Unit resolution on the facts: `a or b` holding with `a` known to fail yields b; `a and b` failing with `a` known
    to hold yields not b.  (Facts are compared by their normalised text.)"""
    facts = list(facts)
    known = {(src(e), pol) for e, pol in facts}

    def holds(v, pol):
        at = []
        _atoms(v, pol, at)
        return all((src(e), p) in known for e, p in at)

    for _round in range(4):
        new = []
        for e, pol in facts:
            if isinstance(e, ast.BoolOp) and isinstance(e.op, ast.Or if pol else ast.And):
                rest = [v for v in e.values if not holds(v, not pol)]
                if len(rest) == 1:
                    at = []
                    _atoms(rest[0], pol, at)
                    new += [(x, p) for x, p in at if (src(x), p) not in known]
        if not new:
            break
        for x, p in new:
            known.add((src(x), p))
        facts += new
    return facts


def _facts(ctx, f, node):
    """Atomic (expression, polarity) facts that hold whenever the statement of `node` executes: the tests of the branch
    edges that dominate it, temporaries inlined."""
    out = []
    for _t, pol, test in dominating_conditions(ctx, f, node):
        _atoms(_inl(f, test), pol, out)
    return out


def _tv(e, atom):
    """Three-valued evaluation of a test; `atom(expr)` decides the leaves (True / False / None)."""
    if isinstance(e, ast.Constant):
        return bool(e.value)
    if isinstance(e, ast.UnaryOp) and isinstance(e.op, ast.Not):
        v = _tv(e.operand, atom)
        return None if v is None else not v
    if isinstance(e, ast.Call) and dotted(e.func) == "bool" and len(e.args) == 1 and not e.keywords:
        return _tv(e.args[0], atom)
    vals = None
    if isinstance(e, ast.BoolOp):
        vals, conj = [_tv(v, atom) for v in e.values], isinstance(e.op, ast.And)
    elif isinstance(e, ast.Call) and dotted(e.func) in ("any", "all") and len(e.args) == 1 and isinstance(e.args[0], (ast.List, ast.Tuple)):
        vals, conj = [_tv(v, atom) for v in e.args[0].elts], dotted(e.func) == "all"
    if vals is not None:
        if conj:
            return False if any(v is False for v in vals) else True if all(v is True for v in vals) else None
        return True if any(v is True for v in vals) else False if all(v is False for v in vals) else None
    if isinstance(e, ast.IfExp):
        t = _tv(e.test, atom)
        a, b = _tv(e.body, atom), _tv(e.orelse, atom)
        return a if t is True else b if t is False else a if a == b else None
    return atom(e)


def _spec(ctx, f, atom, skip=()):
    """CFG of f with the branch edges removed that are infeasible under `atom` (tests are looked at with their
    temporaries inlined); the test statements in `skip` are left alone."""
    cfg = ctx.cfg(f)
    c = copy.copy(cfg)
    c.g = cfg.g.copy()
    c._idom = None
    c._ipdom = None
    used = []
    for n, st in cfg.stmt.items():
        if isinstance(st, (ast.If, ast.While)) and not any(st is x for x in skip):
            v = _tv(st.test, atom)
            if v is None:
                v = _tv(_inl(f, st.test), atom)
            if v is None:
                continue
            used.append(st)
            dead = cfg.edge_node(st, "false" if v else "true")
            if c.g.has_edge(n, dead):
                c.g.remove_edge(n, dead)
    c.used_tests = used
    return c


def _raise_class(f, r):
    """Class name of the exception a raise statement raises (through a temporary holding the instance)."""
    e = r.exc
    if e is None:
        return None
    e = _inl(f, e)
    return dotted(e.func) if isinstance(e, ast.Call) else dotted(e)


def _strip_encode(e):
    """(inner expression, number of str->bytes UTF-8 encodings peeled off): x.encode(), x.encode('utf-8'),
    str.encode(x), bytes(x, 'utf-8')."""
    n = 0
    while isinstance(e, ast.Call):
        d = dotted(e.func)
        enc = [a for a in e.args[1:]] if d in ("bytes", "str.encode") else list(e.args)
        enc += [k.value for k in e.keywords if k.arg == "encoding"]
        utf8 = all(isinstance(_c(a), str) and _c(a).lower().replace("-", "").replace("_", "") == "utf8" for a in enc) and not [k for k in e.keywords if k.arg != "encoding"]
        if isinstance(e.func, ast.Attribute) and e.func.attr == "encode" and d != "str.encode" and len(e.args) <= 1 and utf8:
            e, n = e.func.value, n + 1
        elif d == "str.encode" and 1 <= len(e.args) <= 2 and utf8:
            e, n = e.args[0], n + 1
        elif d == "bytes" and len(e.args) + len(e.keywords) == 2 and len(e.args) >= 1 and utf8:
            e, n = e.args[0], n + 1
        else:
            break
    return e, n


def _strip_decode(e):
    n = 0
    while isinstance(e, ast.Call) and isinstance(e.func, ast.Attribute) and e.func.attr == "decode" and not e.keywords and (
            not e.args or (len(e.args) == 1 and isinstance(_c(e.args[0]), str) and _c(e.args[0]).lower().replace("-", "") == "utf8")):
        e, n = e.func.value, n + 1
    return e, n


def _setting_key(expr):
    """The 'SETTING_X' key of the `<config>.settings[...]` subscript inside an expression (through list()/copy
    wrappers); None if there is not exactly one."""
    keys = []
    for n in ast.walk(expr):
        if isinstance(n, ast.Subscript) and isinstance(_c(n.slice), str) and (dotted(n.value) or "").split(".")[-1] == "settings":
            keys.append(_c(n.slice))
    return keys[0] if len(set(keys)) == 1 else None


def _mentions_attr(e, attr, bases):
    return any(isinstance(n, ast.Attribute) and n.attr == attr and dotted(n.value) in bases for n in ast.walk(e))


def _is_opaque(ctx, f, n):
    """Is call n one whose result this module cannot see through: a package function (a helper the normaliser could not
    inline) or something unresolvable (methods of literals excepted)?"""
    if isinstance(n.func, ast.Attribute) and isinstance(n.func.value, (ast.Constant, ast.JoinedStr)):
        return False
    cal = _callee(ctx, f, n)
    return cal is None or cal.kind in ("func", "unresolved")


def _has_opaque_call(ctx, f, e):
    """Could the value of the expression come from code this rule does not see?"""
    return any(isinstance(n, ast.Call) and _is_opaque(ctx, f, n) for n in ast.walk(e))


def run(ctx):
    rep = ctx.rep
    rep.explanation = (
        "Static analysis of the routing/binding structure in c2.py and client.py: every exit of get_transform_for_http "
        "with the branch conditions that dominate it (verb equality AND URI prefix; response -> response transform; "
        "otherwise raise ValueError, never None); the setting each transform/verb/URI attribute of C2Http is built from; "
        "dominance of the key-material validation over the key attributes; the transforms, keys and framing the client "
        "uses to build requests vs. the ones the decoder uses; completeness of the router (a request with the verb and URI "
        "prefix of a route reaches that route's transform whatever the other route's verb/URI tests say - the verbs may be "
        "equal - and a response reaches the response transform); the flow of every field of the request the client's transform "
        "returned (method, uri, params, headers, body) into the call that sends it; the cuts parse_raw_http makes (body = everything "
        "after the first blank line, header name / value = the text before / everything after the first `: ` of the line); "
        "recover's append / prepend steps remove the literal by position (no strip-set / wrong-occurrence / replace cut on the arbitrary "
        "payload); the decoder derives and stores the session keys from freshly decrypted metadata whenever either default key is "
        "missing (private key plus only one of the two keys is sufficient key material); nothing replaces or removes an entry of the "
        "headers / params of the transformed request between the transform call and the sending call (the transform performs the profile's "
        "`header` / `parameter` placements under free names - client defaults belong into the initial request); "
        "the decoder yields the metadata of a check-in on every path, whether the encrypted blob is already in its metadata cache or not "
        "(a repeated check-in / a second pass decodes to the same packets); the uri parse_raw_http hands to the router is an untransformed "
        "selection of the start line, as the configured URI prefixes it is compared with are kept verbatim. "
        "Whole-session histories are not decided."
    )
    rep.not_decided = ["whole-session decoding over all interleavings", "metadata_cache / beacon_keys evolution over time (R14 only asks that a cached blob is still yielded, not that the cached value is the right one)", "packet contents",
                       "which transform is chosen for a request that matches both request routes (same verb, one URI a prefix of the other)",
                       "what the HTTP client library emits for the arguments it is given (header order, encoding of the query) and how the peer captures it",
                       "the splitting of the header block into lines and of the start line into its three parts",
                       "how many bytes recover's append / prepend slices remove (C04.R5, imported as R6, judges the slice bounds; R11 only excludes content-dependent cuts)",
                       "changes of the scalar fields (uri, body, method) of the transformed request inside the arguments of the sending call (R9 only asks that they are read; R13 judges the header / parameter containers)",
                       "`keys = keys or self.beacon_keys` is evaluated before the derivation: packets in the very message that carries the metadata use the old keys"]
    rep.trusted_base = [
        "CPython ast", "networkx dominators",
        "named assumptions of R3 (key material truthy/falsy; key not None with len != 16) decide only `x`, `x is (not) None` and `len(x) ==/!= 16` tests - a truthy value is not None",
        "lemma: str(n), '%d' % n, '{}'.format(n), f'{n}', b'%d' % n of an int n are its decimal digits; UTF-8, ASCII and Latin-1 encode them to the same bytes (recognised structurally)",
        "lemma: x.encode(), x.encode('utf-8'), str.encode(x), bytes(x, 'utf-8') are the same str->bytes conversion",
        "named assumptions of R8 (the message is a HttpRequest with the verb and URI prefix of one route while the other route's verb / prefix test fails; "
        "the message is a HttpResponse) decide only isinstance tests on the message, `method ==/!= <verb attribute>` and `uri.startswith(<URI attribute>)`; "
        "every such assignment is realisable since verbs and URIs are free profile strings",
        "lemma: a parsed message is not bytes/bytearray/memoryview/str; HttpDataTransform defines neither __bool__ nor __len__ (checked), so a transform is truthy and not None",
        "R9: the call that sends the request is the non-package call with a used result that receives the most fields of the transformed request; "
        "what the HTTP library does with its arguments is not analysed",
        "lemma (R10): the documented result shapes of partition/rpartition/split/rsplit/find/rfind on str/bytes - partition(sep)[2] and split(sep, 1)[1] are "
        "everything after the FIRST sep, rpartition/rsplit(sep, 1) cut at the LAST sep, element i >= 1 of an unlimited split is a piece between two separators",
        "R10: a header name contains no `: ` and the message head no blank line (HTTP framing), so the first separator is the framing one; "
        "header values and the body are payload and may contain the separator",
        "R11: the per-step path walker of rules.c04 (`_Side`: step name specialised per literal, everything else symbolic) and the lemmas strip-set "
        "(bytes.strip/lstrip/rstrip(s) treat s as a set of byte values), affix (removeprefix/removesuffix take exactly the affix off) and occurrence "
        "(in p + s the last occurrence of s is the appended one, in s + p the first the prepended one); the payload ranges over all byte strings, "
        "the literal over all non-empty profile strings",
        "named assumptions of R12 (default aes_key / hmac_key present or missing, at least one missing) decide only `self.beacon_keys.<k>`, `<k> is/== None` and "
        "`None in (<k>, ..)` tests; a validated key is None or 16 bytes (R3), and the constructor accepts an RSA private key with any subset of the two keys",
        "R13: documented mapping semantics - in {**m, k: v}, m | o, dict(m, **kw), m.update(o), m |= o the later / right / keyword entries win, m.setdefault never "
        "replaces an entry; header / parameter names of a placement are free profile strings, so any fixed name written after the transform is some profile's placement; "
        "external callees (httpx, logging) are assumed not to modify the request they are given",
        "named assumptions of R14 (the message carries a truthy metadata blob, self.priv is present, the blob is / is not yet a key of the mapping the decoder "
        "fills entry-wise) decide only the blob, self.priv, `<blob> [not] in self.<cache>` and `self.<cache>.get(<blob>)` [is None]; both cache states are realisable "
        "(first check-in; repeated check-in or second pass); lemma: `return <value>` in a generator yields nothing; exceptional exits are not judged",
        "R15: the tables of sub-sequence selections (split/partition/strip family, urlsplit/urlparse components, slices), codec re-codings (decode/encode) and of "
        "stdlib value transformations (unquote*/quote*, lower/upper/casefold.., replace/translate/re.sub, normpath..) with their documented semantics; which "
        "component is selected is judged by C16, not here",
        "R6/R7 are the obligations of rules.c04 / rules.c19.r5 (their trusted base applies)",
    ]
    r1(ctx)
    r2(ctx)
    r3(ctx)
    r4(ctx)
    r5(ctx)
    r8(ctx)
    r9(ctx)
    r10(ctx)
    r11(ctx)
    r12(ctx)
    r13(ctx)
    r14(ctx)
    r15(ctx)
    # the traffic decoder is only as good as the transform layer it routes to: C04's obligations on
    # HttpDataTransform.transform/recover are necessary conditions of C07 as well
    from rules import c04

    ctx.import_obligations("R6", c04.run)
    # the client's check-in must be producible for every host: the byte cap on the metadata info string (C19.R5)
    from rules import c19

    ctx.import_obligations("R7", c19.r5)


# ---------------------------------------------------------------------------- R1: routing
_ROUTES = {
    "self.transform_get": {("is", "c2.HttpRequest"), ("verb", "self.get_verb"), ("prefix", "self.get_uris")},
    "self.transform_submit": {("is", "c2.HttpRequest"), ("verb", "self.submit_verb"), ("prefix", "self.submit_uri")},
    "self.transform_response": {("is", "c2.HttpResponse")},
}


def _message_pred(ctx, f, param):
    """Predicate: does an expression of f denote the routed message - the parameter, a (conditionally) parsed form of it
    or a local holding one of those?"""
    stores = _stores(f.node)
    active = set()

    def is_msg(e, depth=0):
        e = strip_cast(e)
        if depth > 8:
            return False
        if isinstance(e, ast.Name):
            if e.id in active:
                return True
            defs = stores.get(e.id, [])
            if e.id != param and not defs:
                return False
            active.add(e.id)
            try:
                return all(v is not None and is_msg(v, depth + 1) for _s, v in defs)
            finally:
                active.discard(e.id)
        if isinstance(e, ast.IfExp):
            return is_msg(e.body, depth + 1) and is_msg(e.orelse, depth + 1)
        if isinstance(e, ast.Call) and _fq(ctx, f, e) == "c2.parse_raw_http":
            b = _bind(ctx, f, e, ("data",))
            return b.get("data") is not None and is_msg(b["data"], depth + 1)
        if isinstance(e, ast.Call) and _is_opaque(ctx, f, e) and any(is_msg(a, depth + 1) for a in list(e.args) + [k.value for k in e.keywords]):
            # a helper of the package applied to the message (not inlined by the normaliser): its result is taken to be
            # the message in another form; what the helper does is not seen
            is_msg.via_helper = True
            return True
        return False

    is_msg.via_helper = False
    return is_msg


def _route_fact(ctx, f, is_msg, e, pol):
    """Classify an atomic fact about the message: ('is'|'isnot', class), ('verb', attribute), ('prefix', attribute)."""
    if isinstance(e, ast.Call) and dotted(e.func) == "isinstance" and len(e.args) == 2 and is_msg(e.args[0]):
        cs = _cls_fq(ctx, f, e.args[1])
        if cs and len(cs) == 1:
            return ("is" if pol else "isnot", next(iter(cs)))
        return None
    for l, op, r in compare_parts(e):
        if isinstance(op, ast.Eq if pol else ast.NotEq) and isinstance(l, ast.Attribute) and l.attr == "method" and is_msg(l.value):
            d = dotted(r)
            if d and d.startswith("self."):
                return ("verb", d)
    if pol and isinstance(e, ast.Call) and isinstance(e.func, ast.Attribute) and e.func.attr == "startswith" and len(e.args) == 1 and not e.keywords:
        u = e.func.value
        if isinstance(u, ast.Attribute) and u.attr == "uri" and is_msg(u.value):
            d = dotted(e.args[0])
            if d and d.startswith("self."):
                return ("prefix", d)
    return None


def _exit_values(ctx, f, r):
    """[(value expression, atomic facts)] alternatives of what return statement r returns: conditional expressions and
    locals assigned on several paths are followed back to the values they select, each with the facts it is selected
    under."""
    ps = set(params(f.node))
    out = []

    def nonempty_at(name):
        for t, pol, _n in dominating_conditions(ctx, f, r):
            if (pol and t in (name, f"{name} is not None")) or (not pol and t == f"{name} is None"):
                return True
        return False

    def expand(e, facts, at, depth):
        e = strip_cast(e)
        if depth <= 6 and isinstance(e, ast.IfExp):
            expand(e.body, facts + _split(f, e.test, True), at, depth + 1)
            expand(e.orelse, facts + _split(f, e.test, False), at, depth + 1)
            return
        if depth <= 6 and isinstance(e, ast.Name) and e.id not in ps:
            rd = reaching_defs(ctx, f, e.id, at)
            if rd and all(v is not None and isinstance(s, ast.stmt) for s, v in rd):
                for st, v in rd:
                    if isinstance(v, ast.Constant) and not v.value and at is r and nonempty_at(e.id):
                        continue  # the placeholder default cannot be what is returned here
                    expand(v, facts + _facts(ctx, f, st), st, depth + 1)
                return
        out.append((e, facts))

    if r.value is None:
        out.append((ast.Constant(value=None), _facts(ctx, f, r)))
    else:
        expand(r.value, _facts(ctx, f, r), r, 0)
    return out


def r1(ctx):
    f = ctx.repo.func("c2.C2Http.get_transform_for_http")
    cfg = ctx.cfg(f)
    is_msg = _message_pred(ctx, f, params(f.node)[1])
    seen = set()
    unknown = False
    for r in cfg.return_stmts():
        for v, facts in _exit_values(ctx, f, r):
            d = dotted(v)
            got = {x for x in (_route_fact(ctx, f, is_msg, e, pol) for e, pol in _resolve(facts)) if x is not None}
            shown = sorted(f"{k} {a}" for k, a in got)
            if d in _ROUTES:
                seen.add(d)
                missing = _ROUTES[d] - got
                ctx.ob("R1", "EXIT", f, "return " + d, not missing, f"returned under {shown}; missing required conditions {sorted(f'{k} {a}' for k, a in missing)}", r)
            elif isinstance(v, ast.Call) and _fq(ctx, f, v) == f.fq and any(is_msg(a) for a in list(v.args) + [k.value for k in v.keywords]):
                # the router re-entered on (the parsed form of) its own message: whatever it returns there is an exit
                # judged here
                ctx.ob("R1", "EXIT", f, "return <router re-entered>", True, f"returns {src(v)}: the router's own result for the same message", r, nontrivial=False)
            elif is_none(v) or (d is not None and d.startswith("self.")) or isinstance(v, ast.Constant):
                ctx.ob("R1", "EXIT", f, "return " + src(v), False, f"returns {src(v)}: not one of the three transforms (None/other would mis-route)", r)
            else:
                unknown = True
                ctx.undecided("R1", "EXIT", f, "return " + src(v), f"returns {src(v)}: the routed transform is not selected by branches this rule can follow", r)
    miss = sorted(set(_ROUTES) - seen)
    _emit(ctx, "R1", "EXIT", f, "all three routes", True if not miss else None if unknown else False, f"routes present: {sorted(seen)}" + (f"; not found: {miss}" if miss else ""))
    ctx.ob("R1", "EXIT", f, "falls off end", not cfg.falls_off_end(), "no path returns None implicitly" if not cfg.falls_off_end() else "a path falls off the end and returns None")
    rs = [r for r in cfg.raise_stmts() if r.exc is not None]
    ctx.ob("R1", "EXIT", f, "unrelated -> ValueError", bool(rs) and all(_raise_class(f, r) == "ValueError" for r in rs), f"raises {[_raise_class(f, r) for r in rs]} for unrelated messages")
    # bytes are parsed first
    ok = any(_fq(ctx, f, c) == "c2.parse_raw_http" and is_msg(c) for c in fn_calls(f.node))
    _emit(ctx, "R1", "AGREE", f, "parse_raw_http(bytes)", True if ok else None if is_msg.via_helper else False,
          "raw bytes are parsed with parse_raw_http" if ok else "no parse_raw_http(<message>) here" + ("; the message goes through a helper this rule does not see into" if is_msg.via_helper else ""))


# ---------------------------------------------------------------------------- R2: what the decoder is built from
def _single(f, stores, attr):
    """(verdict-so-far, inlined value) of the only store to attribute `attr`."""
    vs = stores.get(attr, [])
    if len(vs) != 1 or vs[0][1] is None:
        return len(vs), None
    return 1, _inl(f, vs[0][1])


def _key_sources(ctx, f, stores, names):
    """Where the values stored into the l-values `names` come from: 'param:<p>' for a constructor parameter,
    'derive:<i>' for element i of derive_aes_hmac_keys(..), '?' otherwise."""
    ps = set(params(f.node))
    out = set()
    for n in names:
        if n in ps:
            out.add("param:" + n)
        for _st, v in stores.get(n, []):
            v = _inl(f, v) if v is not None else None
            d = dotted(v) if v is not None else None
            if d in names:
                continue
            if d in ps:
                out.add("param:" + d)
            elif isinstance(v, ast.Subscript) and isinstance(_c(v.slice), int) and _fq(ctx, f, v.value) == "c2.derive_aes_hmac_keys":
                out.add(f"derive:{_c(v.slice)}")
            else:
                out.add("?")
    return out


def _aliases(ctx, f, stores, name):
    """l-values that hold the same value as `name` from some point on for the rest of the function: closure over plain
    copies `a = b` after which neither side is stored to again."""
    cfg = ctx.cfg(f)
    out = {name}
    changed = True
    while changed:
        changed = False
        for tgt, defs in stores.items():
            for st, v in defs:
                d = dotted(v) if v is not None else None
                if d is None or not cfg.has(st) or (tgt in out) == (d in out):
                    continue
                later = [s for x in (tgt, d) for s, _v in stores.get(x, []) if s is not st and cfg.has(s) and cfg.reaches(cfg.node(st), cfg.node(s))]
                if not later and not cfg.reaches(cfg.node(st), cfg.node(st)):
                    out |= {tgt, d}
                    changed = True
    return out


def _beacon_keys_ctor(ctx, f, stores):
    """(statement, {field: argument}) of the only construction of the default keys, else (None, None)."""
    vs = stores.get("self.beacon_keys", [])
    if len(vs) != 1 or vs[0][1] is None:
        return None, None
    v = _inl(f, vs[0][1])
    if not (isinstance(v, ast.Call) and _fq(ctx, f, v) == "c2.BeaconKeys"):
        return vs[0][0], None
    return vs[0][0], _bind(ctx, f, v)


def r2(ctx):
    f = ctx.repo.func("c2.C2Http.__init__")
    stores = _stores(f.node)
    want_t = {"self.transform_submit": ("SETTING_C2_POSTREQ", False, None), "self.transform_get": ("SETTING_C2_REQUEST", False, None),
              "self.transform_response": ("SETTING_C2_RECOVER", True, "output")}
    for a, (key, rev, build) in want_t.items():
        n, v = _single(f, stores, a)
        if v is None:
            _emit(ctx, "R2", "AGREE", f, a, False if n == 0 else None, f"{a} assigned {n} times (required: built once from {key})")
            continue
        if not (isinstance(v, ast.Call) and _fq(ctx, f, v) == "c2.HttpDataTransform"):
            _emit(ctx, "R2", "AGREE", f, a, None if _has_opaque_call(ctx, f, v) else False, f"{a} = {src(v)}: not a HttpDataTransform built here")
            continue
        b = _bind(ctx, f, v, ("steps", "reverse", "build"))
        if "**" in b or b.get("steps") is None:
            ctx.undecided("R2", "AGREE", f, a, f"arguments of {src(v)} cannot be bound to (steps, reverse, build)")
            continue
        got = (_setting_key(b["steps"]), _c(b.get("reverse")), _c(b.get("build")))
        got = (got[0], bool(got[1]) if isinstance(got[1], (bool, int)) or got[1] is None else got[1], got[2])
        if got[0] is None and _has_opaque_call(ctx, f, b["steps"]):
            ctx.undecided("R2", "AGREE", f, a, f"steps argument {src(b['steps'])}: the setting it is read from is not visible")
            continue
        ctx.ob("R2", "AGREE", f, a, got == (key, rev, build), f"built from (setting, reverse, build)={got}; required {(key, rev, build)}")
    want_s = {"self.submit_uri": "SETTING_SUBMITURI", "self.submit_verb": "SETTING_C2_VERB_POST", "self.get_verb": "SETTING_C2_VERB_GET"}
    for a, key in want_s.items():
        n, v = _single(f, stores, a)
        if v is None:
            _emit(ctx, "R2", "AGREE", f, a, False if n == 0 else None, f"{a} assigned {n} times (required: once, from {key})")
            continue
        inner, enc = _strip_encode(v)
        k = _setting_key(v)
        direct = isinstance(inner, ast.Subscript) and _setting_key(inner) is not None
        if k is None and _has_opaque_call(ctx, f, v):
            ctx.undecided("R2", "AGREE", f, a, f"{a} = {src(v)}: the setting it is read from is not visible")
        elif k == key and not direct and enc == 0:
            ctx.undecided("R2", "AGREE", f, a, f"{a} = {src(v)}: read from {k}, conversion to bytes not recognised")
        else:
            ctx.ob("R2", "AGREE", f, a, k == key and direct and enc == 1, f"{a} read from {k} (required {key}) and encoded to bytes={enc == 1}")
    n, v = _single(f, stores, "self.get_uris")
    if v is None:
        _emit(ctx, "R2", "AGREE", f, "self.get_uris", False if n == 0 else None, f"self.get_uris assigned {n} times")
    else:
        uris = _mentions_attr(v, "uris", ("bconfig", "self.bconfig"))
        is_tuple = isinstance(v, ast.Call) and dotted(v.func) == "tuple"
        encodes = any(isinstance(x, ast.Attribute) and x.attr == "encode" for x in ast.walk(v))
        if uris and is_tuple and encodes:
            verdict = True
        elif not uris and _has_opaque_call(ctx, f, v):
            verdict = None
        elif uris and encodes and not is_tuple and not isinstance(v, (ast.List, ast.ListComp, ast.GeneratorExp, ast.Set, ast.SetComp)) and not (isinstance(v, ast.Call) and dotted(v.func) in ("list", "set", "frozenset", "map", "filter")):
            verdict = None
        else:
            verdict = False
        _emit(ctx, "R2", "AGREE", f, "self.get_uris", verdict, f"get URIs are tuple(<encoded> bconfig.uris) [from uris={uris}, tuple={is_tuple}, encoded={encodes}]: {src(v)}")
    st, b = _beacon_keys_ctor(ctx, f, stores)
    if b is None or "**" in b:
        _emit(ctx, "R2", "AGREE", f, "self.beacon_keys", False if st is None else None, "default keys: construction BeaconKeys(aes_key, hmac_key) " + ("missing or ambiguous" if st is None else "not located in the stored value"))
    else:
        detail, verdict = [], True
        for i, (fld, par) in enumerate((("aes_key", "aes_key"), ("hmac_key", "hmac_key"))):
            d = dotted(b.get(fld)) if b.get(fld) is not None else None
            if d is None:
                verdict = False if is_none(b.get(fld)) or b.get(fld) is None else (None if verdict else verdict)
                detail.append(f"{fld}={src(b.get(fld))}")
                continue
            srcs = _key_sources(ctx, f, stores, _aliases(ctx, f, stores, d))
            need = {"param:" + par, f"derive:{i}"}
            if not need <= srcs:
                verdict = False if "?" not in srcs or verdict is False else None
            detail.append(f"{fld}={d} <- {sorted(srcs)}")
        _emit(ctx, "R2", "AGREE", f, "self.beacon_keys", verdict, "default keys built from the validated key values (constructor argument or the pair derived from aes_rand, in that order): " + "; ".join(detail))
    n, v = _single(f, stores, "self.priv")
    ctx.ob("R2", "AGREE", f, "self.priv", v is not None and dotted(strip_cast(v)) == "rsa_private_key", f"private key stored from its parameter: {src(v) if v is not None else None}")


# ---------------------------------------------------------------------------- R3: key material validation
def _truth_atom(truthy):
    """Leaf evaluator under truthiness assumptions on dotted names (a truthy value is not None)."""
    def atom(e):
        d = dotted(e)
        if d in truthy:
            return truthy[d]
        if isinstance(e, ast.Compare) and len(e.ops) == 1 and isinstance(e.ops[0], (ast.Is, ast.IsNot)) and is_none(e.comparators[0]):
            if truthy.get(dotted(e.left)) is True:
                return isinstance(e.ops[0], ast.IsNot)
        return None

    return atom


def _badlen_atom(names):
    """Leaf evaluator under the assumption that the l-values `names` hold a key that is not None and whose length is
    not KEY_LEN (nothing else is known about it - it may be empty)."""
    def atom(e):
        if isinstance(e, ast.Compare) and len(e.ops) == 1 and isinstance(e.ops[0], (ast.Is, ast.IsNot)) and is_none(e.comparators[0]) and dotted(e.left) in names:
            return isinstance(e.ops[0], ast.IsNot)
        for l, op, r in compare_parts(e):
            if isinstance(l, ast.Call) and dotted(l.func) == "len" and len(l.args) == 1 and dotted(l.args[0]) in names and _c(r) == KEY_LEN and isinstance(e, ast.Compare) and len(e.ops) == 1:
                if isinstance(op, ast.Eq):
                    return False
                if isinstance(op, ast.NotEq):
                    return True
        return None

    return atom


def _len_tests(f):
    """[(test statement, dotted subject)] of every branch whose test compares len(<l-value>) with KEY_LEN."""
    out = []
    for st in statements(f.node):
        if isinstance(st, (ast.If, ast.While)):
            for n in ast.walk(_inl(f, st.test)):
                for l, _op, r in compare_parts(n):
                    if isinstance(l, ast.Call) and dotted(l.func) == "len" and len(l.args) == 1 and _c(r) == KEY_LEN:
                        out.append((st, dotted(l.args[0])))
    return out


def r3(ctx):
    f = ctx.repo.func("c2.C2Http.__init__")
    cfg = ctx.cfg(f)
    stores = _stores(f.node)
    key_stores = [cfg.node(s) for s, _v in stores.get("self.beacon_keys", []) if cfg.has(s)]
    # both keys -> raise; none of the three -> raise
    for label, assume in (("aes_rand and aes_key", {"aes_rand": True, "aes_key": True}),
                          ("no key material", {"aes_key": False, "aes_rand": False, "rsa_private_key": False})):
        spec = _spec(ctx, f, _truth_atom(assume))
        leaks = spec.reaches(ENTRY, EXIT)
        # and no key attribute is assigned on the way to the raise
        reached = [n for n in key_stores if spec.reaches(ENTRY, n)]
        ctx.ob("R3", "DOM", f, f"reject: {label}", not leaks and not reached, f"with {assume} the constructor can complete={leaks}; builds beacon_keys={bool(reached)}")
        bad = [_raise_class(f, st) for n, st in cfg.stmt.items() if isinstance(st, ast.Raise) and spec.reaches(ENTRY, n) and _raise_class(f, st) != "ValueError"]
        ctx.ob("R3", "EXIT", f, f"reject: {label} -> ValueError", not bad, f"other exception classes raised on this path: {bad}", nontrivial=False)
    # a key of the wrong length never reaches the default keys: under "the value is not None and its length is not 16"
    # the construction of beacon_keys is unreachable, counting only the length tests made on the final value
    st_keys, b = _beacon_keys_ctor(ctx, f, stores)
    tests = _len_tests(f)
    known = set()
    per = {}
    for attr, fld in (("self.aes_key", "aes_key"), ("self.hmac_key", "hmac_key")):
        d = dotted(b.get(fld)) if b and b.get(fld) is not None else None
        per[attr] = (d, _aliases(ctx, f, stores, d) if d else set())
        known |= per[attr][1]
    for attr, (d, names) in per.items():
        text = f"len({attr}) == 16"
        if st_keys is None or not cfg.has(st_keys):
            ctx.ob("R3", "DOM", f, text, False, "the default keys are not constructed (exactly once) in the constructor")
            continue
        if d is None:
            ctx.undecided("R3", "DOM", f, text, "the value passed to BeaconKeys for this key is not an l-value this rule can follow")
            continue
        # a test made before a later store to the key says nothing about the value that ends up in beacon_keys
        stale = [st for st in statements(f.node) if isinstance(st, (ast.If, ast.While)) and cfg.has(st)
                 and any(cfg.has(s) and cfg.reaches(cfg.node(st), cfg.node(s)) for n in names for s, v in stores.get(n, []) if v is None or dotted(v) not in names)]
        spec = _spec(ctx, f, _badlen_atom(names), skip=stale)
        ok = not spec.reaches(ENTRY, cfg.node(st_keys))
        early = [st for st, subj in tests if subj in names and any(st is x for x in stale)]
        foreign = [subj for _st, subj in tests if subj not in known]
        detail = f"key value {d} (same value as {sorted(names)}): with a non-None value of length != {KEY_LEN} the construction of beacon_keys is reachable={not ok}"
        if early:
            detail += f"; {len(early)} length test(s) precede a later store to the key (the derived key is not tested)"
        handed = [src(c)[:50] for c in fn_calls(f.node) if getattr(_callee(ctx, f, c), "kind", None) == "func" and _fq(ctx, f, c) != "c2.derive_aes_hmac_keys"
                  and any(dotted(a) in names for a in list(c.args) + [k.value for k in c.keywords])]
        if not ok and not early and not [1 for _st, subj in tests if subj in names] and (foreign or handed):
            ctx.undecided("R3", "DOM", f, text, detail + (f"; length tests exist on {sorted(set(map(str, foreign)))} which this rule cannot relate to the key" if foreign else "")
                          + (f"; the key is handed to {handed}, which this rule does not see into" if handed else ""))
        else:
            ctx.ob("R3", "DOM", f, text, ok, detail)


# ---------------------------------------------------------------------------- R4: client vs decoder
def _same_value(f, stores, e, attr):
    """Does expression e of f denote the value of attribute `attr` (the attribute itself, or - in the function that
    stores it once - the very expression stored into it)?"""
    if e is None:
        return False
    e = strip_cast(e)
    if dotted(e) == attr:
        return True
    vs = stores.get(attr, [])
    if len(vs) == 1 and vs[0][1] is not None:
        return src(_inl(f, e)) == src(_inl(f, vs[0][1]))
    return False


def _decimal_bytes(e, subject):
    """Is e the ASCII decimal representation, as bytes, of the integer l-value `subject`?  True / False (a different
    located conversion) / None (shape not understood)."""
    def subj(x):
        if isinstance(x, ast.Tuple) and len(x.elts) == 1:
            x = x.elts[0]
        if isinstance(x, ast.Call) and dotted(x.func) == "int" and len(x.args) == 1 and not x.keywords:
            x = x.args[0]
        return dotted(x) == subject

    if isinstance(e, ast.BinOp) and isinstance(e.op, ast.Mod) and isinstance(_c(e.left), bytes) and subj(e.right):
        return _c(e.left) in (b"%d", b"%i", b"%u")  # any other bytes format of the id is located and not decimal
    s, n = _strip_encode(e)
    if n == 0 and isinstance(e, ast.Call) and isinstance(e.func, ast.Attribute) and e.func.attr == "encode" and len(e.args) == 1 and _c(e.args[0]) in ("ascii", "latin-1", "latin1"):
        s, n = e.func.value, 1  # digits encode identically
    if n == 1:
        if isinstance(s, ast.Call) and dotted(s.func) == "str" and len(s.args) == 1 and not s.keywords and subj(s.args[0]):
            return True
        if isinstance(s, ast.JoinedStr) and len(s.values) == 1 and isinstance(s.values[0], ast.FormattedValue) and subj(s.values[0].value):
            fv = s.values[0]
            spec = _c(fv.format_spec.values[0]) if fv.format_spec is not None and len(fv.format_spec.values) == 1 else ("" if fv.format_spec is None else None)
            return fv.conversion in (-1, 115, 114) and spec in ("", "d")
        if isinstance(s, ast.BinOp) and isinstance(s.op, ast.Mod) and _c(s.left) in ("%d", "%s", "%i", "%u") and subj(s.right):
            return True
        if isinstance(s, ast.Call) and isinstance(s.func, ast.Attribute) and s.func.attr == "format" and _c(s.func.value) in ("{}", "{:d}", "{0}", "{0:d}") and len(s.args) == 1 and subj(s.args[0]):
            return True
        if isinstance(s, ast.Call) and isinstance(s.func, ast.Name) and s.func.id != "str" and len(s.args) >= 1 and subj(s.args[0]):
            return False  # hex()/oct()/bin()/repr()/chr() ... of the id: located, not decimal
        if isinstance(s, (ast.JoinedStr, ast.BinOp)) or (isinstance(s, ast.Call) and isinstance(s.func, ast.Attribute) and s.func.attr == "format"):
            return False if any(dotted(x) == subject for x in ast.walk(s)) else None
    if isinstance(e, ast.Call) and isinstance(e.func, ast.Attribute) and e.func.attr == "to_bytes" and dotted(e.func.value) == subject:
        return False
    return None


def _transform_calls(ctx, f, stores):
    """[(call, inlined call, transform attribute)] of the `<c2http>.<attr>.transform(..)` calls of f; second result: were
    there other `.transform(..)` calls?"""
    out, other = [], False
    for c in fn_calls(f.node):
        ic = _inl(f, c)
        if isinstance(ic, ast.Call) and isinstance(ic.func, ast.Attribute) and ic.func.attr == "transform":
            recv = ic.func.value
            if isinstance(recv, ast.Attribute) and _same_value(f, stores, recv.value, "self.c2http"):
                out.append((c, ic, recv.attr))
            else:
                other = True
        elif isinstance(ic, ast.Call) and _is_opaque(ctx, f, ic) and any(
                isinstance(a, ast.Attribute) and a.attr.startswith("transform_") and _same_value(f, stores, a.value, "self.c2http") for a in list(ic.args) + [k.value for k in ic.keywords]):
            other = True  # a transform of the decoder is handed to a helper that is not seen into
    return out, other


def _request_ctor(ctx, f, e):
    """(function, HttpRequest(..) call) the `request` argument of a transform call denotes: a constructor call in place or
    the single returned value of the package method that is called."""
    e = _inl(f, e)
    if not isinstance(e, ast.Call):
        return None, None
    fq = _fq(ctx, f, e)
    if fq == "c2.HttpRequest":
        return f, e
    cal = _callee(ctx, f, e)
    if cal is not None and cal.kind == "func" and cal.func is not None:
        g = cal.func
        rets = [s for s in statements(g.node) if isinstance(s, ast.Return)]
        if len(rets) == 1 and rets[0].value is not None:
            v = _inl(g, rets[0].value)
            if isinstance(v, ast.Call) and _fq(ctx, g, v) == "c2.HttpRequest":
                return g, v
        return g, None
    return None, None


def _check_initial_request(ctx, owner, g, rq, verb, uri, uri_text):
    """The initial request of a client message: method is the client's verb attribute, uri the bytes of its URI
    attribute (`uri_text`: the client keeps that attribute as text / as bytes / unknown)."""
    text = "HttpRequest(method, uri)"
    if g is None:
        ctx.undecided("R4", "AGREE", owner, text, "the initial request passed to transform(...) is not a call this rule can follow")
        return
    if rq is None:
        ctx.undecided("R4", "AGREE", g, text, f"{g.qualname} does not return a HttpRequest(...) built in place")
        return
    b = _bind(ctx, g, rq)
    m, u = b.get("method"), b.get("uri")
    if "**" in b or m is None or u is None:
        ctx.undecided("R4", "AGREE", g, text, f"arguments of {src(rq)} cannot be bound to (method, uri)")
        return
    m_ok = dotted(strip_cast(m)) == verb
    inner, enc = _strip_encode(u)
    u_ok = dotted(strip_cast(inner)) == uri
    # the URI attribute is text in the client iff the request encodes it
    par = uri_text is None or enc == (1 if uri_text else 0)
    ctx.ob("R4", "AGREE", g, text, m_ok and u_ok and par, f"initial request uses {verb} (found {src(m)}) and {uri} as bytes (found {src(u)}; str/bytes conversions consistent={par})", rq)


_CLIENT_ATTRS = {"self.get_verb": ("get_verb", "SETTING_C2_VERB_GET"), "self.submit_verb": ("submit_verb", "SETTING_C2_VERB_POST"),
                 "self.submit_uri": ("submit_uri", "SETTING_SUBMITURI")}


def _client_attr(ctx, run, run_stores, a):
    """(verdict, kept as text?, shown) for a verb/URI attribute of the client: it is the decoder's attribute of the same
    role (or read from the very setting the decoder builds that attribute from)."""
    attr, key = _CLIENT_ATTRS[a]
    n, v = _single(run, run_stores, a)
    if v is None:
        return (False if n == 0 else None), None, f"<{n} stores>"
    for cand in (run_stores[a][0][1], v):
        inner, dec = _strip_decode(strip_cast(cand))
        if isinstance(inner, ast.Attribute) and _same_value(run, run_stores, inner.value, "self.c2http"):
            return inner.attr == attr and dec <= 1, dec == 1, src(v)
    inner, enc = _strip_encode(v)
    if isinstance(inner, ast.Subscript) and dotted(inner.value) in ("bconfig.settings", "self.bconfig.settings") and isinstance(_c(inner.slice), str):
        return _c(inner.slice) == key and enc <= 1, enc == 0, src(v)
    mentions = any(isinstance(x, ast.Attribute) and x.attr in ("get_verb", "submit_verb", "submit_uri", "settings") for x in ast.walk(v))
    return (None if _has_opaque_call(ctx, run, v) and not mentions else False), None, src(v)


def _client_message(ctx, f, stores, route, text, payload_check, verb, uri, uri_text, detail_ok):
    calls, other = _transform_calls(ctx, f, stores)
    if not calls:
        if other:
            ctx.undecided("R4", "AGREE", f, text, "the request is transformed by a call whose receiver is not an attribute of self.c2http this rule can follow (or inside a helper that is not seen into)")
        else:
            ctx.ob("R4", "AGREE", f, text, False, f"no request is built with self.c2http.{route}.transform(..)")
        _check_initial_request(ctx, f, None, None, verb, uri, uri_text)
        return
    if any(a != route for _c0, _i, a in calls):
        ctx.ob("R4", "AGREE", f, text, False, f"request built with {[a for _c0, _i, a in calls]} (required: self.c2http.{route})", calls[0][0])
        return
    if len(calls) != 1:
        ctx.undecided("R4", "AGREE", f, text, f"{len(calls)} requests are built with self.c2http.{route}: which one is sent is not followed", calls[0][0])
        return
    c, ic, _a = calls[0]
    b = _bind(ctx, f, ic, ("c2data", "request"))
    data, rq = b.get("c2data"), b.get("request")
    if "**" in b or data is None:
        ctx.undecided("R4", "AGREE", f, text, f"arguments of {src(ic)} cannot be bound to (c2data, request)", c)
        return
    verdict, why = payload_check(data)
    g, ctor = (None, None) if rq is None or is_none(rq) else _request_ctor(ctx, f, rq)
    if rq is None or is_none(rq):
        verdict, why = False, why + "; no initial request (verb/URI) passed"
    _emit(ctx, "R4", "AGREE", f, text, verdict, detail_ok + ": " + why, c)
    if rq is not None and not is_none(rq):
        _check_initial_request(ctx, f, g, ctor, verb, uri, uri_text)


def _decoder_binding(ctx, run, run_stores):
    """(verdict, detail): the client's decoder is built from the client's configuration and session keys."""
    n, v = _single(run, run_stores, "self.c2http")
    text = "decoder built from the same configuration and the client's derived keys"
    if v is None or not (isinstance(v, ast.Call) and _fq(ctx, run, v) == "c2.C2Http"):
        return (None if v is not None and _has_opaque_call(ctx, run, v) else False), f"{text}: {src(v) if v is not None else None}"
    raw = run_stores["self.c2http"][0][1]
    raw = raw if isinstance(raw, ast.Call) else v
    b = _bind(ctx, run, v, ("bconfig", "aes_key", "hmac_key", "aes_rand", "rsa_private_key"))
    if "**" in b:
        return None, f"arguments of {src(v)} not visible"
    cfg_ok = b.get("bconfig") is not None and (dotted(b["bconfig"]) == "bconfig" or _same_value(run, run_stores, b["bconfig"], "self.bconfig"))
    by_keys = all(_same_value(run, run_stores, b.get(p), f"self.{p}") for p in ("aes_key", "hmac_key")) and (b.get("aes_rand") is None or is_none(b["aes_rand"]))
    # the client's keys are the two halves of sha256(aes_rand), which is what the decoder derives from aes_rand
    by_rand = _same_value(run, run_stores, b.get("aes_rand"), "self.aes_rand") and all(b.get(p) is None or is_none(b[p]) for p in ("aes_key", "hmac_key"))
    return cfg_ok and (by_keys or by_rand), f"decoder built from the same configuration={cfg_ok} and the client's derived keys={by_keys or by_rand}: {src(raw)}"


def r4(ctx):
    run = ctx.repo.func("client.HttpBeaconClient.run")
    run_stores = _stores(run.node)
    shared, shared_detail = _decoder_binding(ctx, run, run_stores)
    attrs = {a: _client_attr(ctx, run, run_stores, a) for a in _CLIENT_ATTRS}
    n, guri = _single(run, run_stores, "self.get_uri")
    # the check-in URI is one of the configured (text) URIs the decoder matches the encoded forms of
    get_uri_text = True if guri is not None and _mentions_attr(guri, "uris", ("bconfig", "self.bconfig")) and not any(isinstance(x, ast.Attribute) and x.attr == "encode" for x in ast.walk(guri)) else None

    # ---- check-in
    g = ctx.repo.func("client.HttpBeaconClient.get_task")
    gst = _stores(g.node)

    def get_payload(data):
        if not (isinstance(data, ast.Call) and _fq(ctx, g, data) in ("c2.C2Data", "c2.ClientC2Data")):
            return None, f"c2data argument {src(data)} is not a C2Data(..) built in place"
        db = _bind(ctx, g, data)
        m = db.get("metadata")
        if "**" in db:
            return None, "C2Data(**..) fields not visible"
        if m is None or is_none(m):
            return False, "the check-in carries no metadata"
        if not (isinstance(m, ast.Call) and _fq(ctx, g, m) == "c2.encrypt_metadata"):
            return (None if _has_opaque_call(ctx, g, m) else False), f"metadata field is {src(m)}, not encrypt_metadata(..)"
        mb = _bind(ctx, g, m)
        ok = dotted(mb.get("metadata") or ast.Constant(value=0)) == "self.metadata" and dotted(mb.get("public_key") or ast.Constant(value=0)) == "self.c2http.pub"
        return ok, f"metadata = encrypt_metadata({src(mb.get('metadata'))}, {src(mb.get('public_key'))}) (required: self.metadata, self.c2http.pub)"

    _client_message(ctx, g, gst, "transform_get", "GET built with transform_get", get_payload, "self.get_verb", "self.get_uri", get_uri_text,
                    "check-in uses self.c2http.transform_get and carries encrypt_metadata(self.metadata, server public key)")
    rec = []
    for c in fn_calls(g.node):
        ic = _inl(g, c)
        if isinstance(ic.func, ast.Attribute) and ic.func.attr in ("iter_recover_http", "recover_http"):
            rec.append(dotted(ic.func.value))
    _emit(ctx, "R4", "AGREE", g, "response decoded by c2http", (len(rec) == 1 and rec[0] == "self.c2http") if rec else False,
          f"the task response is decoded by the same C2Http instance (decoder calls on {rec})")

    # ---- callback
    s = ctx.repo.func("client.HttpBeaconClient.send_callback")
    sst = _stores(s.node)

    def post_payload(data):
        if not (isinstance(data, ast.Call) and _fq(ctx, s, data) in ("c2.C2Data", "c2.ClientC2Data")):
            return None, f"c2data argument {src(data)} is not a ClientC2Data(..) built in place"
        db = _bind(ctx, s, data)
        if "**" in db:
            return None, "ClientC2Data(**..) fields not visible"
        idv, outv = db.get("id"), db.get("output")
        if idv is None or is_none(idv) or outv is None or is_none(outv):
            return False, f"id={src(idv)} output={src(outv)}: the callback must carry the beacon id and the encrypted packet"
        id_ok = _decimal_bytes(idv, "self.beacon_id")
        # output = encrypt_packet(<CallbackPacket>.dumps(), keys of the decoder).dumps()
        enc = outv.func.value if isinstance(outv, ast.Call) and isinstance(outv.func, ast.Attribute) and outv.func.attr == "dumps" and not outv.args else None
        if not (isinstance(enc, ast.Call) and _fq(ctx, s, enc) == "c2.encrypt_packet"):
            inner = [n for n in ast.walk(outv) if isinstance(n, ast.Call) and _fq(ctx, s, n) == "c2.encrypt_packet"]
            opaque = any(_is_opaque(ctx, s, n) for n in ast.walk(outv) if isinstance(n, ast.Call) and not any(n is y for x in inner for y in ast.walk(x)))
            if not inner:
                return (None if opaque else False), f"output={src(outv)}: " + ("not encrypt_packet(..).dumps()" if opaque else "the callback data is not encrypted with encrypt_packet(..)")
            dumped = any(isinstance(n, ast.Attribute) and n.attr == "dumps" for n in ast.walk(outv) if not any(n is y for x in inner for y in ast.walk(x)))
            return (None if opaque or dumped else False), f"output={src(outv)}: " + ("not encrypt_packet(..).dumps()" if opaque or dumped else "the encrypted packet is sent without its size frame (.dumps())")
        eb = _bind(ctx, s, enc)
        keys = "self.c2http.beacon_keys"
        if "**" in eb:
            kv = eb["**"]
            k_ok = isinstance(kv, ast.Call) and isinstance(kv.func, ast.Attribute) and kv.func.attr == "_asdict" and dotted(kv.func.value) == keys
            k_ok = True if k_ok else None
        else:
            got_keys = [dotted(eb.get(p) or ast.Constant(value=0)) for p in ("aes_key", "hmac_key")]
            k_ok = (got_keys == [f"{keys}.aes_key", f"{keys}.hmac_key"] and (eb.get("iv") is None or dotted(eb["iv"]) in (f"{keys}.iv", "BeaconKeys.DEFAULT_AES_IV"))) or (
                # the client's own session keys: the very values its decoder was built from (default IV)
                shared is True and got_keys == ["self.aes_key", "self.hmac_key"] and (eb.get("iv") is None or dotted(eb["iv"]) == "BeaconKeys.DEFAULT_AES_IV"))
        pt = eb.get("plaintext")
        pk = pt.func.value if isinstance(pt, ast.Call) and isinstance(pt.func, ast.Attribute) and pt.func.attr == "dumps" and not pt.args else None
        pk_ok = isinstance(pk, ast.Call) and _fq(ctx, s, pk) == "struct:CallbackPacket"
        if pt is not None and not pk_ok and pk is None:
            pk_ok = None if _has_opaque_call(ctx, s, pt) else False
        parts = {"id = decimal beacon id": id_ok, "keys = c2http.beacon_keys": k_ok, "plaintext = CallbackPacket(..).dumps()": pk_ok}
        verdict = False if any(v is False for v in parts.values()) else None if any(v is None for v in parts.values()) else True
        return verdict, ", ".join(f"{k}: {'ok' if v else 'NOT LOCATED' if v is None else 'WRONG'}" for k, v in parts.items()) + f" [id={src(idv)}]"

    _client_message(ctx, s, sst, "transform_submit", "POST built with transform_submit", post_payload, "self.submit_verb", "self.submit_uri", attrs["self.submit_uri"][1],
                    "callback uses self.c2http.transform_submit; id = decimal beacon id, output = encrypt_packet(CallbackPacket.dumps(), **c2http.beacon_keys).dumps()")

    # ---- the client's verbs / URIs are the decoder's
    verdicts = [attrs[a][0] for a in _CLIENT_ATTRS] + [False if attrs[a][1] is True else True for a in ("self.get_verb", "self.submit_verb")]  # verbs stay bytes
    verdict = False if any(v is False for v in verdicts) else None if any(v is None for v in verdicts) else True
    _emit(ctx, "R4", "AGREE", run, "client verbs/uris from c2http", verdict, " ".join(f"{a[5:]}={attrs[a][2]}" for a in _CLIENT_ATTRS))
    _emit(ctx, "R4", "AGREE", run, "self.c2http", shared, shared_detail)

    _r4_decoder(ctx)


_MUTATORS = ("setdefault", "update", "pop", "popitem", "clear", "append", "extend", "insert", "remove", "add", "discard", "__setitem__", "__delitem__")


def _self_writes(ctx, f, depth=1):
    """[(statement of f, text, {attribute names})] of the statements that change the state held in attributes of self:
    stores (also into a container held in an attribute), in-place container methods and - `depth` levels deep - calls of
    methods of the same class that do."""
    out = []
    for s in statements(f.node):
        tg = list(s.targets) if isinstance(s, (ast.Assign, ast.Delete)) else [s.target] if isinstance(s, (ast.AugAssign, ast.AnnAssign)) else []
        tg = [x for t in tg for x in (t.elts if isinstance(t, (ast.Tuple, ast.List)) else [t])]
        if isinstance(s, ast.Expr) and isinstance(s.value, ast.Call) and isinstance(s.value.func, ast.Attribute) and s.value.func.attr in _MUTATORS:
            tg.append(s.value.func.value)
        attrs = set()
        for t in tg:
            while isinstance(t, ast.Subscript):
                t = t.value
            d = dotted(t) or ""
            if d.startswith("self."):
                attrs.add(d.split(".")[1])
        if attrs:
            out.append((s, src(s)[:60], attrs))
    if depth > 0 and f.cls:
        fv = FuncView.of(f.node)
        for c in fn_calls(f.node):
            cal = _callee(ctx, f, c)
            g = cal.func if cal is not None and cal.kind == "func" else None
            if g is not None and g.cls == f.cls and g.module is f.module and g.fq != f.fq and dotted(c.func) and dotted(c.func).startswith("self."):
                inner = _self_writes(ctx, g, depth - 1)
                if inner:
                    out.append((fv.stmt_of(c), src(c)[:60], set().union(*[a for _s, _t, a in inner])))
    return out


def _decoder_yields(ctx, ir):
    """(yield nodes of the decoder generator, the ones that can produce a CallbackPacket / TaskPacket built in place,
    {side class: packet structs yielded under "the recovered data is an instance of that class"})."""
    cfg = ctx.cfg(ir)
    fv = FuncView.of(ir.node)
    ys = [n for n in body_walk(ir.node) if isinstance(n, (ast.Yield, ast.YieldFrom))]

    # ---- packet classes: under "the recovered data is client data" only CallbackPacket is yielded, under "server data" only TaskPacket
    sides = {"c2.ClientC2Data": "CallbackPacket", "c2.ServerC2Data": "TaskPacket"}

    def side_atom(side):
        def atom(e):
            if isinstance(e, ast.Call) and dotted(e.func) == "isinstance" and len(e.args) == 2:
                cs = _cls_fq(ctx, ir, e.args[1])
                if cs and cs <= set(sides):
                    return side in cs
            return None

        return atom

    def yielded(y, atom):
        """{packet struct | '?'} a yield can produce under the assumption."""
        if isinstance(y, ast.YieldFrom) or y.value is None:
            return {"?"}
        out = set()

        def alt(e, depth=0):
            if isinstance(e, ast.IfExp) and depth < 6:
                t = _tv(e.test, atom)
                if t is not False:
                    alt(e.body, depth + 1)
                if t is not True:
                    alt(e.orelse, depth + 1)
                return
            if isinstance(e, ast.Call) and isinstance(e.func, ast.IfExp) and depth < 6:
                for fn in (e.func.body, e.func.orelse):
                    t = _tv(e.func.test, atom)
                    if (fn is e.func.body and t is not False) or (fn is e.func.orelse and t is not True):
                        alt(ast.Call(func=fn, args=e.args, keywords=e.keywords), depth + 1)
                return
            fq = _fq(ctx, ir, e) if isinstance(e, ast.Call) else None
            out.add(fq[7:] if fq and fq.startswith("struct:") else "?")

        alt(_inl(ir, y.value))
        return out

    packet_yields = set()
    result = {}
    for side, want in sides.items():
        atom = side_atom(side)
        spec = _spec(ctx, ir, atom)
        got = set()
        for y in ys:
            st = fv.stmt_of(y)
            if st is None or not cfg.has(st) or not spec.reaches(ENTRY, cfg.node(st)):
                continue
            k = yielded(y, atom) & set(sides.values())
            if k:
                packet_yields.add(y)
            got |= k
        result[side] = got
    return ys, packet_yields, result


def _r4_decoder(ctx):
    ir = ctx.repo.func("c2.C2Http.iter_recover_http")
    cfg = ctx.cfg(ir)
    fv = FuncView.of(ir.node)
    ys, packet_yields, result = _decoder_yields(ctx, ir)
    sides = {"c2.ClientC2Data": "CallbackPacket", "c2.ServerC2Data": "TaskPacket"}
    all_got = set().union(*result.values())
    if not all_got:
        _emit(ctx, "R4", "AGREE", ir, "packet classes", None if ys else False, "no yield of a CallbackPacket(..)/TaskPacket(..) built in place located" if ys else "the decoder yields nothing")
    else:
        ok = all(result[s] == {w} for s, w in sides.items())
        ctx.ob("R4", "AGREE", ir, "packet classes", ok, "client data -> CallbackPacket, server data -> TaskPacket: " + ", ".join(f"{s.split('.')[1]} -> {sorted(result[s])}" for s in sides))

    # ---- order of yields
    py = [y for y in ys if y in packet_yields]
    my = [y for y in ys if y not in packet_yields]
    if not py:
        ctx.undecided("R4", "DOM", ir, "metadata before packets", "packet yields not located")
    else:
        ok = bool(my) and all(not cfg.reaches(cfg.node(fv.stmt_of(p)), cfg.node(fv.stmt_of(m))) for p in py for m in my)
        ctx.ob("R4", "DOM", ir, "metadata before packets", ok, "decrypted metadata is yielded before any packet of the same message" if ok else ("the metadata is never yielded" if not my else "packet yields can precede the metadata yield"))
    # the decoder is a generator: what it learns from a message (derived session keys, metadata cache) must be stored
    # before it first suspends, otherwise a consumer that takes only the first packet leaves the decoder without keys
    writes = _self_writes(ctx, ir)
    late = [t for st, t, _a in writes if cfg.has(st) and any(cfg.reaches(cfg.node(fv.stmt_of(y)), cfg.node(st)) for y in ys)]
    stores = [t for _st, t, attrs in writes if "beacon_keys" in attrs]
    ctx.ob("R4", "DOM", ir, "decoder state stored before the first yield", bool(stores) and not late,
           f"{len(stores)} store(s) of the derived keys; none reachable from a yield" if stores and not late else f"state stores reachable after a yield (lost when the generator is not resumed): {late}; key stores={len(stores)}")

    # ---- the message is recovered with the transform routed for it
    rcs = []
    for c in fn_calls(ir.node):
        ic = _inl(ir, c)
        if isinstance(ic.func, ast.Attribute) and ic.func.attr == "recover":
            rcs.append((c, ic))
    routed = [(c, ic) for c, ic in rcs if isinstance(ic.func.value, ast.Call) and _fq(ctx, ir, ic.func.value) == "c2.C2Http.get_transform_for_http"]
    if not rcs:
        ctx.undecided("R4", "AGREE", ir, "transform.recover(http)", "no .recover(..) call located in the decoder")
    elif len(rcs) != 1 or len(routed) != 1:
        ctx.ob("R4", "AGREE", ir, "transform.recover(http)", False, f"recover is not applied (exactly once) on the transform selected by get_transform_for_http: {[src(ic.func.value) for _c0, ic in rcs]}", rcs[0][0])
    else:
        c, ic = routed[0]
        a = _bind(ctx, ir, ic, ("http",)).get("http")
        t = _bind(ctx, ir, ic.func.value, ("http",)).get("http")
        ok = a is not None and t is not None and src(a) == src(t)
        ctx.ob("R4", "AGREE", ir, "transform.recover(http)", ok, "the message is recovered with the transform selected for it" if ok else f"recover({src(a)}) is applied with the transform routed for {src(t)}", c)

    # ---- metadata decryption needs the private key
    dm = [c for c in fn_calls(ir.node) if _fq(ctx, ir, c) == "c2.decrypt_metadata"]
    if len(dm) != 1:
        _emit(ctx, "R4", "DOM", ir, "decrypt_metadata(..., self.priv)", None if not dm and any(isinstance(y, ast.YieldFrom) or _has_opaque_call(ctx, ir, y.value or ast.Constant(value=0)) for y in my) else False,
              f"{len(dm)} decrypt_metadata(..) calls in the decoder (required: one)")
    else:
        key = _bind(ctx, ir, dm[0], ("encrypted_metadata", "private_key")).get("private_key")
        key_ok = key is not None and dotted(strip_cast(_inl(ir, key))) == "self.priv"
        guarded = False
        for e, pol in _facts(ctx, ir, dm[0]):
            if pol and dotted(e) == "self.priv":
                guarded = True
            for l, op, r in compare_parts(e):
                if dotted(l) == "self.priv" and is_none(r) and isinstance(op, ast.IsNot if pol else ast.Is):
                    guarded = True
        ctx.ob("R4", "DOM", ir, "decrypt_metadata(..., self.priv)", key_ok and guarded, "metadata is decrypted only with a private key present" if key_ok and guarded else f"metadata decryption uses self.priv={key_ok}; guarded by the presence of self.priv={guarded}", dm[0])


# ---------------------------------------------------------------------------- R8: the router is complete
_REQ, _RESP = "c2.HttpRequest", "c2.HttpResponse"
_NOT_A_MESSAGE = ("bytes", "bytearray", "memoryview", "str")  # builtin classes a parsed message is not an instance of
_REQUEST_ROUTES = ("self.transform_get", "self.transform_submit")


def _route_atoms(route):
    return sorted((x for x in _ROUTES[route] if x[0] != "is"), reverse=True)  # verb, prefix


def _atom_text(k):
    return f"method == {k[1]}" if k[0] == "verb" else f"uri.startswith({k[1]})" if k[0] == "prefix" else f"isinstance(<message>, {k[1].split('.')[-1]})"


def _router_outcomes(ctx, f, is_msg, assign, truthy_routes):
    """Path-wise value flow through the router under a *named assumption*: `assign` gives the truth value of the atomic
    facts about the message (its class, verb equalities, URI prefixes - the vocabulary the router itself dispatches on,
    `_ROUTES`); facts that are not in it stay unknown.  Branch tests are evaluated three-valued, an undecided test is
    followed both ways; locals that hold a transform / None are tracked (the single-exit shape).  Nothing is executed, no
    concrete message exists.  Result: [(outcome, exact)] with outcome a route of `_ROUTES`, 'None', ('raise', class),
    'reentry' (the router's own result for the same message) or '?'; `exact`: every branch on the path was decided."""
    cfg = ctx.cfg(f)
    g = cfg.g
    out, seen = [], set()

    def isinst(e):
        vals = []
        for x in (e.args[1].elts if isinstance(e.args[1], ast.Tuple) else [e.args[1]]):
            d = dotted(x)
            s = ctx.rs.lookup_dotted(f.module.name, d) if d else None
            if s is not None and s.kind == "class":
                vals.append(assign.get(("is", s.fq)))
            else:
                vals.append(False if d in _NOT_A_MESSAGE else None)
        return True if any(v is True for v in vals) else False if all(v is False for v in vals) else None

    def mk_atom(env):
        def atom(e):
            if isinstance(e, ast.Name) and e.id in env:
                v = env[e.id]
                return False if v == "None" else (True if truthy_routes else None) if v in _ROUTES else None
            if isinstance(e, ast.Compare) and len(e.ops) == 1 and isinstance(e.ops[0], (ast.Is, ast.IsNot)) and is_none(e.comparators[0]) and isinstance(e.left, ast.Name) and e.left.id in env:
                v = env[e.left.id]
                if v == "None" or v in _ROUTES:
                    return (v == "None") == isinstance(e.ops[0], ast.Is)
                return None
            if isinstance(e, ast.Call) and dotted(e.func) == "isinstance" and len(e.args) == 2 and not e.keywords and is_msg(e.args[0]):
                return isinst(e)
            k = _route_fact(ctx, f, is_msg, e, True)
            if k is not None and k[0] in ("verb", "prefix"):
                return assign.get(k)
            k = _route_fact(ctx, f, is_msg, e, False)
            if k is not None and k[0] == "verb" and assign.get(k) is not None:
                return not assign[k]
            return None

        return atom

    def tv(e, env):
        atom = mk_atom(env)
        v = _tv(e, atom)
        return _tv(_inl(f, e), atom) if v is None else v

    def val(e, env, depth=0):
        e = strip_cast(e)
        if isinstance(e, ast.IfExp) and depth < 6:
            t = tv(e.test, env)
            a = val(e.body, env, depth + 1) if t is not False else None
            b = val(e.orelse, env, depth + 1) if t is not True else None
            return a if t is True else b if t is False else a if a == b else "?"
        if isinstance(e, ast.Name) and e.id in env:
            return env[e.id]
        if is_none(e):
            return "None"
        if dotted(e) in _ROUTES:
            return dotted(e)
        if isinstance(e, ast.Name) and depth < 6:
            i = _inl(f, e)
            if not isinstance(i, ast.Name):
                return val(i, env, depth + 1)
        if isinstance(e, ast.Call) and _fq(ctx, f, e) == f.fq and any(is_msg(a) for a in list(e.args) + [k.value for k in e.keywords]):
            return "reentry"
        return "?"

    def bind(env, t, v):
        if isinstance(t, (ast.Tuple, ast.List)):
            if isinstance(v, (ast.Tuple, ast.List)) and len(v.elts) == len(t.elts) and not any(isinstance(x, ast.Starred) for x in list(t.elts) + list(v.elts)):
                vals = [val(x, env) for x in v.elts]
                for te, x in zip(t.elts, vals):
                    if isinstance(te, ast.Name):
                        env[te.id] = x
                    else:
                        bind(env, te, None)
            else:
                for te in t.elts:
                    bind(env, te.value if isinstance(te, ast.Starred) else te, None)
        elif isinstance(t, ast.Name):
            env[t.id] = "?" if v is None else val(v, env)

    def step(st, env):
        env = dict(env)
        heads = [st]
        if isinstance(st, ast.Assign):
            for t in st.targets:
                bind(env, t, st.value)
        elif isinstance(st, ast.AnnAssign) and st.value is not None:
            bind(env, st.target, st.value)
        elif isinstance(st, ast.AugAssign):
            bind(env, st.target, None)
        elif isinstance(st, ast.Delete):
            for t in st.targets:
                bind(env, t, None)
        elif isinstance(st, (ast.For, ast.AsyncFor)):
            bind(env, st.target, None)
            heads = [st.iter]
        elif isinstance(st, (ast.With, ast.AsyncWith)):
            for it in st.items:
                if it.optional_vars is not None:
                    bind(env, it.optional_vars, None)
            heads = [it.context_expr for it in st.items]
        elif isinstance(st, (ast.If, ast.While)):
            heads = [st.test]
        elif not isinstance(st, (ast.Assign, ast.AnnAssign, ast.AugAssign, ast.Expr, ast.Return, ast.Raise, ast.Assert, ast.Delete)):
            heads = []  # try / except headers, nested definitions ...: no expression of their own is evaluated here
            for n in [st] + list(getattr(st, "names", [])):
                name = getattr(n, "asname", None) or getattr(n, "name", None)
                if isinstance(name, str):
                    env[name.split(".")[0]] = "?"
        for h in heads:
            for n in ast.walk(h):
                if isinstance(n, ast.NamedExpr):
                    env[n.target.id] = "?"
        return env

    def walk(n, env, exact):
        key = (n, tuple(sorted(env.items())), exact)
        if key in seen:
            return
        if len(seen) > 4000:  # not followed any further: the outcome of this path is unknown
            out.append(("?", False))
            return
        seen.add(key)
        if n == EXIT:
            out.append(("None", exact))
            return
        st = cfg.stmt.get(n)
        succ = list(g.successors(n))
        if isinstance(st, ast.Return):
            out.append((val(st.value, env) if st.value is not None else "None", exact))
            return
        if isinstance(st, ast.Raise):
            inner = [s for s in succ if s != ("raise",)]
            if len(inner) < len(succ) or not succ:
                out.append((("raise", _raise_class(f, st)), exact and not inner))
            for s in inner:
                walk(s, env, False)
            return
        if st is not None and not isinstance(st, (ast.If, ast.While, ast.For, ast.AsyncFor, ast.With, ast.AsyncWith, ast.Try, ast.ExceptHandler)) and (hasattr(st, "body") or hasattr(st, "cases")) and not isinstance(
                st, (ast.FunctionDef, ast.AsyncFunctionDef, ast.ClassDef)) and st.__class__.__name__ != "TryStar":
            out.append(("?", False))  # a compound statement the CFG does not look into (match ...): exits inside it are not seen
            return
        if st is not None:
            env = step(st, env)
        if isinstance(st, (ast.If, ast.While)):
            v = tv(st.test, env)
            if v is not None:
                e = cfg.edge_node(st, "true" if v else "false")
                if g.has_edge(n, e):
                    walk(e, env, exact)
                return
        for s in succ:
            walk(s, env, exact and len(succ) == 1)

    walk(ENTRY, {}, True)
    return out


def r8(ctx):
    """Completeness of the routing: a request that has the verb and the URI prefix of a request route is given that
    route's transform whatever the tests on the *other* route's verb / URI say (the two verbs may be the same string),
    and a response is given the response transform."""
    f = ctx.repo.func("c2.C2Http.get_transform_for_http")
    is_msg = _message_pred(ctx, f, params(f.node)[1])
    try:
        tcls = ctx.repo.cls("c2.HttpDataTransform")
    except Exception:
        tcls = None
    # lemma: an instance of a class that defines neither __bool__ nor __len__ is truthy
    truthy_routes = tcls is not None and not any(isinstance(s, (ast.FunctionDef, ast.AsyncFunctionDef)) and s.name in ("__bool__", "__len__") for s in tcls.body)

    def judge(cases, want):
        """cases: [(label, assign)] -> (verdict, detail)"""
        bad_exact, bad_all, open_, shown = [], [], [], []
        for label, assign in cases:
            res = _router_outcomes(ctx, f, is_msg, assign, truthy_routes)
            good = [o for o, _x in res if o in (want, "reentry")]
            unknown = [o for o, _x in res if o == "?"]
            bad = [(o, x) for o, x in res if o not in (want, "reentry", "?")]
            names = sorted({("raise " + str(o[1])) if isinstance(o, tuple) else ("return " + o) for o, _x in bad})
            if any(x for _o, x in bad):
                bad_exact.append(f"[{label}] -> {sorted({('raise ' + str(o[1])) if isinstance(o, tuple) else ('return ' + o) for o, x in bad if x})}")
            elif bad and not good and not unknown:
                bad_all.append(f"[{label}] -> {names}")
            elif bad or unknown or not res:
                open_.append(f"[{label}] -> may {names + (['return <not followed>'] if unknown else [])}")
            shown.append(label)
        if bad_exact or bad_all:
            return False, f"required: return {want}; not so with " + "; ".join(bad_exact + bad_all)
        if open_:
            return None, f"required: return {want}; the branches taken are not all decided by the message class / verb / URI-prefix tests this rule can classify: " + "; ".join(open_)
        return True, f"return {want} is the only exit under each assumption: " + "; ".join(f"[{x}]" for x in shown)

    base = {("is", _REQ): True, ("is", _RESP): False}
    for route in _REQUEST_ROUTES:
        other = [r for r in _REQUEST_ROUTES if r != route][0]
        mine, theirs = _route_atoms(route), _route_atoms(other)
        cases = []
        # every way the other route's condition can fail (both holding is the ambiguous configuration the property does
        # not speak about)
        for tv_ in ((True, False), (False, True), (False, False)):
            assign = dict(base)
            assign.update({k: True for k in mine})
            assign.update(dict(zip(theirs, tv_)))
            cases.append((", ".join(f"{_atom_text(k)} {'holds' if v else 'fails'}" for k, v in zip(theirs, tv_)), assign))
        verdict, detail = judge(cases, route)
        _emit(ctx, "R8", "EXIT", f, f"complete: request with {' and '.join(_atom_text(k) for k in mine)} -> {route}", verdict, detail)
    verdict, detail = judge([("a HttpResponse; nothing assumed about verb / URI tests", {("is", _REQ): False, ("is", _RESP): True})], "self.transform_response")
    _emit(ctx, "R8", "EXIT", f, "complete: response -> self.transform_response", verdict, detail)


# ---------------------------------------------------------------------------- R9: the whole transformed request is sent
def _request_fields(ctx):
    """Field names of the HttpRequest NamedTuple in declaration order (the places a transform can put data)."""
    try:
        return [n for n, _d in _fields(ctx, "c2.HttpRequest")]
    except Exception:
        return []


def _sent_request(ctx, f, stores, route, fields):
    """Def-use flow of the request produced by `<c2http>.<route>.transform(..)` in client method f into the call that
    puts it on the wire.  Result (verdict, detail, node)."""
    calls, other = _transform_calls(ctx, f, stores)
    calls = [(c, ic) for c, ic, a in calls if a == route]
    if len(calls) != 1:
        return None, ("the transformed request is produced inside a helper this rule does not see into" if other and not calls else
                      f"{len(calls)} requests are built with self.c2http.{route}.transform(..): which one is sent is not followed"), None
    tcall = calls[0][0]
    fv = FuncView.of(f.node)
    ps = set(params(f.node))

    def is_req(e, at, depth=0):
        """Does expression e, evaluated in statement `at`, denote the transformed request?"""
        e = strip_cast(e)
        if e is tcall:
            return True
        if isinstance(e, ast.Name) and e.id not in ps and depth < 6:
            rd = reaching_defs(ctx, f, e.id, at)
            return bool(rd) and all(v is not None and isinstance(s, ast.stmt) and not isinstance(s, (ast.For, ast.AsyncFor, ast.With, ast.AsyncWith)) and is_req(v, s, depth + 1) for s, v in rd)
        return False

    stop = set()  # ids of call nodes whose *result* is not a form of the request (the located send call: its value is the response)
    visited = set()

    def mentions(e, at, expand, depth=0):
        """(fields of the transformed request read inside expression e, is the request used as a whole?).  With
        `expand`, single-definition temporaries (also the elements of an unpacked value) are followed to their defining
        expression."""
        got, whole = set(), False
        todo = [e]
        while todo:
            n = todo.pop()
            if isinstance(n, ast.Call):
                if id(n) in stop and (n is not e or depth):
                    continue
                visited.add(id(n))
            if n is tcall and n is not e:
                whole = True
                continue
            if isinstance(n, ast.Attribute) and n.attr in fields and is_req(n.value, at):
                got.add(n.attr)
                continue
            if isinstance(n, ast.Subscript) and isinstance(_c(n.slice), int) and -len(fields) <= _c(n.slice) < len(fields) and is_req(n.value, at):
                got.add(fields[_c(n.slice)])
                continue
            if isinstance(n, ast.Attribute) and is_req(n.value, at):
                whole = True  # a method / property of the request object (_asdict, _replace ...)
                continue
            if isinstance(n, ast.Name):
                if is_req(n, at):
                    whole = True
                elif expand and depth < 6 and n.id not in ps and isinstance(n.ctx, ast.Load):
                    ds = stores.get(n.id, [])
                    if len(ds) == 1 and ds[0][1] is not None and isinstance(ds[0][0], ast.stmt):
                        g2, w2 = mentions(ds[0][1], ds[0][0], expand, depth + 1)
                        got |= g2
                        whole = whole or w2
                continue
            todo.extend(ast.iter_child_nodes(n))
        return got, whole

    def is_package_call(c):
        cal = _callee(ctx, f, c)
        return cal is not None and cal.kind in ("func", "class", "struct")

    # statements whose whole effect is a call the result of which is thrown away (logging and the like) cannot be where
    # the response comes from
    def diagnostic(st):
        return isinstance(st, ast.Expr) and isinstance(st.value, ast.Call)

    def survey():
        cands, handed = [], []
        for c in fn_calls(f.node):
            st = fv.stmt_of(c)
            if c is tcall or st is None or not ctx.cfg(f).has(st):
                continue
            got, whole = set(), False
            visited.clear()
            for a in [c.func] + list(c.args) + [k.value for k in c.keywords]:
                g2, w2 = mentions(a.value if isinstance(a, ast.Starred) else a, st, True)
                got |= g2
                whole = whole or w2
            if not got and not whole:
                continue
            if is_package_call(c):
                handed.append(c)
            elif not diagnostic(st):
                cands.append((c, st, got, whole, set(visited)))
        return cands, handed

    cands, handed = survey()
    if not cands:
        return None, ("the transformed request is handed to " + ", ".join(sorted({src(c.func) for c in handed})) + ", which this rule does not see into" if handed
                      else "no call whose result is used receives a field of the transformed request: the call that sends it is not located"), tcall
    # the call with the widest view of the request; of several, the one that does not itself consume the result of another
    # (what is computed from the response is not the request)
    ids = {id(x[0]) for x in cands}
    best = max(cands, key=lambda x: (len(x[2]), not x[3], -len(x[4] & ids)))
    stop.add(id(best[0]))
    _c2, handed = survey()
    c, st, got, whole, _seen = best
    missing = [x for x in fields if x not in got]
    shown = src(c.func)
    if not missing:
        return True, f"{shown}(..) receives every field of the transformed request ({', '.join(fields)})", c
    # does a missing field go somewhere else this rule cannot follow (a keyword dictionary filled in steps, a second
    # call, a helper)?  Then the sender is not fully located.
    elsewhere = []
    if whole:
        elsewhere.append(f"the request as a whole is passed to {shown}(..)")
    inside = {id(x) for x in ast.walk(c)}

    def heads(s2):
        """The expressions a statement evaluates itself (not those of the statements nested in it)."""
        if isinstance(s2, (ast.If, ast.While)):
            return [s2.test]
        if isinstance(s2, (ast.For, ast.AsyncFor)):
            return [s2.iter]
        if isinstance(s2, (ast.With, ast.AsyncWith)):
            return [it.context_expr for it in s2.items]
        return [] if hasattr(s2, "body") or hasattr(s2, "cases") else [s2]

    loaded = {n.id for s2 in statements(f.node) if not diagnostic(s2) for h in heads(s2) for n in ast.walk(h) if isinstance(n, ast.Name) and isinstance(n.ctx, ast.Load)}
    for s2 in statements(f.node):
        if diagnostic(s2) or not ctx.cfg(f).has(s2):
            continue
        if isinstance(s2, (ast.Assign, ast.AnnAssign)):
            tg = [x for t in (s2.targets if isinstance(s2, ast.Assign) else [s2.target]) for x in (t.elts if isinstance(t, (ast.Tuple, ast.List)) else [t])]
            if all(isinstance(t, ast.Name) and t.id not in loaded for t in tg):
                continue  # computed into locals nothing reads (other than log statements): goes nowhere
        for h in heads(s2):
            parent = {id(ch): n for n in ast.walk(h) for ch in ast.iter_child_nodes(n)}
            for n in ast.walk(h):
                if id(n) in inside or not isinstance(n, ast.Name) or not isinstance(n.ctx, ast.Load) or not is_req(n, s2):
                    continue
                par = parent.get(id(n))
                fld = par.attr if isinstance(par, ast.Attribute) and par.value is n and par.attr in fields else \
                    fields[_c(par.slice)] if isinstance(par, ast.Subscript) and par.value is n and isinstance(_c(par.slice), int) and -len(fields) <= _c(par.slice) < len(fields) else None
                if par is s2 and isinstance(s2, (ast.Assign, ast.AnnAssign)) and s2.value is n:
                    continue  # a plain copy: followed by is_req
                if fld is None:
                    elsewhere.append(f"the request as a whole is used in `{src(s2)[:50]}`")
                elif fld in missing:
                    elsewhere.append(f"`{src(par)}` is used in `{src(s2)[:50]}`")
    detail = f"{shown}(..) receives {sorted(got)} of the transformed request but not {missing}"
    if elsewhere or handed:
        why = elsewhere + ([f"the request is handed to {sorted({src(h.func) for h in handed})}"] if handed else [])
        return None, detail + "; " + "; ".join(sorted(set(why))[:3]) + " - where that goes is not followed", c
    return False, detail + ": whatever the transform placed there (a header / parameter / uri-append / print placement of the profile) never reaches the wire", c


def r9(ctx):
    """What the transform produced is what is sent: every field of the HttpRequest returned by
    `self.c2http.<route>.transform(..)` (method, uri, params, headers, body - a profile may place the metadata / id /
    output in any of uri, params, headers, body and the routing needs method and uri) flows into the one call that puts
    the request on the wire."""
    fields = _request_fields(ctx)
    for fq, route, what in (("client.HttpBeaconClient.get_task", "transform_get", "check-in"), ("client.HttpBeaconClient.send_callback", "transform_submit", "callback")):
        f = ctx.repo.func(fq)
        text = f"{what}: every field of the transformed request is sent"
        if not fields:
            ctx.undecided("R9", "AGREE", f, text, "the fields of c2.HttpRequest are not declared in a form this rule can read")
            continue
        verdict, detail, node = _sent_request(ctx, f, _stores(f.node), route, fields)
        _emit(ctx, "R9", "AGREE", f, text, verdict, detail, node)


# ---------------------------------------------------------------------------- R13: the transformed request is sent as the transform left it
_MAP_COPIES = ("dict", "OrderedDict", "collections.OrderedDict", "copy.copy", "copy.deepcopy", "copy", "deepcopy")
# in-place methods of a mapping: overwrite / remove what is there, or keep it (setdefault never replaces an entry)
_MAP_WRITES = {"update": "write", "__setitem__": "write", "__ior__": "write", "pop": "delete", "popitem": "delete", "clear": "delete",
               "__delitem__": "delete", "setdefault": "keep"}


def _heads(s):
    """The expressions / simple statement a statement evaluates itself (not those of the statements nested in it)."""
    if isinstance(s, (ast.If, ast.While)):
        return [s.test]
    if isinstance(s, (ast.For, ast.AsyncFor)):
        return [s.iter]
    if isinstance(s, (ast.With, ast.AsyncWith)):
        return [it.context_expr for it in s.items]
    return [] if hasattr(s, "body") or hasattr(s, "cases") else [s]


class _ReqView:
    """Which expressions of function f denote the transformed request, or (an alias / a shallow copy of) the container
    held in one of its fields.  The request is the value of the transform call `tcall` (followed through reaching
    definitions and through package helpers that hand their argument back), or - inside a callee the request or one of its
    field containers was passed to - the parameter it was bound to."""

    def __init__(self, ctx, f, fields, tcall=None, req_params=(), field_params=None):
        self.ctx, self.f, self.fields, self.tcall = ctx, f, fields, tcall
        self.stores = _stores(f.node)
        self.ps = set(params(f.node))
        self.req_params = {p for p in req_params if not self.stores.get(p)}
        self.field_params = {p: fl for p, fl in (field_params or {}).items() if not self.stores.get(p)}

    def passes_through(self, call, at, depth):
        """Is `call` a call of a package function that returns the very parameter the request is bound to?"""
        cal = _callee(self.ctx, self.f, call)
        g = cal.func if cal is not None and cal.kind == "func" else None
        if g is None:
            return False
        b = _bind(self.ctx, self.f, call)
        ps = [p for p, a in b.items() if p != "**" and a is not None and self.is_req(a, at, depth + 1)]
        rets = [s for s in statements(g.node) if isinstance(s, ast.Return)]
        gst = _stores(g.node)
        return bool(ps) and bool(rets) and all(isinstance(r.value, ast.Name) and r.value.id in ps and not gst.get(r.value.id) for r in rets)

    def is_req(self, e, at, depth=0):
        e = strip_cast(e)
        if self.tcall is not None and e is self.tcall:
            return True
        if isinstance(e, ast.Name):
            if e.id in self.req_params:
                return True
            if e.id not in self.ps and depth < 6:
                rd = reaching_defs(self.ctx, self.f, e.id, at)
                return bool(rd) and all(v is not None and isinstance(s, ast.stmt) and not isinstance(s, (ast.For, ast.AsyncFor, ast.With, ast.AsyncWith))
                                        and self.is_req(v, s, depth + 1) for s, v in rd)
            return False
        if isinstance(e, ast.Call) and depth < 6 and e is not self.tcall:
            return self.passes_through(e, at, depth)
        return False

    def field_of(self, e, at, depth=0):
        """Name of the request field whose container expression e denotes (the container itself, an alias, a mapping copy
        of it, a re-keyed `{.. for k, v in <it>.items()}` copy), else None."""
        e = strip_cast(e)
        if depth > 6:
            return None
        if isinstance(e, ast.Attribute) and e.attr in self.fields and self.is_req(e.value, at):
            return e.attr
        if isinstance(e, ast.Subscript) and isinstance(_c(e.slice), int) and -len(self.fields) <= _c(e.slice) < len(self.fields) and self.is_req(e.value, at):
            return self.fields[_c(e.slice)]
        if isinstance(e, ast.Name):
            if e.id in self.field_params:
                return self.field_params[e.id]
            if e.id in self.ps:
                return None
            rd = reaching_defs(self.ctx, self.f, e.id, at)
            got = {self.field_of(v, s, depth + 1) if v is not None and isinstance(s, ast.stmt) and not isinstance(s, (ast.For, ast.AsyncFor, ast.With, ast.AsyncWith)) else None
                   for s, v in rd}
            return got.pop() if len(got) == 1 else None
        if isinstance(e, ast.Call):
            if dotted(e.func) in _MAP_COPIES and len(e.args) == 1 and not e.keywords:
                return self.field_of(e.args[0], at, depth + 1)
            if isinstance(e.func, ast.Attribute) and e.func.attr == "copy" and not e.args and not e.keywords:
                return self.field_of(e.func.value, at, depth + 1)
            return None
        if isinstance(e, ast.Dict) and len(e.keys) == 1 and e.keys[0] is None:
            return self.field_of(e.values[0], at, depth + 1)
        if isinstance(e, ast.DictComp) and len(e.generators) == 1:
            it = e.generators[0].iter
            if isinstance(it, ast.Call) and isinstance(it.func, ast.Attribute) and it.func.attr == "items" and not it.args:
                return self.field_of(it.func.value, at, depth + 1)
        return None

    def derived(self, e, at):
        """Does expression e read the transformed request (or a container taken from it) anywhere?"""
        return e is not None and any((isinstance(n, (ast.Name, ast.Attribute, ast.Subscript)) and (self.is_req(n, at) or self.field_of(n, at) is not None)) for n in ast.walk(e))


def _absent_guard(ctx, f, view, s, field, key):
    """Verdict modifier of a write of `key` into the container of `field`: True when a test `key not in <container>`
    dominates it (the entry the transform placed is never replaced), None when some other dominating test reads the
    container (not analysed), False when nothing conditions the write on the container."""
    out = False
    for _t, pol, test in dominating_conditions(ctx, f, s):
        if not any(isinstance(n, (ast.Name, ast.Attribute, ast.Subscript)) and view.field_of(n, s) == field for n in ast.walk(test)):
            continue
        if (isinstance(test, ast.Compare) and len(test.ops) == 1 and key is not None and src(test.left) == src(key) and view.field_of(test.comparators[0], s) == field
                and ((isinstance(test.ops[0], ast.NotIn) and pol) or (isinstance(test.ops[0], ast.In) and not pol))):
            return True
        out = None
    return out


def _request_writes(ctx, f, view, fields, region, depth=0):
    """[(verdict, text)] of the located places of f (statements accepted by `region`) that change what the container of a
    request field holds: verdict False = an entry is replaced by / removed in favour of a value that does not come from the
    request, None = located but conditioned / not followed, True = cannot replace an entry (setdefault, absent-guarded)."""
    out = []
    fv = FuncView.of(f.node)
    cfg = ctx.cfg(f)
    where = f.qualname if depth else None

    def say(v, msg, s):
        out.append((v, (f"{where}: " if where else "") + msg + f" in `{src(s)[:70]}`"))

    def write(s, cont, field, key, value, how):
        if value is not None and view.derived(value, s) and (key is None or not isinstance(_c(key), (str, bytes))):
            return  # entries moved around inside the request (re-keying, decoding): not a foreign value
        if value is not None and view.derived(value, s):
            say(None, f"the `{field}` entry {src(key)} of the transformed request is re-written from the request itself", s)
            return
        g = _absent_guard(ctx, f, view, s, field, key)
        if g is True:
            say(True, f"`{field}` entry {src(key) if key is not None else ''} only added when the transform placed none", s)
        elif g is None:
            say(None, f"{how} of the `{field}` of the transformed request under a test on that container", s)
        else:
            what = f"entry {src(key)}" if key is not None else "entries"
            say(False, f"{how}: {what} of the `{field}` of the transformed request replaced by a value that does not come from the transform - a profile may place "
                       f"the metadata / id / output exactly there (`header \"<name>\"` / `parameter \"<name>\"` termination statements are free profile strings), and that placement "
                       f"is performed by the transform, so it is overwritten", s)

    def delete(s, field, key, used):
        if used:
            say(None, f"an entry of the `{field}` of the transformed request is taken out and its value used", s)
        else:
            say(False, f"entry {src(key) if key is not None else '(any)'} of the `{field}` of the transformed request is removed after the transform: a placement of the "
                       f"metadata / id / output there never reaches the wire", s)

    for s in statements(f.node):
        if not cfg.has(s) or not region(s):
            continue
        # 1. stores / deletions through a subscript, augmented assignment of the container
        tg = []
        if isinstance(s, ast.Assign):
            tg = [(t, s.value) for t in s.targets]
        elif isinstance(s, ast.AnnAssign) and s.value is not None:
            tg = [(s.target, s.value)]
        elif isinstance(s, ast.AugAssign):
            tg = [(s.target, s.value)]
        for t, v in tg:
            pairs = list(zip(t.elts, v.elts)) if isinstance(t, (ast.Tuple, ast.List)) and isinstance(v, (ast.Tuple, ast.List)) and len(t.elts) == len(v.elts) else \
                [(x, None) for x in t.elts] if isinstance(t, (ast.Tuple, ast.List)) else [(t, v)]
            for t1, v1 in pairs:
                if isinstance(t1, ast.Subscript):
                    fl = view.field_of(t1.value, s)
                    if fl is not None:
                        write(s, t1.value, fl, t1.slice, v1 if not isinstance(s, ast.AugAssign) else None, "store")
                elif isinstance(s, ast.AugAssign) and isinstance(s.op, ast.BitOr):
                    fl = view.field_of(t1, s)
                    if fl is not None:
                        write(s, t1, fl, None, v1, "in-place merge (`|=`: the right operand wins)")
        if isinstance(s, ast.Delete):
            for t in s.targets:
                if isinstance(t, ast.Subscript):
                    fl = view.field_of(t.value, s)
                    if fl is not None:
                        delete(s, fl, t.slice, False)
        for h in _heads(s):
            for n in ast.walk(h):
                # 2. in-place mapping methods
                if isinstance(n, ast.Call) and isinstance(n.func, ast.Attribute) and n.func.attr in _MAP_WRITES:
                    fl = view.field_of(n.func.value, s)
                    if fl is not None:
                        kind = _MAP_WRITES[n.func.attr]
                        if kind == "keep":
                            say(True, f"`{fl}`.setdefault(..) keeps the entry the transform placed", s)
                        elif kind == "delete":
                            delete(s, fl, n.args[0] if n.args else None, not (isinstance(s, ast.Expr) and s.value is n))
                        elif n.func.attr == "__setitem__" and len(n.args) == 2:
                            write(s, n.func.value, fl, n.args[0], n.args[1], "store")
                        else:
                            args = list(n.args) + [k.value for k in n.keywords]
                            write(s, n.func.value, fl, None, ast.Tuple(elts=args, ctx=ast.Load()) if args and all(view.derived(a, s) for a in args) else None, f"{n.func.attr}(..)")
                # 3. a new mapping in which later entries replace those of the request field
                over = None
                if isinstance(n, ast.Dict):
                    for i, (k, v) in enumerate(zip(n.keys, n.values)):
                        if k is None and view.field_of(v, s) is not None and i + 1 < len(n.keys):
                            later = [(k2, v2) for k2, v2 in list(zip(n.keys, n.values))[i + 1:] if not view.derived(v2, s)]
                            if later:
                                over = (view.field_of(v, s), later[0][0], "dict display (entries after `**<container>` win)")
                elif isinstance(n, ast.BinOp) and isinstance(n.op, ast.BitOr) and view.field_of(n.left, s) is not None and not view.derived(n.right, s):
                    over = (view.field_of(n.left, s), None, "`<container> | <other>` (the right operand wins)")
                elif isinstance(n, ast.Call) and dotted(n.func) in ("dict", "OrderedDict", "collections.OrderedDict") and len(n.args) == 1 and n.keywords \
                        and view.field_of(n.args[0], s) is not None and not all(view.derived(k.value, s) for k in n.keywords):
                    over = (view.field_of(n.args[0], s), None, "dict(<container>, ..) (the keywords win)")
                if over is not None:
                    write(s, None, over[0], over[1], None, over[2])
                # 4. the request / a field container handed to a package function: look one level into it
                if isinstance(n, ast.Call) and depth < 2:
                    cal = _callee(ctx, f, n)
                    g = cal.func if cal is not None and cal.kind == "func" else None
                    if g is None or g.fq == f.fq:
                        continue
                    b = _bind(ctx, f, n)
                    rp = [p for p, a in b.items() if p != "**" and a is not None and view.is_req(a, s)]
                    fp = {p: view.field_of(a, s) for p, a in b.items() if p != "**" and a is not None and not isinstance(a, ast.Call) and view.field_of(a, s) is not None}
                    if rp or fp:
                        sub = _ReqView(ctx, g, fields, req_params=rp, field_params=fp)
                        out.extend(_request_writes(ctx, g, sub, fields, lambda _s: True, depth + 1))
    return out


def r13(ctx):
    """What is sent is what the transform produced: between `self.c2http.<route>.transform(..)` and the call that sends
    the request, no entry of a container field of the transformed request (headers, params - also through an alias, a
    copy that is sent instead, or a helper the request is handed to) is replaced by, or removed in favour of, a value
    that does not come from the transform.  The transform performs the profile's dynamic placements (`header "<name>"`,
    `parameter "<name>"` with free names), so whatever is written afterwards under a fixed name overwrites the metadata /
    id / output of the profile that places it under that name; client-side defaults belong into the *initial* request
    handed to the transform."""
    fields = _request_fields(ctx)
    for fq, route, what in (("client.HttpBeaconClient.get_task", "transform_get", "check-in"), ("client.HttpBeaconClient.send_callback", "transform_submit", "callback")):
        f = ctx.repo.func(fq)
        text = f"{what}: the transformed request is sent as the transform left it"
        if not fields:
            ctx.undecided("R13", "ALIAS", f, text, "the fields of c2.HttpRequest are not declared in a form this rule can read")
            continue
        calls, other = _transform_calls(ctx, f, _stores(f.node))
        calls = [c for c, _ic, a in calls if a == route]
        if len(calls) != 1:
            ctx.undecided("R13", "ALIAS", f, text, "the transformed request is produced inside a helper this rule does not see into" if other and not calls else
                          f"{len(calls)} requests are built with self.c2http.{route}.transform(..): which one is sent is not followed")
            continue
        tcall = calls[0]
        cfg = ctx.cfg(f)
        tst = FuncView.of(f.node).stmt_of(tcall)
        if tst is None or not cfg.has(tst):
            ctx.undecided("R13", "ALIAS", f, text, "the statement of the transform call is not on the CFG of the method")
            continue
        view = _ReqView(ctx, f, fields, tcall=tcall)
        sites = _request_writes(ctx, f, view, fields, lambda s: s is tst or cfg.reaches(cfg.node(tst), cfg.node(s)))
        bad = sorted({t for v, t in sites if v is False})
        unk = sorted({t for v, t in sites if v is None})
        if bad:
            ctx.ob("R13", "ALIAS", f, text, False, "; ".join(bad[:2]), tcall)
        elif unk:
            ctx.undecided("R13", "ALIAS", f, text, "; ".join(unk[:2]), tcall)
        else:
            kept = sorted({t for v, t in sites if v is True})
            ctx.ob("R13", "ALIAS", f, text, True, "no statement after the transform call stores into / removes from / overrides a container field of the transformed request"
                   + (f" ({'; '.join(kept[:2])})" if kept else ""), tcall)


# ---------------------------------------------------------------------------- R10: the message parser cuts at the first separator
_CUTS =("partition", "rpartition", "split", "rsplit")
_FINDS = {"find": "first", "index": "first", "rfind": "last", "rindex": "last"}


def _cut_class(f, stores, e, depth=0):
    """Which part of a separated string does expression e denote?  Def-use substitution (single-definition locals, the
    elements of an unpacked value) down to `<s>.partition/rpartition/split/rsplit(<sep>[, n])[i]` or a slice of <s> at
    `<s>.find/index/rfind/rindex(<sep>)`, then the lemma on those builtins:
      partition(sep): [0] = text before the FIRST sep, [2] = everything after the first sep;
      rpartition(sep): [0] = everything before the LAST sep, [2] = text after the last sep;
      split(sep, 1): [0] / [1] as partition [0] / [2];  rsplit(sep, 1): [0] / [1] as rpartition [0] / [2];
      split(sep) / rsplit(sep) without a limit (or a limit > 1): [0] = text before the first sep, every other element is
      a piece *between* two separators (the remainder is cut again).
    Result: ('head-first' | 'rest-first' | 'head-last' | 'rest-last' | 'piece' | 'sep' | None, separator constant, text)
    or a list of such results for the non-constant alternatives of a conditional expression."""
    e = strip_cast(e)
    if depth > 8:
        return [(None, None, src(e))]
    if isinstance(e, ast.IfExp):
        out = []
        for alt in (e.body, e.orelse):
            if not isinstance(alt, ast.Constant):
                out += _cut_class(f, stores, alt, depth + 1)
        return out
    if isinstance(e, ast.Name):
        ds = stores.get(e.id, [])
        if len(ds) == 1 and ds[0][1] is not None and e.id not in params(f.node):
            return _cut_class(f, stores, ds[0][1], depth + 1)
        return [(None, None, src(e))]

    def subject(x, d=0):
        x = strip_cast(x)
        if isinstance(x, ast.Name) and d < 8:
            ds = stores.get(x.id, [])
            if len(ds) == 1 and ds[0][1] is not None and x.id not in params(f.node):
                return subject(ds[0][1], d + 1)
        return x

    if isinstance(e, ast.Subscript) and not isinstance(e.slice, ast.Slice):
        i = _c(e.slice)
        base = subject(e.value)
        if isinstance(i, int) and not isinstance(i, bool) and isinstance(base, ast.Call) and isinstance(base.func, ast.Attribute) and base.func.attr in _CUTS:
            m = base.func.attr
            sep = _c(base.args[0]) if base.args else None
            lim = base.args[1] if len(base.args) > 1 else next((k.value for k in base.keywords if k.arg == "maxsplit"), None)
            text = src(ast.Subscript(value=base, slice=e.slice, ctx=ast.Load()))
            if not isinstance(sep, (bytes, str)) or not sep or any(k.arg != "maxsplit" for k in base.keywords):
                return [(None, None, text)]
            if m in ("partition", "rpartition"):
                kind = {0: "head", -3: "head", 1: "sep", -2: "sep", 2: "rest", -1: "rest"}.get(i)
                return [(None if kind is None else "sep" if kind == "sep" else f"{kind}-{'first' if m == 'partition' else 'last'}", sep, text)]
            n = _c(lim) if lim is not None else -1
            if not isinstance(n, int):
                return [(None, sep, text)]
            if n == 1:
                kind = {0: "head", 1: "rest", -1: "rest", -2: "head"}.get(i)
                return [(None if kind is None else f"{kind}-{'first' if m == 'split' else 'last'}", sep, text)]
            if n == 0:
                return [(None, sep, text)]
            # no limit / a limit above one: the list is the same for split and rsplit when there is no limit
            if i == 0 and (m == "split" or n < 0):
                return [("head-first", sep, text)]
            if i == -1 and (m == "rsplit" or n < 0) and n < 0:
                return [("rest-last", sep, text)]
            return [("piece", sep, text)]
        return [(None, None, src(e))]
    if isinstance(e, ast.Subscript) and isinstance(e.slice, ast.Slice) and e.slice.step is None:
        lo, hi = e.slice.lower, e.slice.upper

        def find_of(x):
            """(first|last, sep, extra offset expression) of an index expression `<s>.find(sep)` [+ k]."""
            x = subject(x)
            off = None
            if isinstance(x, ast.BinOp) and isinstance(x.op, ast.Add):
                a, b = subject(x.left), subject(x.right)
                if isinstance(b, ast.Call) and isinstance(b.func, ast.Attribute) and b.func.attr in _FINDS:
                    a, b = b, a
                x, off = a, b
            if isinstance(x, ast.Call) and isinstance(x.func, ast.Attribute) and x.func.attr in _FINDS and len(x.args) == 1 and not x.keywords and src(subject(x.func.value)) == src(subject(e.value)):
                sep = _c(x.args[0])
                if isinstance(sep, (bytes, str)) and sep:
                    return _FINDS[x.func.attr], sep, off, x.args[0]
            return None

        if lo is None and hi is not None:
            r = find_of(hi)
            if r and r[2] is None:
                return [(f"head-{r[0]}", r[1], src(e))]
        if hi is None and lo is not None:
            r = find_of(lo)
            if r and r[2] is not None:
                k = _c(r[2])
                same_len = k == len(r[1]) or (isinstance(r[2], ast.Call) and dotted(r[2].func) == "len" and len(r[2].args) == 1 and _c(subject(r[2].args[0])) == r[1])
                if same_len:
                    return [(f"rest-{r[0]}", r[1], src(e))]
        return [(None, None, src(e))]
    return [(None, None, src(e))]


def _judge_cut(f, stores, e, role):
    """(verdict, detail) for an expression that has to be the text before (`role` 'head') / everything after ('rest') the
    FIRST occurrence of a separator."""
    res = _cut_class(f, stores, e)
    if not res:
        return None, f"{src(e)}: no non-constant alternative"
    verdicts, shown = [], []
    for kind, sep, text in res:
        shown.append(f"{text} is {'not a cut this rule understands' if kind is None else kind.replace('-', ' of the ') + ' separator' if kind not in ('piece', 'sep') else 'one piece between two separators' if kind == 'piece' else 'the separator itself'}")
        verdicts.append(None if kind is None else kind == f"{role}-first")
    return (False if any(v is False for v in verdicts) else None if any(v is None for v in verdicts) else True), "; ".join(shown)


def r10(ctx):
    """The parser of raw messages is the inverse of HTTP framing for every payload: the body is *everything* after the first
    blank line (it is arbitrary transformed data and may contain CRLF CRLF), a header value is *everything* after the
    first `: ` of its line (a profile's printable prepend/append text may contain `: `), a header name is the text before
    that first separator."""
    f = ctx.repo.func("c2.parse_raw_http")
    stores = _stores(f.node)
    ctors = []
    for c in fn_calls(f.node):
        if _fq(ctx, f, c) in (_REQ, _RESP):
            ctors.append(c)
    if not ctors:
        ctx.undecided("R10", "AGREE", f, "body = everything after the first blank line", "no HttpRequest(..)/HttpResponse(..) built in the parser")
        ctx.undecided("R10", "AGREE", f, "header value = everything after the first separator of its line", "no HttpRequest(..)/HttpResponse(..) built in the parser")
        return
    hdr_names = set()
    for c in ctors:
        b = _bind(ctx, f, c)
        cls = _fq(ctx, f, c).split(".")[-1]
        body = b.get("body")
        if "**" in b or body is None:
            ctx.undecided("R10", "AGREE", f, f"{cls}: body = everything after the first blank line", f"arguments of {src(c)[:60]} cannot be bound to the fields", c)
        else:
            verdict, detail = _judge_cut(f, stores, body, "rest")
            _emit(ctx, "R10", "AGREE", f, f"{cls}: body = everything after the first blank line", verdict,
                  detail + (": a body that contains the separator again is truncated / the head is mis-split" if verdict is False else ""), c)
        h = b.get("headers")
        if "**" not in b and isinstance(h, ast.Name):
            hdr_names.add(h.id)
        else:
            hdr_names.add(None)
    text_v = "header value = everything after the first separator of its line"
    text_k = "header name = the text before the first separator of its line"
    if None in hdr_names or len(hdr_names) != 1:
        ctx.undecided("R10", "AGREE", f, text_v, "the headers passed to HttpRequest(..)/HttpResponse(..) are not one local dictionary this rule can follow")
        return
    name = next(iter(hdr_names))
    fills = [st for st in statements(f.node) if isinstance(st, ast.Assign) and len(st.targets) == 1 and isinstance(st.targets[0], ast.Subscript) and dotted(st.targets[0].value) == name]
    whole = [v for _s, v in stores.get(name, []) if not (isinstance(v, ast.Dict) and not v.keys) and not (isinstance(v, ast.Call) and dotted(v.func) == "dict" and not v.args and not v.keywords)]
    if not fills or whole:
        ctx.undecided("R10", "AGREE", f, text_v, f"the header dictionary is not filled by `{name}[<name>] = <value>` stores alone" + (f" (built by {src(whole[0])[:50] if whole[0] is not None else 'an update in place'})" if whole else ""))
        return
    for i, st in enumerate(fills):
        suffix = "" if len(fills) == 1 else f" (store {i + 1})"
        kv, kd = _judge_cut(f, stores, st.targets[0].slice, "head")
        vv, vd = _judge_cut(f, stores, st.value, "rest")
        seps = {s for _k, s, _t in _cut_class(f, stores, st.value) + _cut_class(f, stores, st.targets[0].slice) if s is not None}
        if vv is True and kv is True and len(seps) != 1:
            vv, vd = None, vd + f"; name and value are cut at different separators {sorted(map(repr, seps))}"
        _emit(ctx, "R10", "AGREE", f, text_v + suffix, vv, vd + (": a value that itself contains the separator is truncated or the whole header is lost, so a `header` placement of the profile "
                                                                  "whose prepend/append text contains it cannot be recovered" if vv is False else ""), st)
        _emit(ctx, "R10", "AGREE", f, text_k + suffix, kv, kd + (": the name would swallow part of a value that contains the separator" if kv is False else ""), st)


# ---------------------------------------------------------------------------- R11: the literal affix is removed by position
_STRIPS = {"strip": "both ends", "lstrip": "the front", "rstrip": "the end"}
_EXACT_AFFIX = {"append": "removesuffix", "prepend": "removeprefix"}
_SEP_CUTS = {"partition": "first", "split": "first", "rpartition": "last", "rsplit": "last"}
_SEARCHES = ("find", "index", "rfind", "rindex", "translate", "splitlines", "expandtabs", "count", "endswith", "startswith")


def _affix_cuts(v, acc, arg, step):
    """Judge the term `v` recover's accumulator `acc` ends an `append` / `prepend` step with: which methods whose result
    depends on the *bytes* of the receiver are applied to a term that contains the accumulator.  Result: (problems,
    unknown, notes) - lists of texts.  Lemmas (documented result shapes of the bytes methods; nothing is stripped or
    split here):
      strip-set   x.rstrip(s) / x.lstrip(s) / x.strip(s) remove the longest suffix / prefix / both made of bytes that
                  OCCUR IN s (s is a set of byte values, not an affix; without s: ASCII whitespace).  The accumulator is
                  payload + s (s + payload), the payload is an arbitrary byte string and s a free non-empty literal of
                  the profile, so payloads ending (starting) with a byte of s exist and lose real bytes.
      affix       (p + s).removesuffix(s) == p and (s + p).removeprefix(s) == p for all p, s.
      occurrence  in p + s the LAST occurrence of a non-empty s starts at len(p) (no start index is higher), in s + p the
                  FIRST starts at 0; p may contain s, so the first occurrence in p + s / the last in s + p may lie inside
                  the payload.  replace(s, r) rewrites every occurrence, replace(s, r, 1) the first."""
    problems, unknown, notes = [], [], []

    def has_acc(e):
        return any(isinstance(n, ast.Name) and n.id == acc for n in ast.walk(e))

    def is_arg(e):
        e = strip_cast(e)
        if isinstance(e, ast.Call) and dotted(e.func) in ("bytes", "bytearray") and len(e.args) == 1 and not e.keywords:
            e = e.args[0]
        return isinstance(e, ast.Name) and e.id == arg

    parent = {id(ch): n for n in ast.walk(v) for ch in ast.iter_child_nodes(n)}
    for m in ast.walk(v):
        if not (isinstance(m, ast.Call) and isinstance(m.func, ast.Attribute) and has_acc(m.func.value)):
            continue
        name, shown = m.func.attr, src(m)
        a0 = m.args[0] if m.args else None
        if name in _STRIPS:
            if a0 is not None and isinstance(_c(a0), (bytes, str)) and not _c(a0):
                continue  # strips nothing
            problems.append(f"{shown} removes from {_STRIPS[name]} every byte that occurs in {src(a0) if a0 is not None else 'the whitespace set'} - a set of byte values, "
                            f"not the {step}ed literal: a payload whose {'first' if name == 'lstrip' else 'last'} byte is one of them loses real bytes")
        elif name in _EXACT_AFFIX.values():
            if a0 is None or m.keywords or len(m.args) != 1 or not is_arg(a0):
                unknown.append(f"{shown}: not the step argument that is taken off")
            elif name != _EXACT_AFFIX[step]:
                problems.append(f"{shown} takes the literal off the other end than the one transform {step}s it to")
            else:
                notes.append(f"{shown} takes exactly the literal off")
        elif name in _SEP_CUTS:
            par = parent.get(id(m))
            i = _c(par.slice) if isinstance(par, ast.Subscript) and par.value is m and not isinstance(par.slice, ast.Slice) else None
            lim = m.args[1] if len(m.args) > 1 else next((k.value for k in m.keywords if k.arg == "maxsplit"), None)
            if a0 is None or not is_arg(a0) or not isinstance(i, int) or isinstance(i, bool) or any(k.arg != "maxsplit" for k in m.keywords):
                unknown.append(f"{shown}: a cut at an occurrence of bytes this rule cannot relate to the step argument")
                continue
            if name in ("partition", "rpartition"):
                part = {0: "head", -3: "head", 2: "rest", -1: "rest"}.get(i)
            elif lim is None:
                part = "piece"  # an unlimited split cuts at every occurrence: [0] ends at the first one, [-1] starts after the last one
            elif _c(lim) == 1:
                part = {0: "head", -2: "head", 1: "rest", -1: "rest"}.get(i)
            else:
                part = None
            want = ("head", "last") if step == "append" else ("rest", "first")
            if part is None:
                unknown.append(f"{src(par)}: not a part this rule understands")
            elif part == "piece":
                problems.append(f"{src(par)} is cut at every occurrence of the literal; required for {step}: the {'text before' if want[0] == 'head' else 'text after'} the {want[1]} one "
                                "(the payload may contain the literal)")
            elif (part, _SEP_CUTS[name]) == want:
                notes.append(f"{src(par)} cuts at the {want[1]} occurrence, which is the {step}ed literal")
            else:
                problems.append(f"{src(par)} is the {'text before' if part == 'head' else 'text after'} the {_SEP_CUTS[name].upper()} occurrence of the literal; required for {step}: "
                                f"the {'text before' if want[0] == 'head' else 'text after'} the {want[1]} one (the payload may contain the literal / the literal's bytes)")
        elif name == "replace":
            cnt = m.args[2] if len(m.args) > 2 else next((k.value for k in m.keywords if k.arg == "count"), None)
            if a0 is None or not is_arg(a0):
                unknown.append(f"{shown}: rewrites occurrences of bytes this rule cannot relate to the step argument")
            elif step == "prepend" and _c(cnt) == 1:
                notes.append(f"{shown} rewrites the first occurrence, which is the prepended literal")
            else:
                problems.append(f"{shown} rewrites {'every' if cnt is None else 'the first'} occurrence of the literal, also those inside the payload")
        elif name in _SEARCHES:
            unknown.append(f"{shown}: depends on the payload's bytes; no lemma of this rule covers it")
    return problems, unknown, notes


def r11(ctx):
    """The inverse of `append <literal>` / `prepend <literal>` removes the literal by position: how many bytes recover
    takes off the payload in these steps depends on the step argument alone, never on which byte values the (arbitrary)
    payload happens to end / start with."""
    R = ctx.repo.func("c2.HttpDataTransform.recover")
    texts = {s: f"recover {s}: the literal is taken off by position, not by the byte values of the payload" for s in ("append", "prepend")}
    try:
        from rules import c04

        side, normal, arg = c04._Side, c04._normal, c04._ARG
    except Exception as e:  # the path walker of rules.c04 is not importable (module under maintenance)
        for t in texts.values():
            ctx.undecided("R11", "AGREE", R, t, f"the step-wise path walker of rules.c04 is not available ({type(e).__name__})")
        return
    try:
        rt = side(ctx, R, "rsteps")
        why = rt.why
        if why is None:
            rt.acc = rt.find_acc()
            why = None if rt.acc is not None else "the payload accumulator of the step loop is not located"
        paths = {s: (normal(rt.paths(s)) if why is None else []) for s in texts}
    except Exception as e:
        why, paths = f"the step loop could not be walked ({type(e).__name__}: {e})", {s: [] for s in texts}
    for step, text in texts.items():
        if why is not None:
            ctx.undecided("R11", "AGREE", R, text, why)
            continue
        ps = [p for p in paths[step] if not p.opaque]
        if not ps:
            ctx.undecided("R11", "AGREE", R, text, f"no fully modelled path of recover completes the `{step}` step")
            continue
        problems, unknown, notes = [], [], []
        for p in ps:
            v = p.env.get(rt.acc)
            if v is None:
                continue
            a, b, c = _affix_cuts(v, rt.acc, arg, step)
            problems, unknown, notes = problems + a, unknown + b, notes + c
        if [p for p in paths[step] if p.opaque]:
            unknown.append("a path of the step is not fully modelled")
        if problems:
            ctx.ob("R11", "AGREE", R, text, False, "; ".join(sorted(set(problems))))
        elif unknown:
            ctx.undecided("R11", "AGREE", R, text, "; ".join(sorted(set(unknown))))
        else:
            ctx.ob("R11", "AGREE", R, text, True, f"payload after the step: {sorted({src(p.env[rt.acc]) for p in ps if rt.acc in p.env})}" + (f" ({'; '.join(sorted(set(notes)))})" if notes else
                   ": no strip / split / replace / search method is applied to the payload"))


# ---------------------------------------------------------------------------- R12: missing session keys are derived
_SESSION_KEYS = ("aes_key", "hmac_key")


def _keys_atom(present):
    """Leaf evaluator under a *full* assignment of the two flags "the decoder's default <k> is present (a validated
    16-byte value: truthy, not None) / missing (None)": decides `self.beacon_keys.<k>`, `<that> is [not] None`,
    `<that> ==/!= None` and `None [not] in (<those>, ..)`; everything else stays unknown."""
    def key(e):
        d = dotted(strip_cast(e))
        if d and d.startswith("self.beacon_keys.") and d.count(".") == 2 and d.split(".")[2] in present:
            return d.split(".")[2]
        return None

    def atom(e):
        k = key(e)
        if k is not None:
            return present[k]
        if isinstance(e, ast.Compare) and len(e.ops) == 1:
            op, l, r = e.ops[0], e.left, e.comparators[0]
            if isinstance(op, (ast.Is, ast.IsNot, ast.Eq, ast.NotEq)):
                for a, b in ((l, r), (r, l)):
                    if is_none(b) and key(a) is not None:
                        return (not present[key(a)]) == isinstance(op, (ast.Is, ast.Eq))
            if isinstance(op, (ast.In, ast.NotIn)) and is_none(l) and isinstance(r, (ast.Tuple, ast.List, ast.Set)) and r.elts and all(key(x) is not None for x in r.elts):
                return any(not present[key(x)] for x in r.elts) == isinstance(op, ast.In)
        return None

    return atom


def _mentions_keys(e):
    return any(isinstance(n, ast.Attribute) and n.attr in _SESSION_KEYS + ("beacon_keys",) for n in ast.walk(e))


def r12(ctx):
    """Sufficient key material stays sufficient: once the decoder has freshly RSA-decrypted a check-in's metadata, the
    session keys are derived from it and stored whenever one of the two default keys is missing - whichever of the two it
    is (the constructor accepts the private key together with only an AES key or only an HMAC key)."""
    ir = ctx.repo.func("c2.C2Http.iter_recover_http")
    cfg = ctx.cfg(ir)
    fv = FuncView.of(ir.node)
    text = "a missing session key is derived from freshly decrypted metadata"
    text_v = "derived keys stored in order (aes_key, hmac_key) from the decrypted metadata's aes_rand"
    dm = [c for c in fn_calls(ir.node) if _fq(ctx, ir, c) == "c2.decrypt_metadata"]
    dst = fv.stmt_of(dm[0]) if len(dm) == 1 else None
    if dst is None or not cfg.has(dst):
        ctx.undecided("R12", "DOM", ir, text, f"{len(dm)} decrypt_metadata(..) calls located in the decoder (R4 judges that)")
        return
    writes = [st for st, _t, attrs in _self_writes(ctx, ir) if "beacon_keys" in attrs and cfg.has(st)]
    plain = [st for st in writes if isinstance(st, (ast.Assign, ast.AnnAssign)) and st.value is not None
             and [dotted(t) for t in (st.targets if isinstance(st, ast.Assign) else [st.target])] == ["self.beacon_keys"]]
    if not writes:
        ctx.undecided("R12", "DOM", ir, text, "no store of self.beacon_keys located in the decoder (R4 `decoder state stored before the first yield` judges that)")
        return
    start = cfg.node(dst)
    ys = [fv.stmt_of(n) for n in body_walk(ir.node) if isinstance(n, (ast.Yield, ast.YieldFrom))]
    targets = [cfg.node(y) for y in ys if y is not None and cfg.has(y)] + [EXIT]
    bad, open_, shown = [], [], []
    for label, present in (("AES key missing, HMAC key given", {"aes_key": False, "hmac_key": True}), ("AES key given, HMAC key missing", {"aes_key": True, "hmac_key": False}),
                           ("both missing (private key alone)", {"aes_key": False, "hmac_key": False})):
        spec = _spec(ctx, ir, _keys_atom(present))
        if not spec.reaches(ENTRY, start):
            open_.append(f"[{label}] the metadata is not decrypted at all under a test on the keys")
            continue
        leak = [t for t in targets if spec.reaches(start, t, avoiding=[cfg.node(s) for s in writes])]
        undecided_tests = [st for n, st in cfg.stmt.items() if isinstance(st, (ast.If, ast.While)) and not any(st is x for x in spec.used_tests)
                           and _mentions_keys(_inl(ir, st.test)) and (n == start or spec.reaches(start, n))]
        if leak and not undecided_tests:
            bad.append(f"[{label}] the next message is reached without storing derived keys")
        elif leak:
            open_.append(f"[{label}] depends on `{src(undecided_tests[0].test)[:70]}`, which the assumption does not decide")
        elif [t for t in targets if spec.reaches(start, t, avoiding=[cfg.node(s) for s in plain])]:
            open_.append(f"[{label}] the keys are stored inside a method call whose own conditions are not followed")
        else:
            shown.append(label)
    verdict = False if bad else None if open_ else True
    _emit(ctx, "R12", "DOM", ir, text, verdict,
          ("every path from decrypt_metadata(..) to a yield / the end stores self.beacon_keys under each assumption: " + "; ".join(f"[{x}]" for x in shown)) if verdict else
          "with the private key and only part of the session keys the decoder must fill in the rest from metadata.aes_rand (the key material is sufficient): " + "; ".join(bad + open_), dm[0])

    # ---- what is stored
    problems, unknown, good = [], [], []
    stores = _stores(ir.node)
    for st in plain:
        v = _inl(ir, st.value)
        fq = _fq(ctx, ir, v) if isinstance(v, ast.Call) else None
        seeds = []
        if fq == "c2.BeaconKeys":
            b = _bind(ctx, ir, v)
            if "**" in b:
                unknown.append(f"{src(v)[:60]}: fields not visible")
                continue
            for i, fld in enumerate(_SESSION_KEYS):
                x = _inl(ir, b[fld]) if b.get(fld) is not None else None
                if isinstance(x, ast.Name) and len(stores.get(x.id, [])) == 1 and stores[x.id][0][1] is not None:
                    x = stores[x.id][0][1]  # the only binding of the local: element i of an unpacked value is `<value>[i]`
                    x = ast.Subscript(value=_inl(ir, x.value), slice=x.slice, ctx=ast.Load()) if isinstance(x, ast.Subscript) else _inl(ir, x)
                if x is None or is_none(x):
                    problems.append(f"{fld} is not set by {src(v)[:60]}")
                elif isinstance(x, ast.Subscript) and isinstance(_c(x.slice), int) and _fq(ctx, ir, x.value) == "c2.derive_aes_hmac_keys":
                    if _c(x.slice) != i:
                        problems.append(f"{fld} is given element {_c(x.slice)} of derive_aes_hmac_keys(..) (required: element {i})")
                    seeds.append(_bind(ctx, ir, x.value, ("aes_random",)).get("aes_random"))
                else:
                    unknown.append(f"{fld} = {src(x)[:60]}: not an element of derive_aes_hmac_keys(..)")
        elif fq == "c2.BeaconKeys.from_aes_rand":
            seeds.append(_bind(ctx, ir, v, ("aes_rand",)).get("aes_rand"))
        else:
            unknown.append(f"self.beacon_keys = {src(v)[:60]}: not BeaconKeys(..) of the derived pair")
            continue
        for s in seeds:
            s = strip_cast(s) if s is not None else None
            if not (isinstance(s, ast.Attribute) and isinstance(s.value, ast.Name)):
                unknown.append(f"keys derived from {src(s) if s is not None else None}")
                continue
            rd = reaching_defs(ctx, ir, s.value.id, st)
            fresh = bool(rd) and all(val is not None and strip_cast(val) is dm[0] for _s, val in rd)
            if not fresh and not (isinstance(_inl(ir, s.value), ast.Call) and src(_inl(ir, s.value)) == src(dm[0])):
                unknown.append(f"keys derived from {src(s)}: not the result of the decrypt_metadata(..) call on every path")
            elif s.attr != "aes_rand":
                problems.append(f"keys derived from {src(s)} (required: the aes_rand field of the decrypted metadata)")
            else:
                good.append(src(v)[:60])
    if problems:
        ctx.ob("R12", "AGREE", ir, text_v, False, "; ".join(sorted(set(problems + unknown))), plain[0])
    elif unknown or not plain:
        ctx.undecided("R12", "AGREE", ir, text_v, "; ".join(sorted(set(unknown))) or "the keys are stored by a method call, not by an assignment in the decoder")
    else:
        ctx.ob("R12", "AGREE", ir, text_v, True, f"self.beacon_keys = {sorted(set(good))}", plain[0])


# ---------------------------------------------------------------------------- R14: every check-in yields its metadata
def _subst_at(ctx, f, e, at, depth=0, via=None):
    """(expression e with every local that has exactly ONE reaching definition at statement `at` replaced by the value of
    that definition - recursively, looked at from the defining statement -, [defining statements used])."""
    via = [] if via is None else via

    class T(ast.NodeTransformer):
        def visit_Name(self, n):
            if not isinstance(n.ctx, ast.Load) or depth > 4:
                return n
            rd = reaching_defs(ctx, f, n.id, at)
            if len(rd) == 1 and rd[0][1] is not None and isinstance(rd[0][0], ast.stmt):
                via.append(rd[0][0])
                return _subst_at(ctx, f, rd[0][1], rd[0][0], depth + 1, via)[0]
            return n

    return T().visit(copy.deepcopy(e)), via


def _cache_stores(g):
    """{attribute of self: [statements]} of the mappings held in attributes of self that generator g fills entry-wise:
    `self.<a>[k] = v`, `self.<a>.setdefault/update/__setitem__(..)`."""
    out = {}
    for st in statements(g.node):
        tg = []
        if isinstance(st, ast.Assign):
            tg = [t.value for t in st.targets if isinstance(t, ast.Subscript)]
        elif isinstance(st, ast.Expr) and isinstance(st.value, ast.Call) and isinstance(st.value.func, ast.Attribute) and st.value.func.attr in ("setdefault", "update", "__setitem__"):
            tg = [st.value.func.value]
        for t in tg:
            d = dotted(t) or ""
            if d.startswith("self.") and d.count(".") == 1:
                out.setdefault(d[5:], []).append(st)
    return out


def _is_blob(e, blob_params=()):
    """Does the expression denote the encrypted metadata blob of the message: `<recovered data>.metadata` or a parameter
    it was bound to?"""
    e = strip_cast(e)
    if isinstance(e, ast.Name):
        return e.id in blob_params
    return isinstance(e, ast.Attribute) and e.attr == "metadata" and dotted(e.value) != "self"


def _checkin_atom(cache_attrs, blob_params, hit):
    """Leaf evaluator under the named assumption "the message carries a (non-empty) metadata blob, the decoder holds a
    private key, and the blob is [hit: already / not hit: not yet] a key of the decoder's metadata cache".  Decides the
    blob and self.priv (truthy, not None), `<blob> [not] in self.<cache>` and `self.<cache>.get(<blob>)` (is None exactly
    when not cached; falsy when not cached); `hit is None`: the cache tests stay unknown."""
    def cache(e):
        if isinstance(e, ast.Call) and isinstance(e.func, ast.Attribute) and e.func.attr == "keys" and not e.args and not e.keywords:
            e = e.func.value
        d = dotted(e)
        return d is not None and d.startswith("self.") and d.count(".") == 1 and d[5:] in cache_attrs

    def lookup(e):
        e = strip_cast(e)
        return (isinstance(e, ast.Call) and isinstance(e.func, ast.Attribute) and e.func.attr == "get" and cache(e.func.value) and not e.keywords
                and 1 <= len(e.args) <= 2 and _is_blob(e.args[0], blob_params) and (len(e.args) == 1 or is_none(e.args[1])))

    def present(e):
        return _is_blob(e, blob_params) or dotted(strip_cast(e)) == "self.priv"

    def atom(e):
        if present(e):
            return True
        if lookup(e):
            return False if hit is False else None
        if isinstance(e, ast.Compare) and len(e.ops) == 1:
            op, l, r = e.ops[0], e.left, e.comparators[0]
            if isinstance(op, (ast.Is, ast.IsNot, ast.Eq, ast.NotEq)):
                for a, b in ((l, r), (r, l)):
                    if is_none(b) and present(a):
                        return isinstance(op, (ast.IsNot, ast.NotEq))
                    if is_none(b) and lookup(a) and hit is not None:
                        return (not hit) == isinstance(op, (ast.Is, ast.Eq))
            if isinstance(op, (ast.In, ast.NotIn)) and _is_blob(l, blob_params) and cache(r) and hit is not None:
                return hit == isinstance(op, ast.In)
        return None

    return atom


def _mentions_checkin(ctx, f, e, at, cache_attrs, depth=0):
    """Could the outcome of test e depend on the check-in state the assumption talks about (or on code this module does not
    see): an identifier naming the metadata / the private key / the cache, or a call of a package helper - also through
    the reaching definitions of the locals it reads?"""
    for n in ast.walk(e):
        ident = n.id if isinstance(n, ast.Name) else n.attr if isinstance(n, ast.Attribute) else None
        if ident is not None and ("metadata" in ident.lower() or "priv" in ident.lower() or ident in cache_attrs):
            return True
        if isinstance(n, ast.Call):
            cal = _callee(ctx, f, n)
            if cal is None or cal.kind == "func" or (cal.kind == "unresolved" and (dotted(n.func) or "").startswith("self.")):
                return True
        if isinstance(n, ast.Name) and isinstance(n.ctx, ast.Load) and depth < 3:
            for st, v in reaching_defs(ctx, f, n.id, at):
                if v is not None and isinstance(st, ast.stmt) and _mentions_checkin(ctx, f, v, st, cache_attrs, depth + 1):
                    return True
    return False


def _always_yields(ctx, g, cache, blob_params, hit, exclude=(), targets=None, depth=1):
    """Does generator g produce an item on every normally completing path from its entry to `targets` (default: its
    exit) under the check-in assumption?  -> (True | False | None, detail).  The CFG of g is specialised under the
    assumption (tests looked at with single-reaching-definition locals substituted; a cache test that can be reached
    from a store into the cache is left symbolic).  A statement that yields a value counts; `yield from <non-empty
    display>` counts; `yield from <package generator>(..)` counts when that generator always yields (one level deep,
    the blob followed into its parameters).  False: a path passes no yield and every test on it is decided by the
    assumption or does not depend on the check-in state; None: the path depends on a loop running at least once, an
    exception handler, a test this rule cannot classify or a callee it does not see into."""
    cfg = ctx.cfg(g)
    fv = FuncView.of(g.node)
    cache_attrs = set(cache)
    writes = [cfg.node(st) for sts in cache.values() for st in sts if cfg.has(st)]
    spec = copy.copy(cfg)
    spec.g = cfg.g.copy()
    spec._idom = None
    spec._ipdom = None
    used = []
    for n, st in cfg.stmt.items():
        if not isinstance(st, (ast.If, ast.While)):
            continue
        e, via = _subst_at(ctx, g, st.test, st)
        stale = any(w == x or cfg.reaches(w, x) for w in writes for x in [n] + [cfg.node(s) for s in via if cfg.has(s)])
        atom = _checkin_atom(cache_attrs, blob_params, None if stale else hit)
        v = _tv(st.test, atom)
        if v is None:
            v = _tv(e, atom)
        if v is None:
            continue
        used.append(st)
        dead = cfg.edge_node(st, "false" if v else "true")
        if spec.g.has_edge(n, dead):
            spec.g.remove_edge(n, dead)
    via_nodes, soft, open_, bad = set(), set(), [], []
    excl = {id(x) for x in exclude}
    for y in body_walk(g.node):
        if not isinstance(y, (ast.Yield, ast.YieldFrom)) or id(y) in excl:
            continue
        st = fv.stmt_of(y)
        if st is None or not cfg.has(st) or y.value is None:
            continue
        counts = True
        if isinstance(y, ast.YieldFrom):
            v = strip_cast(y.value)
            cal = _callee(ctx, g, v) if isinstance(v, ast.Call) else None
            h = cal.func if cal is not None and cal.kind == "func" else None
            if isinstance(v, (ast.List, ast.Tuple)) and v.elts and not any(isinstance(x, ast.Starred) for x in v.elts):
                pass
            elif h is not None and depth > 0 and any(isinstance(x, (ast.Yield, ast.YieldFrom)) for x in body_walk(h.node)):
                b = _bind(ctx, g, v)
                bp = {p for p, a in b.items() if p != "**" and a is not None and _is_blob(_subst_at(ctx, g, a, st)[0], blob_params)}
                hc = dict(cache)
                for a, sts in _cache_stores(h).items():
                    hc[a] = sts
                ok, det = _always_yields(ctx, h, hc, bp, hit, depth=depth - 1)
                if ok is False:
                    counts = False
                    bad.append(f"`yield from {src(v)[:50]}` produces nothing on some path: {det}")
                elif ok is None:
                    open_.append(f"`yield from {src(v)[:50]}`: {det}")
            else:
                open_.append(f"`yield from {src(v)[:50]}`: what it produces is not seen")
        if counts:
            via_nodes.add(cfg.node(st))
            for a in fv.ancestors(st):
                if isinstance(a, (ast.For, ast.AsyncFor)):
                    soft.add(cfg.edge_node(a, "exhaust"))
                elif isinstance(a, ast.While):
                    soft.add(cfg.edge_node(a, "false"))
    soft |= {n for n, st in cfg.stmt.items() if isinstance(st, ast.ExceptHandler)}
    targets = [EXIT] if targets is None else list(targets)
    hard = via_nodes | soft
    strict = [t for t in targets if spec.reaches(ENTRY, t, avoiding=hard)]
    loose = [t for t in targets if spec.reaches(ENTRY, t, avoiding=via_nodes)]
    if strict:
        free = []
        for n, st in cfg.stmt.items():
            if isinstance(st, (ast.If, ast.While)) and not any(st is x for x in used) and n not in hard and spec.reaches(ENTRY, n, avoiding=hard) \
                    and any(spec.reaches(n, t, avoiding=hard) for t in strict) and _mentions_checkin(ctx, g, st.test, st, cache_attrs):
                # a test both outcomes of which lead to a target without a yield does not matter
                outs = [x for x in spec.g.successors(n)]
                if not all(x not in hard and any(x == t or spec.reaches(x, t, avoiding=hard) for t in strict) for x in outs):
                    free.append(st)
        path = " -> ".join(spec.witness_path(ENTRY, strict[0], avoiding=hard)[-4:])
        if free:
            return None, "; ".join(bad + [f"a path without a yield ({path}) depends on `{src(free[0].test)[:60]}`, which the assumption does not decide"])
        return False, "; ".join(bad + [f"a path to {'the end' if strict[0] == EXIT else 'a packet yield'} passes no yield of the metadata ({path})"])
    if loose:
        return None, "; ".join(bad + ["a path without a yield exists through a loop that may not iterate / an exception handler"])
    if open_:
        return None, "; ".join(open_)
    return True, "every path passes a yield"


def r14(ctx):
    """'Same metadata, same order': a check-in message is decoded to its BeaconMetadata packet *every* time - whether the
    decoder meets the encrypted blob for the first time or has it in its metadata cache (a repeated check-in in a capture,
    a capture read twice with one decoder)."""
    ir = ctx.repo.func("c2.C2Http.iter_recover_http")
    cfg = ctx.cfg(ir)
    fv = FuncView.of(ir.node)
    text = "the metadata of a check-in is yielded whether or not it is cached"
    ys, packet_yields, _result = _decoder_yields(ctx, ir)
    if not ys:
        ctx.undecided("R14", "EXIT", ir, text, "the decoder is not a generator this rule can follow (no yield)")
        return
    cache = _cache_stores(ir)
    for c in fn_calls(ir.node):
        cal = _callee(ctx, ir, c)
        h = cal.func if cal is not None and cal.kind == "func" else None
        if h is not None and h.cls == ir.cls and h.module is ir.module and h.fq != ir.fq:
            for a, sts in _cache_stores(h).items():
                cache.setdefault(a, [])
    pst = [fv.stmt_of(p) for p in ys if p in packet_yields]
    targets = [cfg.node(s) for s in pst if s is not None and cfg.has(s)] + [EXIT]
    cases = [(False, "blob not cached (first check-in)")] + ([(True, "blob already cached (repeated check-in / second pass)")] if cache else [])
    res = [(label,) + _always_yields(ctx, ir, cache, set(), hit, exclude=[p for p in ys if p in packet_yields], targets=targets) for hit, label in cases]
    verdict = False if any(v is False for _l, v, _d in res) else None if any(v is None for _l, v, _d in res) else True
    _emit(ctx, "R14", "EXIT", ir, text, verdict,
          ("with metadata in the message and a private key, every path to the packets / the end passes a yield of the metadata: " if verdict else
           "a message that carries metadata must be decoded to its metadata packet each time (the cache only saves the RSA decryption): ")
          + "; ".join(f"[{l}] {d}" for l, v, d in res if verdict or v is not True))


# ---------------------------------------------------------------------------- R15: the routed URI is in wire form
_VALUE_TRANSFORMS = {  # callable name -> what it does to a URI (documented semantics; none of them is a sub-string selection)
    "unquote": "percent-decoding", "unquote_to_bytes": "percent-decoding", "unquote_plus": "percent-decoding", "quote": "percent-encoding",
    "quote_plus": "percent-encoding", "quote_from_bytes": "percent-encoding", "lower": "case folding", "upper": "case folding",
    "casefold": "case folding", "swapcase": "case folding", "title": "case folding", "capitalize": "case folding", "normcase": "case folding",
    "replace": "rewriting", "translate": "rewriting", "sub": "rewriting", "subn": "rewriting", "expandtabs": "rewriting",
    "normpath": "path normalisation", "abspath": "path normalisation", "realpath": "path normalisation", "unescape": "entity decoding",
}
_SELECTIONS = ("split", "rsplit", "partition", "rpartition", "splitlines", "strip", "lstrip", "rstrip", "removeprefix", "removesuffix")
_RECODINGS = ("decode", "encode")
_SELECT_FUNCS = ("urlsplit", "urlparse", "bytes", "str", "bytearray", "memoryview", "list", "tuple")


def _call_name(ctx, f, c):
    """('func' | 'method', bare name) of a call; package callees -> ('package', fq)."""
    cal = _callee(ctx, f, c)
    if cal is not None and cal.kind in ("func", "class", "struct"):
        return "package", cal.fq
    if cal is not None and cal.kind == "external" and cal.fq:
        return "func", cal.fq.split(".")[-1]
    if isinstance(c.func, ast.Attribute):
        return "method", c.func.attr
    return "func", dotted(c.func) or "?"


def _value_chain(ctx, f, e, at, found, unknown, depth=0):
    """Follow the value of expression e (evaluated at statement `at`) back towards the parameters of f through
    selections (an element / slice / attribute of a value, split / partition / strip family, urlsplit / urlparse), codec
    re-codings (decode / encode) and reaching definitions (every one of them; an unpacked or iterated value is followed as a
    whole).  Value transformations of the table met on the way are added to `found`, anything else to `unknown`."""
    e = strip_cast(e)
    if depth > 40:
        unknown.append(src(e)[:50])
        return
    if isinstance(e, ast.Constant):
        return
    if isinstance(e, ast.Name):
        rd = reaching_defs(ctx, f, e.id, at)
        if not rd and e.id not in params(f.node):
            unknown.append(src(e))
        for st, v in rd:
            if v is not None:
                _value_chain(ctx, f, v, st if isinstance(st, ast.stmt) else at, found, unknown, depth + 1)
            elif isinstance(st, ast.Assign):
                _value_chain(ctx, f, st.value, st, found, unknown, depth + 1)
            elif isinstance(st, (ast.For, ast.AsyncFor)):
                _value_chain(ctx, f, st.iter, st, found, unknown, depth + 1)
            elif st is not f.node:
                unknown.append(f"{e.id} bound by {type(st).__name__}")
        return
    if isinstance(e, (ast.Attribute, ast.Subscript)):
        return _value_chain(ctx, f, e.value, at, found, unknown, depth + 1)
    if isinstance(e, ast.IfExp):
        for alt in (e.body, e.orelse):
            _value_chain(ctx, f, alt, at, found, unknown, depth + 1)
        return
    if isinstance(e, (ast.GeneratorExp, ast.ListComp)) and len(e.generators) == 1 and isinstance(e.elt, ast.Name) \
            and isinstance(e.generators[0].target, ast.Name) and e.elt.id == e.generators[0].target.id:
        # `(x for x in s if ..)`: a filtered sub-sequence of s, its elements unchanged (like decode(errors='ignore'))
        return _value_chain(ctx, f, e.generators[0].iter, at, found, unknown, depth + 1)
    if isinstance(e, ast.Call):
        kind, name = _call_name(ctx, f, e)
        subject = e.func.value if kind == "method" else e.args[0] if e.args else None
        if kind != "package" and name in _VALUE_TRANSFORMS and subject is not None:
            found.append((name, _VALUE_TRANSFORMS[name], src(e)[:60]))
            return _value_chain(ctx, f, subject, at, found, unknown, depth + 1)
        if subject is not None and ((kind == "method" and name in _SELECTIONS + _RECODINGS) or (kind == "func" and name in _SELECT_FUNCS)):
            return _value_chain(ctx, f, subject, at, found, unknown, depth + 1)
    unknown.append(src(e)[:50])


def r15(ctx):
    """Routing is by verb and URI *prefix*, with the configured URIs kept exactly as the profile spells them (R2) and
    requested exactly like that by the client (R4): so the `uri` the parser hands to the router has to be the path of the
    request target as it is on the wire - a selection of the start line, not a transformed value."""
    f = ctx.repo.func("c2.parse_raw_http")
    fv = FuncView.of(f.node)
    text = "request uri and configured URI prefixes are compared in the same (wire) form"
    ctors = [c for c in fn_calls(f.node) if _fq(ctx, f, c) == _REQ]
    if not ctors:
        ctx.undecided("R15", "AGREE", f, text, "no HttpRequest(..) built in the parser")
        return
    init = ctx.repo.func("c2.C2Http.__init__")
    istores = _stores(init.node)
    conf = {}
    for a in ("self.get_uris", "self.submit_uri"):
        got = set()
        for _st, v in istores.get(a, []):
            if v is not None:
                for n in ast.walk(_inl(init, v)):
                    if isinstance(n, ast.Call):
                        kind, name = _call_name(ctx, init, n)
                        if kind != "package" and name in _VALUE_TRANSFORMS:
                            got.add(_VALUE_TRANSFORMS[name])
        conf[a] = got
    for c in ctors:
        b = _bind(ctx, f, c)
        u = b.get("uri")
        if u is None:
            ctx.undecided("R15", "AGREE", f, text, f"the uri argument of {src(c)[:60]} cannot be located", c)
            continue
        found, unknown = [], []
        _value_chain(ctx, f, u, fv.stmt_of(c), found, unknown)
        kinds = {k for _n, k, _t in found}
        if not found and not unknown:
            ok = not (conf["self.get_uris"] | conf["self.submit_uri"])
            _emit(ctx, "R15", "AGREE", f, text, True if ok else None, "the uri field is a selection of the start line (split / path component / codec re-coding only)" +
                  ("" if ok else f"; the configured URIs are transformed ({sorted(conf['self.get_uris'] | conf['self.submit_uri'])}) - R2 judges that"), c)
        elif kinds and not all(kinds <= conf[a] for a in conf):
            ctx.ob("R15", "AGREE", f, text, False, "the uri handed to the router went through " + ", ".join(f"{t} ({k})" for _n, k, t in found) +
                   "; get_uris / submit_uri hold the configured URIs verbatim and the client requests them verbatim, so a URI on which this is not the "
                   "identity (e.g. one with a %XX escape / an upper-case letter) no longer has its own prefix: every message of that beacon is rejected or mis-routed", c)
        else:
            ctx.undecided("R15", "AGREE", f, text, ("the same transformation is applied to the configured URIs: whether the two sides still agree is not decided; " if kinds else "") +
                          (f"not followed: {unknown[:3]}" if unknown else ""), c)


def r5(ctx):
    try:
        from csverif import effects
    except ImportError:
        return

    class _Escape(effects.Escape):
        """`err = ValueError(..); raise err`: the class of a raised local is the class of the instance it was bound to
        (the engine's may-raise summary only reads the class off a literal `raise C(..)` / `raise C`)."""

        def stmt(self, f, st):
            if isinstance(st, ast.Raise) and isinstance(st.exc, ast.Name) and st.exc.id not in params(f.node):
                v = _inl(f, st.exc)
                if isinstance(v, ast.Call) and dotted(v.func):
                    st = ast.copy_location(ast.Raise(exc=ast.copy_location(v, st.exc), cause=st.cause), st)
                    ast.fix_missing_locations(st)
            return super().stmt(f, st)

    effects.check_escape(ctx, "R5", ["c2.C2Http.get_transform_for_http"], allowed={"ValueError"}, esc=_Escape(ctx))
