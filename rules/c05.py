"""C05 - Packet encryption round-trips and is authenticated before decryption.

Decides the structural necessary conditions C05.R1-R8 of DESIGN.md section 4 and C05.R9 / C05.R10 (below) - not the
behaviour of AES/HMAC themselves.

The rules locate their subjects by role (the value compared with ``self.signature``, the arguments that feed
the fields of the ``EncryptedPacket`` that is built, the stream those arguments are read from ...) on the
normalised code with single-definition temporaries inlined, and decide on the CFG.  A subject that cannot be
located is reported as undecided, a located subject that does not satisfy the condition as violated.

Technique
---------
Numbers refer to the ALLOWED list of RULES_GUIDE.md ("What counts as *static* here").  No rule runs code of the
analysed package, interprets a function body on data chosen by the checker, or enumerates inputs.

R1  (2) CFG dominance / reachability of the decrypt sinks on the CFG pruned under the named assumptions
    {verify truthy}, {verify truthy, hmac_key falsy}; (1) resolved callees; (3) guard receiver / key argument / decrypted
    value related through inlined definitions and argument binding; (6) constant default of `verify`.
R2  (3) the branch test that compares self.signature with the HMAC-derived value, located through inlined definitions
    (==, !=, compare_digest, not, and/or); (2) all-paths-pass / reachability of the equal and unequal edges, exit classes.
R3  (1)(3) structural decomposition of the signer and verifier terms HMAC(key, msg, digest).digest()[:N] after inlining
    (argument binding, update() feeding), structural comparison of the two; (5) digest names taken from the code.
R4  (6) constant folding of the truncation / read lengths; (3)(4) `<size> - K` recognised in polynomial normal form
    (absint.sympoly); negative-slice framing [:-K] / [-K:] structurally; fields cut out of one buffer at computed offsets
    (offset walk): slice bounds as polynomials over the loop-head values (body walked once, see R7), ciphertext length
    == <size> - 16 and signature length == 16 in normal form.  Reference constant: 16 (property text).
R5  pad(): (3) per return statement the returned term `<data> + <fill> * <count>` / `<data>.ljust(<width>, <fill>)` with
    temporaries inlined; the count is compared with 16 - len(data) % 16 in polynomial normal form (absint.SymPoly) over the
    atoms len(data) and (P) % m, using the lemmas L1-L6 stated in `_PadTerms` (division identity, residue unchanged by
    multiples of m, congruence of x % m and x, `x % m or m`, range of a residue, bit mask of 2**j - 1); (2) residue facts
    `len(data) % 16 == K` from the dominating branch conditions; (4) interval abstract interpretation
    (absint.Interp: len(data) >= 0, block size 16) of the count - a count interval over all returns that misses a required
    pad length 1..16 refutes, an unrecognised spelling is undecided; (6) the fill literal and the parameter defaults
    (AES.block_size == 16).  encrypt_data / decrypt_data: (1)(3) the returned term is <AES cipher>.encrypt(pad(<data
    parameter>)) / .decrypt(<data parameter>) unmodified, by inlining and argument binding; (6) block-size argument folded.
R6  (1) resolved AES.new calls; (3) key / mode / iv argument roles after inlining, forwarding by argument binding;
    (2) AES.new unreachable on the CFG pruned under {key is None}; exit classes.  When the function is decorated and its own
    body does not reject the None key, the guard is looked for in the wrappers every call passes through: (1) the decorator
    (or the nested def a decorator factory returns) resolved in the package, its one returned nested wrapper (functools.wraps
    / update_wrapper looked through), the calls of the wrapped callable inside it; (3) the key / iv parameters followed
    outwards by argument binding of those calls (a `(*args, **kwargs)` wrapper that calls `func(*args, **kwargs)` leaves
    the binding as it is); (2) the call of the wrapped function unreachable on the wrapper's CFG pruned under {key is None}.
    The packet-level call sites are bound against the outermost wrapper's signature.  A decorator that is not of this
    shape -> undecided.
R7  (1)(3) writer term <packed length> + ciphertext + signature: pack call decoded by argument binding (functools.partial
    keywords included) or (6) the struct-format / cstruct type tables; length argument compared with the payload
    structurally; readers: field sources located by role, (2) read order by dominance / evaluation order inside one
    statement, nothing else moving the stream in between; length-prefix decoder recognised structurally ((6) format
    tables); the loop is analysed once with its loop-carried buffer / stream / offset symbolic (`_BodyWalk`: one pass over
    the straight-line body, every name assigned in the loop symbolic at the loop head, terms built by substituting
    definitions - no unrolling, no data): advance compared in polynomial normal form (3)(4).  Offset walk over one
    buffer: header, ciphertext and signature are adjacent slices starting at the head offset, the offset starts at the
    constant 0 (6) and ends each round at the end of the signature (normal form).
    "loop runs while a complete frame is left" (all loop shapes): the continuation condition - conjuncts of the loop test
    and negated exit-only guards, in head terms - is read as predicates `remaining op K` of the remaining length
    (len(buffer), end - tell(), len(buffer) - offset; polynomial normal form, K folded (6)); (4) interval reading of each
    predicate: its truth set must contain [36, +inf) and the condition must fail at 0, where 36 = 4 + 16 + 16 is the
    smallest frame the writer produces (4-byte prefix, one AES block because pad() appends 1..16 bytes, 16-byte
    signature).  A conjunct that is not such a predicate makes the obligation undecided.
    "a complete packet is not dropped" (both readers; server: `a packet is produced whenever a complete task blob is
    present`, client: `a frame that holds a complete packet is not skipped`): (2) the branch edges that dominate every
    EncryptedPacket construction of the reader and the statements that yield / return / append it (intersection over the
    constructions and over the hand-out statements), plus the conditional expressions / short-circuit operands around the
    construction; (3) the size n of the packet bytes is `ciphertext length + 16` as a polynomial (read length, slice bounds)
    after position-aware substitution of single-definition temporaries (`_expand_at`; results of calls other than len /
    bytes / memoryview ... stay named; `_same_values` checks on the CFG that no rebinding of a remaining local lies between
    the test and the read); (4) every condition is read as `n op K` in normal form (K folded (6), AES.block_size == 16) and
    its truth set must contain [32, +inf), 32 = one AES block (pad() appends 1..16 bytes) + 16-byte signature.  Server:
    a condition that is not such a predicate -> undecided (`<blob> is not None` is dropped, truthiness of the blob is
    n >= 1); client: conditions that do not mention the decoded frame length are left to the loop obligation above.
R8  (1)(3) keyword binding of the decrypt_packet call (verify <- self.verify_hmac, one key set via ** _asdict() or
    explicit fields), field / parameter name tables (6), the stored flag traced to the constructor parameter and its default.
R9  "the packet bytes are the framed bytes" (both framing readers): (3) backward value flow from the ciphertext / signature
    arguments of every EncryptedPacket a reader builds to the `output` field of the container, through flow-sensitive
    reaching definitions (loop-carried definitions followed once, no unrolling).  On the way the bytes may only be *selected
    by position* (slices, element access, <stream>.read / getvalue / getbuffer / tobytes) or *copied / viewed* (bytes,
    bytearray, memoryview, io.BytesIO, `x or b""`, a conditional between such values, `with memoryview(..) as v`).  A step
    through a bytes method whose result depends on the byte *values* ((5): the finite table _REWRITES - strip family,
    removeprefix / removesuffix, replace, translate, case mappings, expandtabs, split / partition family) is a violation:
    ciphertext and signature are opaque binary strings in which every byte value can occur at every position, so such a
    step is not the identity on all framed streams and the reader no longer splits the stream into exactly the bytes that
    were framed.  ((6) the only constant arguments recognised as making such a call the identity: an empty strip set /
    prefix / suffix, translate(None).)  Any other step (an unresolved call, decode / encode, join, concatenation with a
    non-empty constant, a parameter) is undecided.  Slice bounds and read lengths are NOT looked at here (R4 / R7 do).
R10 "one CBC chain over the whole message" (encrypt_data / decrypt_data): (1) resolved AES.new calls; (2) is the construction
    evaluated more than once per call - its statement lies on a CFG cycle, or (1) it is the element / condition / inner
    iterable of a comprehension; (3) the names bound by the statements of that cycle / the comprehension targets are the
    values that change between the repetitions; the data argument of every <cipher>.encrypt / .decrypt whose receiver
    originates from that construction (definitions followed), with temporaries inlined: if it mentions a changing name while
    key and iv do not, every piece of the message is processed as a fresh chain from the IV -> violated (the peer - the
    other function of the pair, and the property's `AES-128-CBC under the configured IV` - runs one chain: only block 0 is
    chained to the IV).  A repeated construction whose key / iv change (hand-made chaining) -> undecided; one cipher
    object built outside the loop and fed piece by piece is one chain -> discharged.  Nothing is executed or unrolled.
"""

from __future__ import annotations

import ast
import copy

from csverif import absint
from csverif.astutil import (
    assignments_to, bind_args, compare_parts, conjuncts, const_eval, dotted, fn_calls, head, is_const, kwarg, nnf, NotConst, params,
    src, statements, param_defaults,
)
from csverif.cfg import ENTRY, EXIT
from csverif.loader import Func
from csverif.q import FuncView, all_origins, calls_to, inline, origin, raise_class, tv_eval

SIG_LEN = 16  # property statement: "first 16 bytes of HMAC-SHA256"
BLOCK = 16  # AES block size (pycryptodome constant AES.block_size)


# ---------------------------------------------------------------------------- generic private helpers
def _inl(f, e, keep=()):
    """Expression e of function f with every single-definition temporary substituted (None stays None); the names in
    `keep` (e.g. the stream whose identity matters) are left alone."""
    return None if e is None else inline(f.node, e, stop=frozenset(keep))


def _inl_once(f, e, keep=()):
    """One level of _inl: single-definition names are replaced by their definitions, which are not expanded further."""
    return inline(f.node, e, depth=6, stop=frozenset(keep))


def _strip_bool(e):
    """bool(x) -> x (truthiness is all a test looks at)."""
    while isinstance(e, ast.Call) and dotted(e.func) == "bool" and len(e.args) == 1 and not e.keywords:
        e = e.args[0]
    return e


class _NoBool(ast.NodeTransformer):
    def visit_Call(self, node):
        self.generic_visit(node)
        if dotted(node.func) == "bool" and len(node.args) == 1 and not node.keywords:
            return node.args[0]
        return node


def _truth(e):
    """A copy of test e with every bool(x) replaced by x (inside not/and/or only truthiness matters)."""
    return _NoBool().visit(copy.deepcopy(e))


def _strip_bytes(e):
    """bytes(x) -> x (copying a bytes-like object does not change its content)."""
    while isinstance(e, ast.Call) and dotted(e.func) in ("bytes", "bytearray") and len(e.args) == 1 and not e.keywords:
        e = e.args[0]
    return e


def _spec(ctx, f, assume):
    """CFG of f with the branch edges removed that are infeasible under the truthiness assumptions; tests are looked at
    with their temporaries inlined (`must = bool(verify); if must:` is the same test as `if verify:`)."""
    cfg = ctx.cfg(f)
    c = copy.copy(cfg)
    c.g = cfg.g.copy()
    c._idom = None
    c._ipdom = None
    for n, st in cfg.stmt.items():
        if isinstance(st, (ast.If, ast.While)):
            v = tv_eval(st.test, assume)
            if v is None:
                v = tv_eval(_truth(_inl(f, st.test)), assume)
            if v is None:
                continue
            dead = cfg.edge_node(st, "false" if v else "true")
            if c.g.has_edge(n, dead):
                c.g.remove_edge(n, dead)
    return c


def _ext(ctx, f, call):
    """Dotted external name a call resolves to (import aliases followed), else the literal dotted callee text."""
    d = dotted(call.func)
    try:
        cal = ctx.rs.resolve_call(f, call)
    except Exception:
        return d
    if cal.kind == "external" and cal.fq:
        return cal.fq
    return d


def _resolved(ctx, f, call):
    try:
        return ctx.rs.resolve_call(f, call)
    except Exception:
        return None


def _is_pkg_call(ctx, f, e, fq):
    if not isinstance(e, ast.Call):
        return False
    cal = _resolved(ctx, f, e)
    return cal is not None and ((cal.kind == "func" and cal.func is not None and cal.func.fq == fq) or (cal.kind == "class" and cal.fq == fq))


def _dfs(n):
    yield n
    for c in ast.iter_child_nodes(n):
        yield from _dfs(c)


def _before(ctx, f, a, b):
    """Is (original) node a evaluated before node b whenever both are?  True / False / None (not ordered by dominance).
    Inside one statement: operands are evaluated left to right, an argument before the call it is passed to."""
    fv = FuncView.of(f.node)
    cfg = ctx.cfg(f)
    sa, sb = fv.stmt_of(a), fv.stmt_of(b)
    if sa is None or sb is None:
        return None
    if sa is sb:
        order = [id(x) for x in _dfs(sa)]
        if id(a) not in order or id(b) not in order:
            return None
        if any(x is b for x in _dfs(a)):
            return False
        if any(x is a for x in _dfs(b)):
            return True
        return order.index(id(a)) < order.index(id(b))
    if not cfg.has(sa) or not cfg.has(sb):
        return None
    na, nb = cfg.node(sa), cfg.node(sb)
    if cfg.dominates(na, nb):
        return True
    if cfg.dominates(nb, na):
        return False
    return None


def _fields(ctx, cls_fq):
    """Field names of a NamedTuple-style class, in declaration order."""
    out = []
    for st in ctx.repo.cls(cls_fq).body:
        if isinstance(st, ast.AnnAssign) and isinstance(st.target, ast.Name):
            out.append(st.target.id)
    return out


def _bind_fields(call, fields):
    """field -> argument expression of a constructor call (positional or keyword); None if *args/** is involved."""
    if any(isinstance(a, ast.Starred) for a in call.args) or any(k.arg is None for k in call.keywords):
        return None
    out = dict(zip(fields, call.args))
    for k in call.keywords:
        out[k.arg] = k.value
    return out


def _flatten_add(e):
    if isinstance(e, ast.BinOp) and isinstance(e.op, ast.Add):
        return _flatten_add(e.left) + _flatten_add(e.right)
    return [e]


def _cval(node):
    try:
        return const_eval(node) if node is not None else None
    except NotConst:
        return None


def _mentions(e, dn):
    return any(dotted(x) == dn for x in ast.walk(e) if isinstance(x, (ast.Attribute, ast.Name)))


def _local_names_in(f, e):
    ps = set(params(f.node))
    return {x.id for x in ast.walk(e) if isinstance(x, ast.Name) and x.id not in ps and assignments_to(f.node, x.id)}


def run(ctx):
    rep = ctx.rep
    rep.explanation = (
        "Static analysis of dissect/cobaltstrike/c2.py: CFG dominance (verify -> signature check -> decrypt), exit "
        "analysis of raise_for_signature, agreement of signer/verifier HMAC expressions and of the signature-length "
        "constant across its sites; pad(): on every return path the appended count equals 16 - len(data) % 16 in polynomial "
        "normal form over the atoms len(data) and (P) % m (stated lemmas), with residue facts from the dominating branch "
        "conditions, cross-checked by interval abstract interpretation of the count (len(data) >= 0, block size 16); "
        "cipher construction agreement (a None-key guard may sit in a package decorator's wrapper: the wrapped call must be "
        "unreachable there under {key is None}), one CBC chain per message (a cipher construction that is repeated - CFG cycle or "
        "comprehension - with the same key and IV must not be fed pieces of the message that change between the repetitions), "
        "framing writer/reader agreement (subjects located by role: the arguments that feed the "
        "EncryptedPacket fields, the stream / buffer / offset they are taken from, the decoded length prefix; the reader loop is "
        "walked once with its loop-carried values symbolic, and its continuation condition, read as an interval predicate of the "
        "number of bytes left, must hold whenever a complete frame - at least 4 + 16 + 16 = 36 bytes - is left and fail when "
        "nothing is left; the conditions that dominate the construction and the yield of the packet in either reader, read as "
        "interval predicates of the size of the task blob / of the decoded frame length, must hold for every size >= 16 + 16 = 32, "
        "so that no complete packet is dropped), provenance of the packet bytes (backward value flow from the EncryptedPacket fields of both framing "
        "readers to the `output` field: only position-based selection and copies / views on the way, no step whose result "
        "depends on the byte values such as strip / replace / split), keyword binding of "
        "decrypt_packet from BeaconKeys. Decides these structural necessary conditions on every path without executing or "
        "interpreting the analysed code on concrete inputs; does not decide AES/HMAC behaviour or plaintext equality."
    )
    rep.not_decided = [
        "decorators of encrypt_data / decrypt_data that are not package functions of the shape `def deco(func): def wrapper(..): "
        ".. func(..) ..; return wrapper` (optionally produced by a factory): guard / forwarding reported as undecided; what a "
        "wrapper does to the data argument or the return value is not looked at",
        "R10: hand-made chaining (repeated AES.new with an IV that changes per piece), whether pieces are block aligned, pieces "
        "handled by different cipher objects outside loops (R5 reports a returned value that is not one cipher output)",
        "that AES-CBC/HMAC-SHA256 compute what they should (library)",
        "bit-flip rejection as such (follows from R1-R3 plus HMAC)",
        "plaintext equality for all inputs",
        "pad() spellings outside the recognised terms (<data> + <fill> * <count>, <data>.ljust(<width>, <fill>); counts built "
        "from + - * // % & `or` on len(data) and constants): reported as undecided, e.g. loops that append, divmod unpacking, join()",
        "framing readers whose loop body is not a straight line of assignments and exit-only guards (try/except around the "
        "reads, for-loops, conditional advances) or whose continuation condition is not a comparison of the remaining length "
        "with a constant: reported as undecided",
        "behaviour of the framing readers on malformed streams (truncated frames, trailing garbage shorter than a frame)",
        "`a complete packet is not dropped`: conditions in front of the packet that are not comparisons of the blob / frame size "
        "with a constant (residue tests such as `len(data) % 16`, tests of the built packet's fields, size compared with the "
        "remaining length), packets built inside comprehensions, drops by exception handlers: reported as undecided / not looked at",
        "R9: packet bytes that reach the EncryptedPacket fields through anything but slices / element access / stream reads / "
        "bytes, bytearray, memoryview, io.BytesIO copies / `or` / conditionals / the value-dependent bytes methods of the table "
        "(helpers that are not inlined, decode/encode, join, concatenation with constants, for-targets, augmented assignment): "
        "reported as undecided; what is done to `output` before it is stored in the container (C2Http.recover) is not C05's",
    ]
    rep.trusted_base = [
        "R10 lemma: CBC decryption of block i uses ciphertext block i - 1 (block 0: the IV); a cipher object constructed from "
        "(key, IV) starts at the IV, and one object fed block-aligned pieces in order continues its chain (pycryptodome CBC mode), "
        "so pieces handled by separately constructed ciphers with the same IV differ from the single chain in their first block",
        "a decorated function is only entered through the wrapper(s) its decorators return (no monkey-patching, `__wrapped__` not used)",
        "CPython ast", "networkx dominators", "AES.block_size == 16 (pycryptodome constant)",
        "csverif.absint interval transfer functions and SymPoly normal form",
        "lemma L1: x // m == (x - x % m) / m (division identity)",
        "lemma L2: (x + k*m) % m == x % m",
        "lemma L3: (c*(x % m) + y) % m == (c*x + y) % m",
        "lemma L4: (x % m or m) == m - (-x) % m",
        "lemma L5: 0 <= x % m <= m - 1 and every residue occurs for some len(data) in 0..m-1",
        "lemma L6: x & (2**j - 1) == x % 2**j for Python ints",
        "bytes semantics: b * k is empty for k <= 0; ljust(w, f) appends max(0, w - len) copies of the one-byte f",
        "smallest frame: dumps() writes a 4-byte prefix, the ciphertext is at least one AES block (R5: pad() appends 1..16 "
        "bytes) and the signature is 16 bytes (R4), so at a frame boundary of a well-formed stream either 0 or >= 36 bytes are left",
        "len(bytes(b)) == len(memoryview(b)) == len(b), and slices of a copy / view hold the same bytes",
        "smallest packet: a task blob / frame payload of 32 bytes (one AES block, because pad() appends 1..16 bytes (R5), plus the "
        "16-byte signature (R4)) is a complete packet, so a necessary condition for handing out the packet must hold for every "
        "size >= 32; a statement is executed only if every branch edge that dominates it is taken",
        "a local bound once to the result of a call denotes that result wherever the binding dominates; the value of a local at "
        "two reads ordered by dominance is the same if no definition of it lies on a path from the first read to the second that "
        "does not pass the first read again",
        "interval reading of `r op K` for an integer r >= 0 (r > K holds exactly on [K + 1, +inf), r >= K on [K, +inf), ...)",
        "R9 lemma: ciphertext (AES-CBC output) and signature (truncated HMAC-SHA256) are opaque binary strings - every byte value "
        "can occur at every position, in particular first and last - so a bytes method whose result depends on byte values "
        "(strip / lstrip / rstrip / removeprefix / removesuffix with a non-empty argument, replace, translate with a table, "
        "lower / upper / swapcase / capitalize / title, expandtabs, split / rsplit / splitlines / partition / rpartition) is not "
        "the identity on all framed streams",
        "R9: slices, element access, <stream>.read/getvalue/getbuffer/tobytes select bytes by position only; bytes(), "
        "bytearray(), memoryview(), io.BytesIO() hold the same bytes as their argument; memoryview / BytesIO __enter__ return self",
    ]
    rep.assumptions = ["hmac.new / AES.new behave as documented", "no monkey-patching of c2 module functions at run time",
                       "pad() is called with its default block size (the call in encrypt_data is checked by R5)"]

    dp = ctx.repo.func("c2.decrypt_packet")
    rfs = ctx.repo.func("c2.EncryptedPacket.raise_for_signature")
    ep = ctx.repo.func("c2.encrypt_packet")
    r1(ctx, dp)
    r2(ctx, rfs)
    r3_r4(ctx, rfs, ep)
    r5(ctx)
    r6(ctx)
    r7(ctx)
    r8(ctx, dp)
    r9(ctx)
    r10(ctx)
    rep.count("signature_length_sites", rep.counts.get("signature_length_sites", 0), floor=6)


# ---------------------------------------------------------------------------- R1
def r1(ctx, dp):
    cfg = ctx.cfg(dp)
    fn = dp.node
    ps = params(fn)
    text = "plaintext only after raise_for_signature(hmac_key)"
    if "verify" not in ps or "hmac_key" not in ps:
        ctx.ob("R1", "DOM", dp, text, False, "decrypt_packet lost its verify/hmac_key parameters", fn)
        return
    for p in ("verify", "hmac_key"):
        if assignments_to(fn, p):
            ctx.ob("R1", "DOM", dp, f"{p} rebound", False, f"parameter {p} is rebound inside decrypt_packet", fn)
    dflt = param_defaults(fn).get("verify")
    ctx.ob("R1", "DOM", dp, "verify default", dflt is None or _cval(dflt) is True,
           f"default of verify is {src(dflt)} (must not default to off)", fn)
    dec = ctx.repo.func("c2.decrypt_data")
    rfs = ctx.repo.func("c2.EncryptedPacket.raise_for_signature")
    data_sinks = calls_to(ctx, dp, target_fq="c2.decrypt_data")
    sinks = [(c, bind_args(c, dec.node).get(params(dec.node)[0])) for c in data_sinks]
    # any other way to obtain plaintext: a direct cipher.decrypt in this function
    for c in fn_calls(fn):
        if isinstance(c.func, ast.Attribute) and c.func.attr == "decrypt" and not any(c is s for s, _a in sinks):
            sinks.append((c, c.args[0] if c.args else None))
    if not sinks:
        ctx.undecided("R1", "DOM", dp, text, "no call that produces plaintext (decrypt_data / <cipher>.decrypt) found in decrypt_packet", fn)
        return
    guards = calls_to(ctx, dp, target_fq="c2.EncryptedPacket.raise_for_signature", attr="raise_for_signature")
    inlined_check = not guards and any(
        (isinstance(n, ast.Call) and (_ext(ctx, dp, n) or "").startswith("hmac.")) or (isinstance(n, ast.Attribute) and n.attr == "signature")
        for n in ast.walk(fn))
    fv = FuncView.of(fn)
    spec = _spec(ctx, dp, {"verify": True})
    spec_nokey = _spec(ctx, dp, {"verify": True, "hmac_key": False})
    key_param = [p for p in params(rfs.node) if p != "self"][:1]
    for s, data_arg in sinks:
        sn = cfg.node(fv.stmt_of(s))
        if not spec.reaches(ENTRY, sn):
            ctx.ob("R1", "DOM", dp, text + " [unreachable with verify]", True, f"{src(s)} is unreachable when verify is truthy", s)
            continue
        if inlined_check:
            ctx.undecided("R1", "DOM", dp, text, "decrypt_packet does not call raise_for_signature but handles HMAC/signature "
                          "values itself: the inlined verification is not understood", s)
            continue
        a0 = _inl(dp, data_arg)
        pkt = dotted(a0)[: -len(".ciphertext")] if dotted(a0) and dotted(a0).endswith(".ciphertext") else None
        dominating, same = [], []
        for g in guards:
            if not isinstance(g.func, ast.Attribute):
                continue
            gb = bind_args(g, rfs.node, skip_self=True)
            key = _inl(dp, gb.get(key_param[0])) if key_param else None
            if key is None or dotted(_strip_bytes(key)) != "hmac_key":
                continue
            gn = cfg.node(fv.stmt_of(g))
            if not (spec.dominates(gn, sn) and gn != sn):
                continue
            dominating.append(g)
            recv = dotted(_inl(dp, g.func.value))
            if recv is not None and pkt is not None and recv == pkt:
                same.append(g)
        if same:
            ctx.ob("R1", "DOM", dp, text, True, f"with verify truthy, raise_for_signature(hmac_key) on the decrypted packet dominates {src(s)}", s)
        elif not dominating:
            ctx.ob("R1", "DOM", dp, text, False,
                   "with verify truthy there is a path to the decrypt call that does not complete raise_for_signature(hmac_key): "
                   + " -> ".join(spec.witness_path(ENTRY, sn, avoiding=[cfg.node(fv.stmt_of(g)) for g in guards])), s)
        elif pkt is not None and all(dotted(_inl(dp, g.func.value)) is not None for g in dominating):
            ctx.ob("R1", "DOM", dp, text, False,
                   f"the signature check is made on {[src(g.func.value) for g in dominating]} but the ciphertext of {pkt} is decrypted", s)
        else:
            ctx.undecided("R1", "DOM", dp, text, f"a signature check dominates {src(s)} but the decrypted data {src(a0)} "
                          "could not be related to the checked packet", s)
        # missing key must be rejected: under verify & no hmac_key the sink is unreachable
        reach = spec_nokey.reaches(ENTRY, sn)
        ctx.ob("R1", "DOM", dp, "no plaintext without hmac_key", not reach,
               "with verify truthy and hmac_key falsy the decrypt call is unreachable" if not reach else
               "with verify truthy and hmac_key falsy the decrypt call is reachable: " + " -> ".join(spec_nokey.witness_path(ENTRY, sn)), s)
    # and on that path every exit is raise ValueError
    normal = spec_nokey.reaches(ENTRY, EXIT)
    ctx.ob("R1", "EXIT", dp, "exits [verify, no hmac_key]", not normal,
           "all exits raise" if not normal else "returns normally with verify truthy and no hmac_key", fn)
    for r in cfg.raise_stmts():
        if spec_nokey.reaches(ENTRY, cfg.node(r)):
            cls = raise_class(r)
            ctx.ob("R1", "EXIT", dp, "raise [verify, no hmac_key]", cls == "ValueError", f"raises {cls} for a missing HMAC key (documented: ValueError)", r)


# ---------------------------------------------------------------------------- R2
_CMP_DIGEST = ("hmac.compare_digest", "compare_digest", "secrets.compare_digest", "_hashlib.compare_digest", "operator.eq")


def _equality_edge(ctx, f, test):
    """(equal_on_true_edge, left, right) for ==, !=, hmac.compare_digest, not ..."""
    neg = False
    test = _strip_bool(test)
    while isinstance(test, ast.UnaryOp) and isinstance(test.op, ast.Not):
        neg = not neg
        test = _strip_bool(test.operand)
    if isinstance(test, ast.Compare) and len(test.ops) == 1:
        if isinstance(test.ops[0], ast.Eq):
            return (not neg, test.left, test.comparators[0])
        if isinstance(test.ops[0], ast.NotEq):
            return (neg, test.left, test.comparators[0])
    if isinstance(test, ast.Call) and len(test.args) == 2 and not test.keywords and (dotted(test.func) in _CMP_DIGEST or _ext(ctx, f, test) in _CMP_DIGEST):
        return (not neg, test.args[0], test.args[1])
    return None


def _is_len(e):
    return isinstance(e, ast.Call) and dotted(e.func) == "len"


def _has_mac(ctx, f, e):
    return any(isinstance(x, ast.Call) and _ext(ctx, f, x) in _HMAC_ALL for x in ast.walk(e))


def _sig_tests(ctx, rfs):
    """Branch tests of the verifier that (with temporaries inlined) compare a value with the packet's signature:
    [(stmt, equal_on_true_edge, signature side, other side)]."""
    cfg = ctx.cfg(rfs)
    out = []
    for _n, st in cfg.stmt.items():
        if isinstance(st, (ast.If, ast.While)):
            test = _strip_bool(_inl(rfs, st.test))
            ee = _equality_edge(ctx, rfs, test)
            if ee is None and isinstance(test, ast.BoolOp):
                # `A and x == y`: the true edge implies equality; `A or x != y`: the false edge implies equality
                want = isinstance(test.op, ast.And)
                cands = []
                for part in test.values:
                    pe = _equality_edge(ctx, rfs, part)
                    if pe is not None and pe[0] == want and (_mentions(pe[1], "self.signature") or _mentions(pe[2], "self.signature")) \
                            and not _is_len(pe[1]) and not _is_len(pe[2]):
                        cands.append(pe)
                cands.sort(key=lambda pe: "self.signature" not in (dotted(pe[1]), dotted(pe[2])))
                ee = cands[0] if cands else None
            if ee is None:
                continue
            eq_true, l, r = ee
            if _is_len(l) or _is_len(r):
                continue  # a comparison of lengths is a sanity check, not the comparison of the signatures
            ls, rs = _mentions(l, "self.signature"), _mentions(r, "self.signature")
            if ls == rs:
                if ls and (_has_mac(ctx, rfs, l) != _has_mac(ctx, rfs, r)):
                    # both mention it (e.g. the recomputed value is cut to len(self.signature)): the signature side is
                    # the one that is not derived from the HMAC
                    sig, other = (r, l) if _has_mac(ctx, rfs, l) else (l, r)
                    out.append((st, eq_true, sig, other))
                continue
            sig, other = (l, r) if ls else (r, l)
            out.append((st, eq_true, sig, other))
    return out


def r2(ctx, rfs):
    cfg = ctx.cfg(rfs)
    text = "signature comparison"
    tests = _sig_tests(ctx, rfs)
    # the comparison the property talks about: self.signature against a value derived from an HMAC computation; other
    # tests that merely look at self.signature (a length sanity check ...) are not it
    real = [t for t in tests if _has_mac(ctx, rfs, t[3])]
    opaque = [t for t in tests if t not in real and (_local_names_in(rfs, t[3]) or any(isinstance(x, ast.Call) for x in ast.walk(t[3])))]
    if not real:
        fv = FuncView.of(rfs.node)
        used = [n for n in ast.walk(rfs.node) if isinstance(n, ast.Attribute) and dotted(n) == "self.signature"
                and not isinstance(fv.stmt_of(n), ast.Raise)]
        if opaque:
            st, _eq, _sig, other = opaque[0]
            ctx.undecided("R2", "EXIT", rfs, text, f"self.signature is compared with {src(other)}, whose derivation from an HMAC could not be followed", st)
        elif used:
            ctx.undecided("R2", "EXIT", rfs, text, "self.signature is used, but no branch test comparing it with a recomputed HMAC was recognised", rfs.node)
        else:
            ctx.ob("R2", "EXIT", rfs, text, False, "raise_for_signature never compares self.signature with anything", rfs.node)
        return
    for st, eq_true, sig, other in real:
        if dotted(sig) != "self.signature":
            ctx.ob("R2", "EXIT", rfs, text, False, f"the test compares {src(sig)}, not the whole self.signature, with {src(other)}", st)
            continue
        eq = cfg.edge_node(st, "true" if eq_true else "false")
        ne = cfg.edge_node(st, "false" if eq_true else "true")
        # every normal return passes the equal edge; the unequal edge cannot return normally
        passes = cfg.all_paths_pass(ENTRY, EXIT, [eq])
        ne_returns = cfg.reaches(ne, EXIT, avoiding=[eq])
        ok = passes and not ne_returns
        ctx.ob("R2", "EXIT", rfs, text, ok,
               "every normal return passes the signatures-equal edge; unequal edge only raises" if ok else
               f"all-returns-pass-equal-edge={passes} unequal-edge-can-return={ne_returns}", st)
        for rs in cfg.raise_stmts():
            if cfg.dominates(ne, cfg.node(rs)):
                ctx.ob("R2", "EXIT", rfs, "raise on mismatch", raise_class(rs) == "ValueError", f"raises {raise_class(rs)} on mismatch", rs)


# ---------------------------------------------------------------------------- R3 / R4
_HMAC_CTOR = ("hmac.new", "hmac.HMAC")
_HMAC_ONESHOT = ("hmac.digest",)
_HMAC_ALL = _HMAC_CTOR + _HMAC_ONESHOT


def _digest_name(a):
    if a is None:
        return None
    if isinstance(a, ast.Constant):
        return str(a.value).lower().replace("-", "")
    if isinstance(a, ast.Call) and not a.args and dotted(a.func):  # hashlib.sha256() instance is not accepted by hmac; keep text
        return src(a)
    d = dotted(a)
    if d:
        return d.split(".")[-1].lower().replace("openssl_", "")
    return src(a)


def _parse_mac(ctx, f, e):
    """Structure of a (temporaries-inlined) signature expression `hmac.new(K, M, D).digest()[:N]` / `hmac.digest(K, M, D)[:N]`.
    Returns None if no HMAC call is met on the way down through slices / method calls / bytes() copies."""
    slices, chain = [], []
    n = e
    while True:
        n = _strip_bytes(n)
        if isinstance(n, ast.Call) and _ext(ctx, f, n) in _HMAC_ALL:
            break
        if isinstance(n, ast.Subscript):
            slices.append(n.slice)
            n = n.value
            continue
        if isinstance(n, ast.Call) and isinstance(n.func, ast.Attribute):
            chain.append(n.func.attr if not n.args and not n.keywords else n.func.attr + "(..)")
            n = n.func.value
            continue
        return None
    oneshot = _ext(ctx, f, n) in _HMAC_ONESHOT
    names = ("key", "msg", "digest") if oneshot else ("key", "msg", "digestmod")
    b = dict(zip(names, n.args))
    for k in n.keywords:
        if k.arg:
            b[k.arg] = k.value
    msg_opaque = False
    if b.get("msg") is None and not oneshot:
        # message fed with <mac>.update(M) instead of the constructor argument
        ups = [c for c in fn_calls(f.node) if isinstance(c.func, ast.Attribute) and c.func.attr == "update" and _has_mac(ctx, f, origin(f.node, c.func.value))]
        if len(ups) == 1 and len(ups[0].args) == 1 and not ups[0].keywords:
            b["msg"] = _inl(f, ups[0].args[0])
        elif ups:
            msg_opaque = True
    # effective truncation: every subscript must be a prefix slice [:k] / [0:k]
    upper = None
    for sl in slices:
        if isinstance(sl, ast.Slice) and sl.step is None and (sl.lower is None or is_const(sl.lower, 0)) and sl.upper is not None:
            k = _cval(sl.upper)
            if type(k) is int and k >= 0:
                upper = k if not isinstance(upper, int) else min(upper, k)
                continue
            upper = "non-constant " + src(sl.upper)
            break
        upper = "not a prefix slice: [" + src(sl) + "]"
        break
    return dict(call=n, key=b.get("key"), msg=b.get("msg"), dm=_digest_name(b.get(names[2])), chain=chain,
                chain_ok=(chain == [] if oneshot else chain == ["digest"]), upper=upper, sliced=bool(slices), msg_opaque=msg_opaque)


def _verifier_mac(ctx, rfs):
    """The recomputed-signature expression of the verifier: the value compared with self.signature; failing that, any
    value of the function built on an HMAC call.  -> (parsed | None, how)"""
    for _st, _eq, _sig, other in _sig_tests(ctx, rfs):
        p = _parse_mac(ctx, rfs, other)
        if p is not None:
            return p, "compared"
        if _has_mac(ctx, rfs, other):
            return None, "opaque"
    seen_mac = False
    for st in statements(rfs.node):
        v = getattr(st, "value", None)
        if isinstance(st, (ast.Assign, ast.AnnAssign, ast.Return, ast.Expr)) and v is not None:
            iv = _inl(rfs, v)
            p = _parse_mac(ctx, rfs, iv)
            if p is not None and p["sliced"]:
                return p, "assigned"
            seen_mac = seen_mac or _has_mac(ctx, rfs, iv)
    return None, ("opaque" if seen_mac else "absent")


def _signer_mac(ctx, ep):
    """(parsed signature | None, how, inlined ciphertext field, ctor call) of the EncryptedPacket built by the signer."""
    fields = _fields(ctx, "c2.EncryptedPacket")
    for c in calls_to(ctx, ep, target_fq="c2.EncryptedPacket"):
        b = _bind_fields(c, fields)
        if not b or b.get("signature") is None or b.get("ciphertext") is None:
            continue
        sig = _inl(ep, b["signature"])
        ct = _inl(ep, b["ciphertext"])
        p = _parse_mac(ctx, ep, sig)
        if p is not None:
            return p, "field", ct, c
        return None, ("opaque" if _has_mac(ctx, ep, sig) or _local_names_in(ep, sig) or any(isinstance(x, ast.Call) for x in ast.walk(sig)) else "nomac"), ct, c
    return None, "noctor", None, None


def r3_r4(ctx, rfs, ep):
    sites = 0
    ver, vhow = _verifier_mac(ctx, rfs)
    sig, show, s_ct, s_ctor = _signer_mac(ctx, ep)
    # ---- verifier
    if ver is None:
        if vhow == "absent":
            ctx.ob("R3", "AGREE", rfs, "verifier HMAC", False, "raise_for_signature computes no HMAC", rfs.node)
        else:
            ctx.undecided("R3", "AGREE", rfs, "verifier HMAC", "an HMAC is computed but the expression compared with the signature is not of the form "
                          "HMAC(key, msg, digest).digest()[:N]", rfs.node)
    else:
        vc = ver["call"]
        ctx.ob("R3", "AGREE", rfs, "verifier digest", ver["dm"] == "sha256" and ver["chain_ok"],
               f"verifier digest={ver['dm']} via {ver['chain'] or 'one-shot'} (raw SHA-256 digest required)", vc)
        vmsg = _strip_bytes(ver["msg"]) if ver["msg"] is not None else None
        if ver["msg_opaque"]:
            ctx.undecided("R3", "AGREE", rfs, "verifier message", "the HMAC is fed by several update() calls: authenticated message not located", vc)
        else:
            ctx.ob("R3", "AGREE", rfs, "verifier message", vmsg is not None and dotted(vmsg) == "self.ciphertext",
                   f"verifier authenticates {src(vmsg)} (must be the ciphertext)", vc)
        vkey = _strip_bytes(ver["key"]) if ver["key"] is not None else None
        k_ok = isinstance(vkey, ast.Name) and vkey.id in params(rfs.node) and vkey.id != "self" and not assignments_to(rfs.node, vkey.id)
        ctx.ob("R3", "AGREE", rfs, "verifier key", k_ok, f"verifier key={src(vkey)} (must be the key parameter, unmodified)", vc)
        ctx.ob("R4", "TABLE", rfs, "verifier [:N]", ver["upper"] == SIG_LEN, f"verifier truncates digest to {ver['upper']} (16 required)", vc)
        sites += 1
    # ---- signer
    if sig is None:
        if show == "nomac":
            ctx.ob("R3", "AGREE", ep, "signer HMAC", False, "the signature field of the packet built by encrypt_packet is not an HMAC", s_ctor)
        else:
            ctx.undecided("R3", "AGREE", ep, "signer HMAC", "the signature field of the EncryptedPacket built by encrypt_packet could not be "
                          f"located or is not of the form HMAC(key, msg, digest).digest()[:N] ({show})", s_ctor or ep.node)
    else:
        sc = sig["call"]
        ctx.ob("R3", "AGREE", ep, "signer digest", sig["dm"] == "sha256" and sig["chain_ok"],
               f"signer digest={sig['dm']} via {sig['chain'] or 'one-shot'} (raw SHA-256 digest required)", sc)
        smsg = _strip_bytes(sig["msg"]) if sig["msg"] is not None else None
        bound = smsg is not None and s_ct is not None and src(smsg) == src(_strip_bytes(s_ct))
        is_ct = s_ct is not None and _is_pkg_call(ctx, ep, _strip_bytes(s_ct), "c2.encrypt_data")
        detail = f"signer authenticates {src(smsg)}; is the ciphertext field of the returned packet={bound}; that field is the encrypt_data result={is_ct}"
        if sig["msg_opaque"]:
            ctx.undecided("R3", "AGREE", ep, "signer message", "the HMAC is fed by several update() calls: authenticated message not located", sc)
        elif bound and not is_ct and any(isinstance(x, ast.Call) for x in ast.walk(_strip_bytes(s_ct))):
            # the signed value is what is sent, but it is produced by something other than a direct encrypt_data call
            ctx.undecided("R3", "AGREE", ep, "signer message", detail + " (origin of the ciphertext not understood)", sc)
        else:
            ctx.ob("R3", "AGREE", ep, "signer message", bound and is_ct, detail, sc)
        skey = _strip_bytes(sig["key"]) if sig["key"] is not None else None
        fwd = set()
        for c in calls_to(ctx, ep, target_fq="c2.encrypt_data"):
            for v in bind_args(c, ctx.repo.func("c2.encrypt_data").node).values():
                d = dotted(_inl(ep, v)) if v is not None else None
                if d:
                    fwd.add(d)
        k_ok = isinstance(skey, ast.Name) and skey.id in params(ep.node) and not assignments_to(ep.node, skey.id) and skey.id not in fwd
        ctx.ob("R3", "AGREE", ep, "signer key", k_ok, f"signer key={src(skey)} (must be a key parameter of its own, not the AES key/IV/plaintext)", sc)
        ctx.ob("R4", "TABLE", ep, "signer [:N]", sig["upper"] == SIG_LEN, f"signer truncates digest to {sig['upper']} (16 required)", sc)
        sites += 1
    if ver is not None and sig is not None:
        ctx.ob("R3", "AGREE", rfs, "signer/verifier agreement", (ver["dm"], ver["chain_ok"], ver["upper"]) == (sig["dm"], sig["chain_ok"], sig["upper"]),
               f"verifier (digest, raw digest, N)={(ver['dm'], ver['chain_ok'], ver['upper'])} signer={(sig['dm'], sig['chain_ok'], sig['upper'])}", ver["call"])
    # ---- framing readers: the signature length again
    for fq in ("c2.ServerC2Data.iter_encrypted_packets", "c2.ClientC2Data.iter_encrypted_packets"):
        f = ctx.repo.func(fq)
        sites += _r4_reader(ctx, f)
    ctx.rep.counts["signature_length_sites"] = sites


# ---------------------------------------------------------------------------- framing readers (R4 / R7)
_CONSUMING = ("read", "read1", "readline", "readinto", "seek", "write", "truncate")


def _split_minus_const(e):
    """e == ATOM - K (as polynomials, K a non-negative int): (node of ATOM inside e, K); else None."""
    p = absint.sympoly(e)
    if p is None:
        return None
    c = p.terms.get((), 0)
    rest = {k: v for k, v in p.terms.items() if k != ()}
    if len(rest) != 1 or c.denominator != 1:
        return None
    (mono, coef), = rest.items()
    if len(mono) != 1 or coef != 1:
        return None
    for x in _dfs(e):
        if isinstance(x, (ast.Call, ast.Attribute, ast.Name)) and (dotted(x) == mono[0] or src(x) == mono[0]):
            return x, -int(c)
    return None


def _reader_packets(ctx, f):
    """The EncryptedPacket constructions of a framing reader with their ciphertext/signature sources located by role.
    mode 'read': both fields are <S>.read(n) on one stream S; mode 'slice': both are slices of one buffer expression."""
    fields = _fields(ctx, "c2.EncryptedPacket")
    out = []
    for c in calls_to(ctx, f, target_fq="c2.EncryptedPacket"):
        b = _bind_fields(c, fields)
        m = dict(ctor=c, mode=None, why="")
        out.append(m)
        if not b or b.get("ciphertext") is None or b.get("signature") is None:
            m["why"] = "constructor arguments could not be bound to the fields"
            continue
        ct = _strip_bytes(origin(f.node, _strip_bytes(b["ciphertext"])))
        sg = _strip_bytes(origin(f.node, _strip_bytes(b["signature"])))
        m["ct"], m["sig"] = ct, sg

        def is_read(x):
            return isinstance(x, ast.Call) and isinstance(x.func, ast.Attribute) and x.func.attr == "read" and dotted(x.func.value) is not None

        if is_read(ct) and is_read(sg):
            if dotted(ct.func.value) != dotted(sg.func.value):
                m["why"] = f"ciphertext is read from {src(ct.func.value)} and signature from {src(sg.func.value)}"
                continue
            if len(ct.args) != 1 or len(sg.args) != 1 or ct.keywords or sg.keywords:
                m["why"] = "a field is read without an explicit length"
                continue
            s = dotted(ct.func.value)
            m.update(mode="read", stream=s, n_ct=_inl(f, ct.args[0], keep=[s.split(".")[0]]), n_sig=_inl(f, sg.args[0], keep=[s.split(".")[0]]))
        elif isinstance(ct, ast.Subscript) and isinstance(sg, ast.Subscript) and isinstance(ct.slice, ast.Slice) and isinstance(sg.slice, ast.Slice):
            bc, bs = _inl(f, ct.value), _inl(f, sg.value)
            if src(bc) != src(bs):
                m["why"] = f"ciphertext is cut from {src(bc)} and signature from {src(bs)}"
                continue
            m.update(mode="slice", base=bc, base_orig=origin(f.node, ct.value))
        else:
            m["why"] = f"fields come from {src(ct)} / {src(sg)}: neither two reads of one stream nor two slices of one buffer"
    return out


def _r4_reader(ctx, f):
    sites = 0
    pk = _reader_packets(ctx, f)
    if not pk:
        ctx.undecided("R4", "TABLE", f, "framing reads", "no EncryptedPacket construction found in the reader", f.node)
        return 0
    for m in pk:
        if m["mode"] is None:
            ctx.undecided("R4", "TABLE", f, "framing reads", m["why"], m["ctor"])
            continue
        if m["mode"] == "read":
            sp = _split_minus_const(m["n_ct"])
            if sp is None:
                k0 = _cval(m["n_ct"])
                if type(k0) is int:
                    ctx.ob("R4", "TABLE", f, "ciphertext read", False, f"ciphertext length is the constant {k0}, not <frame size> - 16", m["ct"])
                else:
                    ctx.undecided("R4", "TABLE", f, "ciphertext read", f"ciphertext length {src(m['n_ct'])} is not of the form <size> - K", m["ct"])
            else:
                m["size_node"] = sp[0]
                ctx.ob("R4", "TABLE", f, "ciphertext read", sp[1] == SIG_LEN, f"ciphertext length is {src(m['n_ct'])}: subtracts {sp[1]} (16 required)", m["ct"])
                sites += 1
            k = _cval(m["n_sig"])
            if type(k) is int:
                ctx.ob("R4", "TABLE", f, "signature read", k == SIG_LEN, f"signature read length {k} (16 required)", m["sig"])
                sites += 1
            else:
                ctx.undecided("R4", "TABLE", f, "signature read", f"signature read length {src(m['n_sig'])} is not a constant", m["sig"])
        else:
            cs, ss = m["ct"].slice, m["sig"].slice
            tail = _tail_form(m)
            if tail is not None:
                ctx.ob("R4", "TABLE", f, "ciphertext read", tail[0] == SIG_LEN, f"ciphertext is [{src(cs)}] of the frame (all but the last 16 bytes required)", m["ct"])
                ctx.ob("R4", "TABLE", f, "signature read", tail[1] == SIG_LEN, f"signature is [{src(ss)}] of the frame (the last 16 bytes required)", m["sig"])
                sites += 2
            elif _is_walk(f, m):
                sites += _r4_walk(ctx, f, m)
            else:
                ctx.undecided("R4", "TABLE", f, "framing reads", f"slices [{src(cs)}] / [{src(ss)}] are not of the form [:-K] / [-K:]", m["ctor"])
    return sites


# ---------------------------------------------------------------------------- R5
# Library constants the rule knows (pycryptodome): AES.block_size is 16.
_KNOWN_ATTRS = {"AES.block_size": BLOCK, "Crypto.Cipher.AES.block_size": BLOCK, "Cryptodome.Cipher.AES.block_size": BLOCK}


def _kconst(e):
    """Constant folding of a constant expression in which AES.block_size is the library constant 16; None if e is not
    constant.  (Device 6: nothing of the analysed code is run, only literals are folded.)"""
    if e is None:
        return None

    class _K(ast.NodeTransformer):
        def visit_Attribute(self, node):
            if dotted(node) in _KNOWN_ATTRS:
                return ast.copy_location(ast.Constant(value=_KNOWN_ATTRS[dotted(node)]), node)
            return node

    return _cval(_K().visit(copy.deepcopy(e)))


class _PadTerms:
    """Polynomial normal form (absint.SymPoly) of the integer expressions of pad(), over the atoms

        n            = len(<data parameter>)                    (an integer >= 0)
        (P) % m      for a polynomial P with integer coefficients over integer atoms and a constant m >= 1

    Parameters with a constant default (the block size) are replaced by that constant (named assumption: pad() is called
    with its defaults - the call in encrypt_data is checked by the R5 AGREE obligation).  Algebraic lemmas, for integers
    x, y, c, k and a constant integer m >= 1:

      L1  x // m == (x - x % m) / m                          (division identity x == m * (x // m) + x % m)
      L2  (x + k * m) % m == x % m                           (a multiple of m does not change the residue)
      L3  (c * (x % m) + y) % m == (c * x + y) % m           (x % m is congruent to x; congruence respects + and *)
      L4  (x % m or m) == m - (-x) % m                       (x % m == 0: both sides m; else (-x) % m == m - x % m);
          `t if t else m` is the same expression as `t or m`
      L5  0 <= x % m <= m - 1, and x % m takes each of these values (x = 0 .. m - 1 are lengths of byte strings)
      L6  x & (2**j - 1) == x % 2**j                         (the low j bits of a Python int are its residue modulo 2**j)

    Anything else (other operators, non-constant moduli, atoms of unknown type under % or //) has no normal form: the
    caller is undecided on it."""

    def __init__(self, data, pconst):
        self.data = data
        self.pconst = dict(pconst)
        self.modinfo = {}  # atom name -> (numerator polynomial, modulus)
        self.int_atoms = {"n"}

    # -- polynomial helpers
    def _integral(self, p):
        return all(v.denominator == 1 for v in p.terms.values()) and p.atoms() <= self.int_atoms

    def mod_atom(self, p, m):
        """Normal form of (p) % m for an integral polynomial p (L2, L3); None if p is not integral."""
        if not self._integral(p):
            return None
        q = absint.SymPoly()
        for mono, coef in p.terms.items():
            if len(mono) == 1 and mono[0] in self.modinfo and self.modinfo[mono[0]][1] == m:
                q = q + self.modinfo[mono[0]][0] * absint.SymPoly.const(coef)  # L3
            else:
                q = q + absint.SymPoly({mono: coef})
        c = q.terms.get((), 0)
        q = q - absint.SymPoly.const((c // m) * m)  # L2
        if q.is_const():
            return absint.SymPoly.const(q.const_value() % m)
        name = f"({q!r}) % {m}"
        self.modinfo[name] = (q, m)
        self.int_atoms.add(name)
        return absint.SymPoly.atom(name)

    def _single_atom(self, p):
        if len(p.terms) == 1:
            (mono, coef), = p.terms.items()
            if len(mono) == 1 and coef == 1:
                return mono[0]
        return None

    def _subst(self, x):
        if isinstance(x, ast.Name) and x.id in self.pconst:
            return absint.SymPoly.const(self.pconst[x.id])
        if isinstance(x, ast.Attribute) and dotted(x) in _KNOWN_ATTRS:
            return absint.SymPoly.const(_KNOWN_ATTRS[dotted(x)])
        if isinstance(x, ast.Constant) and isinstance(x.value, bool):
            return None
        if isinstance(x, ast.Call) and dotted(x.func) == "len" and len(x.args) == 1 and not x.keywords \
                and dotted(_strip_bytes(x.args[0])) == self.data:
            return absint.SymPoly.atom("n")
        if isinstance(x, ast.BinOp) and isinstance(x.op, (ast.Mod, ast.FloorDiv)):
            a, b = self.nf(x.left), self.nf(x.right)
            m = b.const_value() if b is not None else None
            if a is None or m is None or m.denominator != 1 or m < 1:
                return None
            m = int(m)
            r = self.mod_atom(a, m)
            if r is None:
                return None
            if isinstance(x.op, ast.Mod):
                return r
            return (a - r).div_const(m)  # L1
        if isinstance(x, ast.BinOp) and isinstance(x.op, ast.BitAnd):  # L6
            a, b = self.nf(x.left), self.nf(x.right)
            for p, c in ((a, b), (b, a)):
                k = c.const_value() if c is not None else None
                if p is not None and k is not None and k.denominator == 1 and k >= 1 and (int(k) & (int(k) + 1)) == 0:
                    return self.mod_atom(p, int(k) + 1)
            return None
        or_parts = None
        if isinstance(x, ast.BoolOp) and isinstance(x.op, ast.Or) and len(x.values) == 2:
            or_parts = x.values
        elif isinstance(x, ast.IfExp) and src(x.test) == src(x.body):
            or_parts = [x.body, x.orelse]
        if or_parts is not None:  # L4
            a, b = self.nf(or_parts[0]), self.nf(or_parts[1])
            name = self._single_atom(a) if a is not None else None
            if name in self.modinfo and b is not None and b.const_value() == self.modinfo[name][1]:
                num, m = self.modinfo[name]
                neg = self.mod_atom(-num, m)
                if neg is not None:
                    return absint.SymPoly.const(m) - neg
            return None
        if isinstance(x, (ast.Name, ast.Attribute, ast.Call)):
            return None  # default: an opaque atom (not known to be an integer)
        return None

    def nf(self, e):
        return absint.sympoly(e, self._subst)

    def residue(self, m=BLOCK):
        """The atom n % m."""
        return self.mod_atom(absint.SymPoly.atom("n"), m)

    @staticmethod
    def substitute(p, atom, value):
        """p with `atom` replaced by the integer `value`."""
        out = absint.SymPoly()
        for mono, coef in p.terms.items():
            t = absint.SymPoly.const(coef)
            for a in mono:
                t = t * (absint.SymPoly.const(value) if a == atom else absint.SymPoly.atom(a))
            out = out + t
        return out


def _fill_part(e):
    """A padding operand `F * C`, `C * F` or a bare `F` (F a bytes literal): (F value, count expression | None for 1)."""
    if isinstance(e, ast.Constant) and isinstance(e.value, bytes):
        return e.value, None
    if isinstance(e, ast.BinOp) and isinstance(e.op, ast.Mult):
        for byts, cnt in ((e.left, e.right), (e.right, e.left)):
            if isinstance(byts, ast.Constant) and isinstance(byts.value, bytes):
                return byts.value, cnt
    return None


def _pad_shape(f, r, data):
    """Shape of the value a return statement of pad() yields, with temporaries inlined:
    dict(fills=[bytes literal values], count=<AST of the number of appended fill units>, width=<AST of a ljust target>)
    or None when the value is not recognised as `<data> + <fill> * <count> ...` / `<data>.ljust(<width>, <fill>)` / `<data>`."""
    if r.value is None:
        return None
    v = _strip_bytes(_inl(f, r.value))
    parts = [_strip_bytes(p) for p in _flatten_add(v)]
    if dotted(parts[0]) == data:
        fills, count = [], None
        for p in parts[1:]:
            fp = _fill_part(p)
            if fp is None:
                return None
            byts, cnt = fp
            fills.append(byts)
            unit = ast.Constant(value=len(byts))
            term = unit if cnt is None else (cnt if len(byts) == 1 else ast.BinOp(left=unit, op=ast.Mult(), right=cnt))
            count = term if count is None else ast.BinOp(left=count, op=ast.Add(), right=term)
        return dict(fills=fills, count=count if count is not None else ast.Constant(value=0), width=None)
    if isinstance(v, ast.Call) and isinstance(v.func, ast.Attribute) and v.func.attr == "ljust" and dotted(_strip_bytes(v.func.value)) == data \
            and not v.keywords and 1 <= len(v.args) <= 2:
        fill = v.args[1] if len(v.args) == 2 else ast.Constant(value=b" ")
        if not (isinstance(fill, ast.Constant) and isinstance(fill.value, bytes) and len(fill.value) == 1):
            return None
        ln = ast.Call(func=ast.Name(id="len", ctx=ast.Load()), args=[ast.Name(id=data, ctx=ast.Load())], keywords=[])
        return dict(fills=[fill.value], count=ast.BinOp(left=v.args[0], op=ast.Sub(), right=ln), width=v.args[0])
    return None


def _residue_conditions(ctx, f, r, terms, res_atom):
    """The branch conditions that dominate return r, read as facts about the residue atom n % 16:
    (eqs, neqs, understood) - `understood` is False when some dominating condition is not of the form
    <residue> == K / <residue> != K / truthiness of <residue>."""
    from csverif.q import dominating_conditions

    eqs, neqs, understood = set(), set(), True
    for _text, pol, node in dominating_conditions(ctx, f, r):
        e = _truth(_inl(f, node))
        fact = None
        if isinstance(e, ast.Compare) and len(e.ops) == 1 and isinstance(e.ops[0], (ast.Eq, ast.NotEq)):
            a, b = terms.nf(e.left), terms.nf(e.comparators[0])
            for p, c in ((a, b), (b, a)):
                if p is not None and c is not None and terms._single_atom(p) == res_atom and c.is_const() and c.const_value().denominator == 1:
                    fact = ("eq" if isinstance(e.ops[0], ast.Eq) == pol else "neq", int(c.const_value()))
        elif not isinstance(e, ast.Compare):
            p = terms.nf(e)
            if p is not None and terms._single_atom(p) == res_atom:
                fact = ("neq", 0) if pol else ("eq", 0)
        if fact is None:
            understood = False
        elif fact[0] == "eq":
            eqs.add(fact[1])
        else:
            neqs.add(fact[1])
    return eqs, neqs, understood


def r5(ctx):
    f = ctx.repo.func("c2.pad")
    text = "pad(data) == data + b'A' * (16 - len(data) % 16)"
    _r5_pad(ctx, f, text)
    # encrypt_data encrypts pad(data); decrypt_data returns cipher output unmodified
    enc = ctx.repo.func("c2.encrypt_data")
    dec = ctx.repo.func("c2.decrypt_data")
    _r5_cipher_io(ctx, enc, "encrypt", f)
    _r5_cipher_io(ctx, dec, "decrypt", None)


def _r5_pad(ctx, f, text):
    """pad(): on every return path the value is the unmodified data parameter followed by `16 - len(data) % 16` bytes b'A'.
    Decided per return statement on symbolic terms (normal form + lemmas L1-L6 of _PadTerms, residue facts from the dominating
    branch conditions) and by interval abstract interpretation of the pad count; never by evaluating the body."""
    ps = params(f.node)
    if not ps:
        ctx.undecided("R5", "ABS", f, text, "pad() has no data parameter", f.node)
        return
    data = ps[0]
    pconst, missing = {}, []
    dfl = param_defaults(f.node)
    for p in ps[1:]:
        k = _kconst(dfl.get(p))
        if type(k) is int:
            pconst[p] = k
        else:
            missing.append(p)
    if missing:
        ctx.undecided("R5", "ABS", f, text, "parameters without a constant integer default: " + ", ".join(missing), f.node)
        return
    if assignments_to(f.node, data) or any(assignments_to(f.node, p) for p in pconst):
        ctx.undecided("R5", "ABS", f, text, "a parameter of pad() is rebound inside the function: the padded value is not located", f.node)
        return
    cfg = ctx.cfg(f)
    rets = [s for s in statements(f.node) if isinstance(s, ast.Return) and cfg.has(s) and cfg.reaches(ENTRY, cfg.node(s))]
    if not rets:
        ctx.ob("R5", "ABS", f, text, False, "pad() returns nothing", f.node)
        return
    # interval / parity abstract interpretation of the body: data is a byte string of any length, the other parameters
    # have their default values
    init = {data: absint.abytes(0, None)}
    for p, k in pconst.items():
        init[p] = absint.aint(k, k, k % 2)
    it = absint.Interp(f.node, init, consts=lambda d: absint.aint(_KNOWN_ATTRS[d], _KNOWN_ATTRS[d], 0) if d in _KNOWN_ATTRS else None)
    it.run()
    terms = _PadTerms(data, pconst)
    res = terms.residue(BLOCK)
    res_atom = terms._single_atom(res)
    required = absint.SymPoly.const(BLOCK) - res
    pending = []  # returns that are neither proved nor refuted: (return, count interval | None, reason)
    joined = None  # join of the count intervals of all returns (None once one return has no interval)
    all_itv = True
    for r in rets:
        shape = _pad_shape(f, r, data)
        if shape is None:
            all_itv = False
            pending.append((r, None, f"returned value {src(r.value)} is not <data> + <fill> * <count> or <data>.ljust(<width>, <fill>)"))
            continue
        wrong = [b for b in shape["fills"] if set(b) - set(b"A")]
        if wrong:
            ctx.ob("R5", "ABS", f, text, False, f"fill byte is {wrong[0]!r} (b'A' required)", r)
            all_itv = False
            continue
        v = it.ev(shape["count"], it.before.get(id(r), dict(init)))
        itv = None
        if v.kind == "int":
            # b'A' * k is empty for k <= 0; ljust never shortens
            itv = absint.Itv(max(v.itv.lo, 0) if v.itv.lo is not None else 0, max(v.itv.hi, 0) if v.itv.hi is not None else None)
            joined = itv if joined is None else joined.join(itv)
        else:
            all_itv = False
        cnt = terms.nf(shape["count"])
        if cnt is None:
            pending.append((r, itv, f"pad count {src(shape['count'])} has no normal form"))
            continue
        eqs, neqs, understood = _residue_conditions(ctx, f, r, terms, res_atom)
        want = required
        if len(eqs) == 1:
            k = next(iter(eqs))
            cnt, want = terms.substitute(cnt, res_atom, k), terms.substitute(want, res_atom, k)
        diff = cnt - want
        cond = f" where len(data) % 16 == {next(iter(eqs))}" if len(eqs) == 1 else ""
        if not diff.terms:
            ctx.ob("R5", "ABS", f, text, True,
                   f"pad count {src(shape['count'])} equals 16 - len(data) % 16 in polynomial normal form{cond}; "
                   f"interval of the count {itv if itv is not None else 'n/a'} for len(data) >= 0, block size 16; fill byte b'A'", r)
            continue
        # a constant, non-zero difference on a feasible path refutes the equation (L5: every residue 0..15 occurs)
        feasible = understood and len(eqs) <= 1 and all(0 <= k < BLOCK and k not in neqs for k in eqs) \
            and (eqs or len({k for k in neqs if 0 <= k < BLOCK}) < BLOCK)
        if diff.is_const() and feasible:
            ctx.ob("R5", "ABS", f, text, False,
                   f"pad count is {cnt!r}{cond}, required {want!r}: {src(shape['count'])} differs from 16 - len(data) % 16 by {diff.const_value()}", r)
            continue
        pending.append((r, itv, f"pad count {src(shape['count'])} (normal form {cnt!r}) is not recognised as 16 - len(data) % 16"))
    if cfg.falls_off_end():
        all_itv = False
        ctx.undecided("R5", "ABS", f, text + " [no return]", "a path through pad() ends without a return statement; whether it is feasible is not analysed", f.node)
    # every pad length 1..16 is required for some input (L5: len(data) = 16 - k needs k bytes); the join of the count
    # intervals over all returns over-approximates the lengths pad() can produce
    if pending and all_itv and joined is not None:
        lack = [k for k in (1, BLOCK) if joined.excludes(k)]
        if lack:
            k = lack[-1]
            for r, itv, why in pending:
                ctx.ob("R5", "ABS", f, text, False,
                       f"the pad count lies in {joined} on every return path, but len(data) % 16 == {(BLOCK - k) % BLOCK} requires {k} byte(s) of padding ({why})", r)
            return
    for r, itv, why in pending:
        ctx.undecided("R5", "ABS", f, text, why + (f"; interval of the count {itv}" if itv is not None else ""), r)


def _r5_cipher_io(ctx, f, meth, pad_f):
    """encrypt_data returns <AES cipher>.encrypt(pad(<data>)) unmodified; decrypt_data returns <AES cipher>.decrypt(<data>) unmodified."""
    text = "return cipher.encrypt(pad(data))" if meth == "encrypt" else "return cipher.decrypt(data)"
    rets = [s for s in statements(f.node) if isinstance(s, ast.Return)]
    if not rets:
        ctx.ob("R5", "AGREE", f, text, False, f"{f.qualname} returns nothing", f.node)
        return
    key_iv = set()
    for c in fn_calls(f.node):
        if _ext(ctx, f, c) in _AES_NEW:
            for a in list(c.args) + [k.value for k in c.keywords]:
                d = dotted(_inl(f, a))
                if d:
                    key_iv.add(d)
    for r in rets:
        v = _inl(f, r.value) if r.value is not None else None
        inner = [x for x in ast.walk(v) if isinstance(x, ast.Call) and isinstance(x.func, ast.Attribute) and x.func.attr == meth] if v is not None else []
        if not inner:
            ctx.undecided("R5", "AGREE", f, text, f"returned value {src(v)} contains no <cipher>.{meth}(..) call", r)
            continue
        if not (isinstance(v, ast.Call) and v is inner[0]) and not (isinstance(_strip_bytes(v), ast.Call) and _strip_bytes(v) is inner[0]):
            if any(isinstance(x, _COMPS) and any(y is inner[0] for y in ast.walk(x)) for x in ast.walk(v)):
                ctx.undecided("R5", "AGREE", f, text, f"the cipher output is produced piecewise inside a comprehension ({src(v)}): how the pieces "
                              "make up the returned value is not understood (R10 looks at the chain)", r)
                continue
            ctx.ob("R5", "AGREE", f, text, False, f"{f.qualname} post-processes the cipher output: returns {src(v)}", r)
            continue
        call = inner[0]
        arg = call.args[0] if len(call.args) == 1 and not call.keywords else None
        if arg is None:
            ctx.undecided("R5", "AGREE", f, text, f"argument of {src(call)} not understood", r)
            continue
        if meth == "encrypt":
            if not _is_pkg_call(ctx, f, arg, "c2.pad"):
                if dotted(_strip_bytes(arg)) in params(f.node) or isinstance(arg, ast.Constant):
                    ctx.ob("R5", "AGREE", f, text, False, f"encrypt_data encrypts {src(arg)} as it is, not pad(<data>)", r)
                else:
                    ctx.undecided("R5", "AGREE", f, text, f"encrypt_data encrypts {src(arg)}: not a call of pad(), padding not located", r)
                continue
            b = bind_args(arg, pad_f.node)
            pp = params(pad_f.node)
            d0 = dotted(_strip_bytes(b.get(pp[0]))) if b.get(pp[0]) is not None else None
            data_ok = d0 in params(f.node) and d0 not in key_iv and not assignments_to(f.node, d0)
            bs_ok = all(_block_ok(b.get(p)) for p in pp[1:])
            ctx.ob("R5", "AGREE", f, text, data_ok and bs_ok,
                   f"encrypts pad({d0}) (an unmodified data parameter={data_ok}) with block size 16={bs_ok}", r)
        else:
            d0 = dotted(_strip_bytes(arg))
            data_ok = d0 in params(f.node) and d0 not in key_iv and not assignments_to(f.node, d0)
            ctx.ob("R5", "AGREE", f, text, data_ok, f"returns the cipher output for {src(arg)} unmodified (no unpadding); argument is an unmodified data parameter={data_ok}", r)


def _block_ok(e):
    """Is e a constant expression with the value 16 (AES.block_size being the library constant 16)?"""
    return _kconst(e) == BLOCK


# ---------------------------------------------------------------------------- decorated functions (R6)
def _nested(outer, node):
    """Func object of a def nested (at any depth) in package function `outer`."""
    for g in outer.module.funcs.values():
        if g.node is node:
            return g
    return Func(outer.module, f"{outer.qualname}.<locals>.{node.name}@{getattr(node, 'lineno', 0)}", node, outer.cls, outer)


def _local_def(fn, name):
    """The one nested def of function node fn bound to `name` (no other binding of the name), else None."""
    ds = [s for s in statements(fn) if isinstance(s, (ast.FunctionDef, ast.AsyncFunctionDef)) and s.name == name]
    if len(ds) != 1 or assignments_to(fn, name) or name in params(fn):
        return None
    return ds[0]


def _single_return(fn):
    rs = [s for s in statements(fn) if isinstance(s, ast.Return)]
    return rs[0].value if len(rs) == 1 else None


def _wrapped_value(ctx, g, e):
    """functools.wraps(f)(w) / functools.update_wrapper(w, f) -> w (metadata copies, the callable is w)."""
    e = _inl(g, e)
    for _ in range(3):
        if isinstance(e, ast.Call) and isinstance(e.func, ast.Call) and _ext(ctx, g, e.func) in ("functools.wraps", "wraps") and len(e.args) == 1:
            e = e.args[0]
        elif isinstance(e, ast.Call) and _ext(ctx, g, e) in ("functools.update_wrapper", "update_wrapper") and e.args:
            e = e.args[0]
        else:
            break
    return e


def _wrapper_chain(ctx, f):
    """The package wrappers every call of the decorated function f passes through, outermost first:
    [(wrapper Func, [calls of the wrapped callable inside it])]; [] when f has no (or only identity) decorators; None when a
    decorator is not understood (external, not `def deco(func): def wrapper(..): .. func(..) ..; return wrapper`, possibly
    produced by a factory call)."""
    out = []
    for d in f.node.decorator_list:
        probe = d if isinstance(d, ast.Call) else ast.Call(func=d, args=[], keywords=[])
        cal = _resolved(ctx, f, probe)
        if cal is None or cal.kind != "func" or cal.func is None:
            return None
        deco = cal.func
        if isinstance(d, ast.Call):
            # decorator factory: returns a nested def that takes the function
            v = _single_return(deco.node)
            inner = _local_def(deco.node, v.id) if isinstance(v, ast.Name) else None
            if inner is None:
                return None
            deco = _nested(deco, inner)
        ps = params(deco.node)
        if len(ps) != 1 or assignments_to(deco.node, ps[0]):
            return None
        v = _single_return(deco.node)
        if v is None:
            return None
        v = _wrapped_value(ctx, deco, v)
        if not isinstance(v, ast.Name):
            return None
        if v.id == ps[0]:
            continue  # the decorator hands the function back unchanged
        wn = _local_def(deco.node, v.id)
        if wn is None or ps[0] in params(wn) or assignments_to(wn, ps[0]):
            return None
        calls = [c for c in fn_calls(wn) if isinstance(c.func, ast.Name) and c.func.id == ps[0]]
        # the wrapped callable must not leave the wrapper in any other way (stored, handed on) - except to functools.wraps
        uses = [n for n in ast.walk(wn) if isinstance(n, ast.Name) and n.id == ps[0] and not any(n is c.func for c in calls)]
        inner_wraps = {id(a) for dd in wn.decorator_list for a in ast.walk(dd)}
        inner_wraps |= {id(x.value) for x in ast.walk(wn) if isinstance(x, ast.Attribute) and isinstance(x.ctx, ast.Load)
                        and x.attr in ("__name__", "__qualname__", "__doc__", "__module__")}  # reading its name for a message
        if any(id(n) not in inner_wraps for n in uses):
            return None
        out.append((_nested(deco, wn), calls))
    return out


def _is_passthrough(c, a):
    return (len(c.args) == 1 and isinstance(c.args[0], ast.Starred) and dotted(c.args[0].value) == a.vararg.arg
            and len(c.keywords) == 1 and c.keywords[0].arg is None and dotted(c.keywords[0].value) == a.kwarg.arg)


def _outward(ctx, f, names):
    """Follow parameters `names` of the decorated function f outwards through its wrappers.  Yields, innermost wrapper
    first, (wrapper Func, calls, {name of f's parameter -> parameter of this wrapper that is passed on unmodified}) - the
    mapping is None for a transparent `(*args, **kwargs)` wrapper, which leaves the binding of a call as it is; stops
    (yielding None) where a wrapper is not understood or does not pass a plain, unmodified parameter."""
    chain = _wrapper_chain(ctx, f)
    if chain is None:
        yield None
        return
    cur, callee = dict((n, n) for n in names), f.node
    for w, calls in reversed(chain):
        a = w.node.args
        if a.vararg and a.kwarg and not (a.posonlyargs or a.args or a.kwonlyargs) and calls and all(_is_passthrough(c, a) for c in calls) \
                and not assignments_to(w.node, a.vararg.arg) and not assignments_to(w.node, a.kwarg.arg):
            # def wrapper(*args, **kwargs): ... func(*args, **kwargs): a call binds to the wrapped signature as it is
            yield w, calls, None
            continue
        nxt = {}
        for role, p in cur.items():
            got = set()
            for c in calls:
                a = bind_args(c, callee).get(p)
                dn = dotted(_strip_bytes(_inl(w, a))) if a is not None else None
                got.add(dn if dn in params(w.node) and not assignments_to(w.node, dn) else None)
            if len(got) != 1 or None in got:
                yield None
                return
            nxt[role] = got.pop()
        yield w, calls, nxt
        cur, callee = nxt, w.node


# ---------------------------------------------------------------------------- R6
_AES_NEW =("AES.new", "Crypto.Cipher.AES.new", "Cryptodome.Cipher.AES.new")
_MODE_CBC = ("AES.MODE_CBC", "Crypto.Cipher.AES.MODE_CBC", "Cryptodome.Cipher.AES.MODE_CBC")


def _aes_roles(ctx, f, c):
    """(key, mode, iv) argument expressions (inlined) of an AES.new call."""
    key = c.args[0] if c.args else kwarg(c, "key")
    mode = c.args[1] if len(c.args) > 1 else kwarg(c, "mode")
    iv = kwarg(c, "iv") or kwarg(c, "IV") or (c.args[2] if len(c.args) > 2 else None)
    return _inl(f, key), _inl(f, mode), _inl(f, iv)


def _r6_guard_in_wrappers(ctx, f, kd, c):
    """The body of the decorated function f builds the cipher also when its key parameter kd is None: the None key must
    then be rejected by one of the wrappers every call passes through (the call of the wrapped function is unreachable
    on the wrapper's CFG pruned under {key is None}, and what is raised there is ValueError)."""
    text = "no cipher without key"
    levels = 0
    for lv in _outward(ctx, f, (kd,)):
        if lv is None:
            ctx.undecided("R6", "DOM", f, text, "the None-key guard is not in the body and the decorators of the function are not understood "
                          "(or do not pass the key on as a plain parameter): guard not located", c)
            return
        w, calls, names = lv
        levels += 1
        if not calls:
            ctx.undecided("R6", "DOM", f, text, f"wrapper {w.qualname} never calls the wrapped function: not understood", c)
            return
        wcfg, wfv = ctx.cfg(w), FuncView.of(w.node)
        if names is None:
            # transparent wrapper: it does not name the key; one that neither branches nor raises cannot reject anything
            if wcfg.raise_stmts() or any(isinstance(x, (ast.If, ast.IfExp, ast.While, ast.Assert, ast.Try, ast.Match)) for x in ast.walk(w.node)):
                ctx.undecided("R6", "DOM", f, text, f"wrapper {w.qualname} takes (*args, **kwargs) and branches / raises: whether it rejects a None key is not understood", c)
                return
            continue
        wk = names[kd]
        spec = _spec(ctx, w, {f"{wk} is None": True, wk: False})
        if not any(spec.reaches(ENTRY, wcfg.node(wfv.stmt_of(x))) for x in calls):
            ctx.ob("R6", "DOM", f, text, True, f"the wrapper {w.qualname} does not call the function (so AES.new is not reached) when the key is None", c)
            for r in wcfg.raise_stmts():
                if spec.reaches(ENTRY, wcfg.node(r)):
                    ctx.ob("R6", "EXIT", f, "raise without key", raise_class(r) == "ValueError",
                           f"wrapper {w.qualname} raises {raise_class(r)} without key (documented ValueError)", r)
            return
    ctx.ob("R6", "DOM", f, text, False, "AES.new reachable with key None" + (f" (also through the {levels} wrapper(s) of the decorated function)" if levels else ""), c)


def r6(ctx):
    roles = {}
    for fq in ("c2.encrypt_data", "c2.decrypt_data"):
        f = ctx.repo.func(fq)
        news = [c for c in fn_calls(f.node) if _ext(ctx, f, c) in _AES_NEW]
        if not news:
            ctx.undecided("R6", "AGREE", f, "AES.new(key, MODE_CBC, iv)", f"no AES.new call found in {f.qualname}: cipher construction not located", f.node)
            continue
        cfg = ctx.cfg(f)
        fv = FuncView.of(f.node)
        ps = params(f.node)
        for c in news:
            key, mode, iv = _aes_roles(ctx, f, c)
            kd, ivd = dotted(_strip_bytes(key)) if key is not None else None, dotted(_strip_bytes(iv)) if iv is not None else None
            mode_ok = mode is not None and (dotted(mode) in _MODE_CBC or _cval(mode) == 2)
            key_ok = kd in ps and not assignments_to(f.node, kd)
            iv_ok = ivd in ps and ivd != kd and not assignments_to(f.node, ivd)
            rep_c = _repeated(ctx, f, c) if (key_ok and mode_ok and not iv_ok and isinstance(iv, ast.Name)) else None
            if rep_c is not None and iv.id in rep_c[1] and any(
                    isinstance(o, ast.Name) and o.id in ps and o.id != kd and not assignments_to(f.node, o.id) for o in all_origins(f.node, iv)):
                # the IV is a loop-carried value that starts as the iv parameter: hand-made chaining over pieces (R10: undecided too)
                ctx.undecided("R6", "AGREE", f, "AES.new(key, MODE_CBC, iv)", f"the cipher is built repeatedly (in {rep_c[0]}) with an IV {src(iv)} that "
                              "starts as the iv parameter and changes between the repetitions: hand-made chaining is not understood", c)
                continue
            ctx.ob("R6", "AGREE", f, "AES.new(key, MODE_CBC, iv)", key_ok and mode_ok and iv_ok,
                   f"cipher built from (key, mode, iv)=({src(key)}, {src(mode)}, {src(iv)}); required (<key parameter>, AES.MODE_CBC, <iv parameter>)", c)
            if key_ok and iv_ok:
                roles[fq] = (kd, ivd)
            if not key_ok:
                continue
            # None key -> ValueError before the cipher is built
            spec = _spec(ctx, f, {f"{kd} is None": True, kd: False})
            reach = spec.reaches(ENTRY, cfg.node(fv.stmt_of(c)))
            if reach and f.node.decorator_list:
                # the guard may sit in a wrapper every call of the function passes through
                _r6_guard_in_wrappers(ctx, f, kd, c)
                continue
            ctx.ob("R6", "DOM", f, "no cipher without key", not reach, "AES.new unreachable when the key is None" if not reach else "AES.new reachable with key None", c)
            for r in cfg.raise_stmts():
                if spec.reaches(ENTRY, cfg.node(r)):
                    ctx.ob("R6", "EXIT", f, "raise without key", raise_class(r) == "ValueError", f"raises {raise_class(r)} without key (documented ValueError)", r)

    # the packet-level functions hand their own key and IV to the data-level ones ("under the configured IV")
    for caller, callee in (("c2.decrypt_packet", "c2.decrypt_data"), ("c2.encrypt_packet", "c2.encrypt_data")):
        f = ctx.repo.func(caller)
        short = callee.split(".")[1]
        text = f"{short}(...) forwards key and IV"
        cs = calls_to(ctx, f, target_fq=callee)
        if not cs:
            ctx.undecided("R6", "AGREE", f, text, f"{caller} does not call {callee}: forwarding not located", f.node)
            continue
        kp, ivp = roles.get(callee, ("aes_key", "iv"))
        entry = ctx.repo.func(callee).node
        if entry.decorator_list:
            # a decorated callee is entered through its outermost wrapper: bind the call against that signature
            lost, kp0, ivp0 = False, kp, ivp
            for lv in _outward(ctx, ctx.repo.func(callee), (kp0, ivp0)):
                if lv is None:
                    lost = True
                    break
                if lv[2] is not None:
                    entry, kp, ivp = lv[0].node, lv[2][kp0], lv[2][ivp0]
            if lost:
                ctx.undecided("R6", "AGREE", f, text, f"{callee} is decorated and its key / iv parameters could not be followed through the wrappers", f.node)
                continue
        for c in cs:
            b = bind_args(c, entry)
            got = {}
            for role, p in (("key", kp), ("iv", ivp)):
                a = b.get(p)
                got[role] = dotted(_strip_bytes(_inl(f, a))) if a is not None else None
            rebound = [p for p in ("aes_key", "iv") if assignments_to(f.node, p)]
            ok = got == {"key": "aes_key", "iv": "iv"} and not rebound
            ctx.ob("R6", "AGREE", f, text, ok,
                   f"cipher key/iv parameters of {short} bound to {got}" + (f"; {rebound} rebound in {caller}" if rebound else "")
                   + " (required: the caller's own aes_key and iv)", c)


# ---------------------------------------------------------------------------- R10: one CBC chain per message
_COMPS = (ast.ListComp, ast.SetComp, ast.DictComp, ast.GeneratorExp)
_BLOCKS = ("body", "orelse", "finalbody", "handlers", "cases")


def _own_stores(st):
    """Names bound by statement st itself (the blocks of a compound statement are statements of their own)."""
    out, todo = set(), [v for k, v in ast.iter_fields(st) if k not in _BLOCKS]
    while todo:
        x = todo.pop()
        if isinstance(x, list):
            todo.extend(x)
        elif isinstance(x, ast.AST):
            if isinstance(x, ast.Name) and isinstance(x.ctx, ast.Store):
                out.add(x.id)
            if not isinstance(x, (ast.FunctionDef, ast.AsyncFunctionDef, ast.ClassDef, ast.Lambda)):
                todo.extend(v for _k, v in ast.iter_fields(x))
    return out


def _repeated(ctx, f, c):
    """Is call c evaluated more than once per call of f?  -> (what repeats it, names that change between the evaluations)
    or None.  CFG: the statement lies on a cycle - the names bound by the statements of that cycle (for-targets,
    counters, re-sliced buffers); syntax: c is the element / condition / inner iterable of a comprehension - its targets."""
    fv, cfg = FuncView.of(f.node), ctx.cfg(f)
    variant, what = set(), []
    for a in fv.ancestors(c):
        if isinstance(a, _COMPS) and not any(x is c for x in ast.walk(a.generators[0].iter)):
            what.append("a comprehension")
            for g in a.generators:
                variant |= {x.id for x in ast.walk(g.target) if isinstance(x, ast.Name)}
    st = fv.stmt_of(c)
    if st is not None and cfg.has(st):
        n = cfg.node(st)
        if cfg.in_cycle(n):
            what.append("a loop")
            for m, s in cfg.stmt.items():
                if m == n or (cfg.reaches(n, m) and cfg.reaches(m, n)):
                    variant |= _own_stores(s)
    return (" and ".join(what), variant) if what else None


def r10(ctx):
    """One CBC chain per message.  The peer of encrypt_data / decrypt_data (the other function of the pair, and Cobalt
    Strike itself: `AES-128-CBC under the configured IV`) runs ONE chain over the whole message: block i is chained to
    ciphertext block i - 1, only block 0 to the IV.  A cipher object constructed anew - from the same key and IV - for
    every piece of the message restarts the chain at the IV for every piece, so the first block of every further piece
    is wrong: necessary for the round trip is that a cipher whose construction is repeated is not fed pieces that change
    between the repetitions."""
    for fq, meth in (("c2.encrypt_data", "encrypt"), ("c2.decrypt_data", "decrypt")):
        f = ctx.repo.func(fq)
        text = "one CBC chain over the whole message"
        news = [c for c in fn_calls(f.node) if _ext(ctx, f, c) in _AES_NEW]
        # constructions inside comprehensions are not `fn_calls` of nested defs but are part of the body: ast.walk sees them
        if not news:
            ctx.undecided("R10", "LOOP", f, text, f"no AES.new call found in {f.qualname}: cipher construction not located", f.node)
            continue
        fv = FuncView.of(f.node)
        for c in news:
            rep = _repeated(ctx, f, c)
            if rep is None:
                ctx.ob("R10", "LOOP", f, text, True, "the cipher object is constructed once per call (not on a CFG cycle, not inside a comprehension): "
                       "all data it processes is one chain from the IV", c)
                continue
            what, variant = rep
            uses = []
            for u in ast.walk(f.node):
                if isinstance(u, ast.Call) and isinstance(u.func, ast.Attribute) and u.func.attr in ("encrypt", "decrypt"):
                    if u.func.value is c or any(o is c for o in all_origins(f.node, u.func.value)):
                        uses.append(u)
            if not uses:
                ctx.undecided("R10", "LOOP", f, text, f"AES.new is evaluated repeatedly (in {what}) but the data fed to that cipher was not located", c)
                continue
            key, _mode, iv = _aes_roles(ctx, f, c)
            moving = sorted({x.id for r in (key, iv) if r is not None for x in ast.walk(r) if isinstance(x, ast.Name)} & variant)
            if moving:
                ctx.undecided("R10", "LOOP", f, text, f"AES.new is evaluated repeatedly (in {what}) with key / iv that change between the repetitions "
                              f"({moving}): hand-made chaining is not understood", c)
                continue
            for u in uses:
                arg = _inl(f, u.args[0]) if len(u.args) == 1 and not u.keywords else None
                if arg is None:
                    ctx.undecided("R10", "LOOP", f, text, f"argument of {src(u)} not understood", u)
                    continue
                piece = sorted({x.id for x in ast.walk(arg) if isinstance(x, ast.Name)} & variant)
                ctx.ob("R10", "LOOP", f, text, not piece,
                       (f"AES.new(<key>, <mode>, <iv>) is evaluated repeatedly (in {what}) with the same key and IV, and each new cipher {meth}s a "
                        f"different piece of the message ({src(arg)} changes with {piece}): every piece is a fresh CBC chain starting at the IV "
                        "instead of continuing the chain of the previous piece, so the first block of every further piece does not round-trip")
                       if piece else
                       f"AES.new is evaluated repeatedly (in {what}) but each cipher processes the same, complete value {src(arg)}", u)


# ---------------------------------------------------------------------------- R7
def _call_binding(ctx, f, call, cal):
    """Parameter binding of a call to a package function reached through functools.partial aliases:
    defaults < partial keywords < explicit arguments."""
    fn = cal.func.node
    b = bind_args(call, fn)
    explicit = set(params(fn)[: len(call.args)]) | {k.arg for k in call.keywords if k.arg}
    for k, v in (cal.bound or {}).items():
        if k not in explicit:
            b[k] = v
    return b


def _order_name(v):
    v = _cval(v) if v is not None else None
    return v if isinstance(v, str) else None


def _pack_info(ctx, f, e):
    """An int -> bytes encoding call: dict(value, size, order, signed) or None if e is not recognised as one."""
    if not isinstance(e, ast.Call):
        return None
    cal = _resolved(ctx, f, e)
    if cal is not None and cal.kind == "func" and cal.func is not None and cal.func.fq == "utils.pack":
        b = _call_binding(ctx, f, e, cal)
        return dict(value=b.get("n"), size=_cval(b.get("size")), order=_order_name(b.get("byteorder")), signed=bool(_cval(b.get("signed"))))
    if isinstance(e.func, ast.Attribute) and e.func.attr == "to_bytes":
        args = list(e.args)
        value = e.func.value
        if dotted(value) == "int" and args:
            value, args = args[0], args[1:]
        size = args[0] if args else kwarg(e, "length")
        order = args[1] if len(args) > 1 else kwarg(e, "byteorder")
        signed = kwarg(e, "signed")
        return dict(value=value, size=_cval(size), order=_order_name(order) if order is not None else "big",
                    signed=bool(_cval(signed)) if signed is not None else False)
    if _ext(ctx, f, e) == "struct.pack" and len(e.args) == 2 and isinstance(_cval(e.args[0]), str):
        fmt = _cval(e.args[0])
        table = {">I": (4, "big", False), "!I": (4, "big", False), "<I": (4, "little", False), ">i": (4, "big", True), "!i": (4, "big", True),
                 "<i": (4, "little", True), ">H": (2, "big", False), "!H": (2, "big", False), ">Q": (8, "big", False), "!Q": (8, "big", False)}
        if fmt in table:
            s, o, sg = table[fmt]
            return dict(value=e.args[1], size=s, order=o, signed=sg)
    return None


def _bytes_source(e, f=None):
    """Where the bytes of a decoded integer come from: ('stream', S, n, consuming call) for S.read(n);
    ('buffer', B, n, None) for B[:n] / B[0:n]; ('buffer', B, None, None) for a bare name."""
    e = _strip_bytes(e)
    if f is not None and isinstance(e, ast.Name):
        o = _strip_bytes(origin(f.node, e))
        if (isinstance(o, ast.Call) and isinstance(o.func, ast.Attribute) and o.func.attr == "read") or (isinstance(o, ast.Subscript) and isinstance(o.slice, ast.Slice)):
            e = o
    if isinstance(e, ast.Call) and isinstance(e.func, ast.Attribute) and e.func.attr == "read" and dotted(e.func.value) and len(e.args) == 1:
        return ("stream", dotted(e.func.value), _cval(e.args[0]), e)
    if isinstance(e, ast.Subscript) and isinstance(e.slice, ast.Slice) and dotted(e.value) and e.slice.step is None \
            and (e.slice.lower is None or is_const(e.slice.lower, 0)) and e.slice.upper is not None:
        return ("buffer", dotted(e.value), _cval(e.slice.upper), None)
    if dotted(e):
        return ("buffer", dotted(e), None, None)
    return None


def _size_src(ctx, f, e):
    """A length-prefix decoding expression (inlined): dict(kind 'stream'|'buffer', name, width, order, signed, consume) or None."""
    if isinstance(e, ast.Call) and dotted(e.func) == "int" and len(e.args) == 1:
        e = e.args[0]
    if isinstance(e, ast.Subscript) and not isinstance(e.slice, ast.Slice) and _cval(e.slice) == 0 and isinstance(e.value, ast.Call) \
            and _ext(ctx, f, e.value) in ("struct.unpack", "struct.unpack_from") and len(e.value.args) == 2:
        fmt = _cval(e.value.args[0])
        table = {">I": (4, "big", False), "!I": (4, "big", False), "<I": (4, "little", False), ">i": (4, "big", True), "<i": (4, "little", True)}
        bs = _bytes_source(e.value.args[1], f)
        if fmt in table and bs is not None:
            w, o, sg = table[fmt]
            if bs[2] is not None and bs[2] != w:
                return dict(kind=bs[0], name=bs[1], width=bs[2], order=o, signed=sg, consume=bs[3])
            return dict(kind=bs[0], name=bs[1], width=w, order=o, signed=sg, consume=bs[3])
        return None
    if not isinstance(e, ast.Call):
        return None
    cal = _resolved(ctx, f, e)
    if cal is not None and cal.kind == "struct" and cal.struct and len(e.args) == 1 and dotted(e.args[0]):
        mod, var, ctype = cal.struct
        widths = {"uint32": (4, False), "int32": (4, True), "uint16": (2, False), "int16": (2, True), "uint64": (8, False), "int64": (8, True),
                  "uint8": (1, False), "int8": (1, True)}
        try:
            cd = ctx.cdefs(mod).get(var)
        except Exception:
            cd = None
        if ctype not in widths or cd is None:
            return None
        w, sg = widths[ctype]
        return dict(kind="stream", name=dotted(e.args[0]), width=w, order="big" if cd.endian == ">" else "little", signed=sg, consume=e)
    if cal is not None and cal.kind == "func" and cal.func is not None and cal.func.fq == "utils.unpack":
        b = _call_binding(ctx, f, e, cal)
        bs = _bytes_source(b.get("data"), f) if b.get("data") is not None else None
        if bs is None:
            return None
        size = _cval(b.get("size"))
        width = size if bs[2] is None else (bs[2] if size is None else min(size, bs[2]))
        return dict(kind=bs[0], name=bs[1], width=width, order=_order_name(b.get("byteorder")), signed=bool(_cval(b.get("signed"))), consume=bs[3])
    if dotted(e.func) == "int.from_bytes" and e.args:
        bs = _bytes_source(e.args[0], f)
        order = e.args[1] if len(e.args) > 1 else kwarg(e, "byteorder")
        signed = kwarg(e, "signed")
        if bs is None:
            return None
        return dict(kind=bs[0], name=bs[1], width=bs[2], order=_order_name(order) if order is not None else "big",
                    signed=bool(_cval(signed)) if signed is not None else False, consume=bs[3])
    return None


def _orig_call(f, node):
    """The call of the function body with the same text as (inlined copy) `node`, if unique."""
    hits = [c for c in fn_calls(f.node) if src(c) == src(node)]
    return hits[0] if len(hits) == 1 else None


def _stream_events(f, s):
    """Calls that move or consume stream s: s.read/seek/... and calls that are handed s itself."""
    out = []
    for c in fn_calls(f.node):
        if isinstance(c.func, ast.Attribute) and dotted(c.func.value) == s and c.func.attr in _CONSUMING:
            out.append(c)
        elif any(dotted(a) == s for a in list(c.args) + [k.value for k in c.keywords]) and dotted(c.func) not in ("len", "bool", "id", "type", "isinstance", "print", "repr"):
            out.append(c)
    return out


def _same_buffer(f, a, b):
    """Do names a and b denote the same, never re-bound object (one is a plain single-definition alias of the other)?"""
    if a == b:
        return True
    for x, y in ((a, b), (b, a)):
        if "." in x:
            continue
        defs = assignments_to(f.node, x)
        if len(defs) == 1 and defs[0][1] is not None and dotted(defs[0][1]) == y and x not in params(f.node):
            if "." in y or (len(assignments_to(f.node, y)) <= 1):
                return True
    return False


def _r7_writer(ctx):
    f = ctx.repo.func("c2.EncryptedPacket.dumps")
    text = "dumps() == be32(len(ciphertext + signature)) + ciphertext + signature"
    rets = [s for s in statements(f.node) if isinstance(s, ast.Return)]
    if not rets:
        ctx.ob("R7", "AGREE", f, text, False, "dumps() returns nothing", f.node)
    for r in rets:
        parts = _flatten_add(_inl(f, r.value)) if r.value is not None else []
        pk = _pack_info(ctx, f, parts[0]) if parts else None
        if len(parts) < 2 or pk is None:
            ctx.undecided("R7", "AGREE", f, text, f"returned value {src(r.value)} is not <packed length> + <payload>", r)
            continue
        be4 = pk["size"] == 4 and pk["order"] == "big" and not pk["signed"]
        pay = [src(_strip_bytes(p)) for p in parts[1:]]
        pay_ok = pay == ["self.ciphertext", "self.signature"]
        val = pk["value"]
        same = False
        if val is not None:
            val = _inl(f, val)
            if isinstance(val, ast.Call) and dotted(val.func) == "len" and len(val.args) == 1:
                same = [src(_strip_bytes(p)) for p in _flatten_add(val.args[0])] == pay
            else:
                lens = []
                for t in _flatten_add(val):
                    lens.append(src(t.args[0]) if isinstance(t, ast.Call) and dotted(t.func) == "len" and len(t.args) == 1 else None)
                same = None not in lens and sorted(lens) == sorted(pay)
        ok = be4 and pay_ok and same
        ctx.ob("R7", "AGREE", f, text, ok,
               f"prefix is a 4-byte big-endian unsigned pack={be4} (size={pk['size']}, byteorder={pk['order']}, signed={pk['signed']}); "
               f"payload is ciphertext+signature={pay_ok}; prefix counts that payload={same}", r)


def _r7_order(ctx, f, m, text="read order"):
    """ciphertext bytes are taken before the signature bytes from the same stream, nothing else in between."""
    if m["mode"] != "read":
        return
    o = _before(ctx, f, m["ct"], m["sig"])
    if o is None:
        ctx.undecided("R7", "AGREE", f, text, "ciphertext read and signature read are not ordered by dominance", m["ctor"])
        return
    extra = []
    if o:
        for ev in _stream_events(f, m["stream"]):
            if ev is m["ct"] or ev is m["sig"]:
                continue
            if _before(ctx, f, m["ct"], ev) is True and _before(ctx, f, ev, m["sig"]) is True:
                extra.append(src(ev))
    ctx.ob("R7", "AGREE", f, text, o and not extra,
           "ciphertext is read before the signature" + (f", but {extra} moves the stream in between" if extra else "") if o else
           "the signature is read from the stream before the ciphertext", m["ctor"])


# ---------------------------------------------------------------------------- R7: the loop runs while a frame is left
# Smallest frame the writer produces: 4-byte length prefix + one AES block (pad() always appends 1..16 bytes, so the
# ciphertext of a 0..15 byte plaintext is 16 bytes) + 16-byte signature.  A well-formed stream of frames therefore has
# either nothing or at least MIN_FRAME bytes left at every frame boundary.
HDR_LEN = 4
MIN_FRAME = HDR_LEN + BLOCK + SIG_LEN

_OPS = {ast.Gt: ">", ast.GtE: ">=", ast.Lt: "<", ast.LtE: "<=", ast.Eq: "==", ast.NotEq: "!="}
_MIRROR = {">": "<", ">=": "<=", "<": ">", "<=": ">=", "==": "==", "!=": "!="}
_NEGATE = {">": "<=", ">=": "<", "<": ">=", "<=": ">", "==": "!=", "!=": "=="}


class _NoView(ast.NodeTransformer):
    def visit_Call(self, node):
        self.generic_visit(node)
        if dotted(node.func) in ("bytes", "bytearray", "memoryview") and len(node.args) == 1 and not node.keywords:
            return node.args[0]
        return node


def _noview(e):
    """A copy of e with bytes(x) / bytearray(x) / memoryview(x) replaced by x: a copy or view of a byte string has the
    same length and the same bytes under slicing."""
    return _NoView().visit(copy.deepcopy(e))


def _fpoly(e, hook=None):
    """Polynomial normal form of an integer expression of a framing reader: AES.block_size is the library constant 16,
    `<call>[i]` (an element of an unpack result) is an opaque atom."""
    def h(x):
        if hook is not None:
            r = hook(x)
            if r is not None:
                return r
        if isinstance(x, ast.Attribute) and dotted(x) in _KNOWN_ATTRS:
            return absint.SymPoly.const(_KNOWN_ATTRS[dotted(x)])
        if isinstance(x, ast.Subscript) and not isinstance(x.slice, ast.Slice) and isinstance(x.value, ast.Call):
            return absint.SymPoly.atom(src(x))
        return None

    return absint.sympoly(e, h) if e is not None else None


def _int_const(p):
    """Integer value of a constant polynomial, else None."""
    c = p.const_value() if p is not None else None
    return int(c) if c is not None and c.denominator == 1 else None


def _rem_conjuncts(test, polyfn, rems, truthy):
    """The conjuncts of a loop-continuation test read as predicates of the number of bytes that are left.
    `rems` are the polynomials that denote that number (at the loop head, ...), `polyfn` the normal form, `truthy(e)`
    the index into rems when the truth value of e is `<that many bytes> >= 1` (a buffer used as a test).
    -> [dict(text, pred=(op, K) | None, idx)]: the conjunct holds iff rems[idx] op K; pred None = not understood.
    Constantly true conjuncts are dropped."""
    out = []

    def add(text, pred=None, idx=None):
        out.append(dict(text=text, pred=pred, idx=idx))

    def cmp_pred(l, o, r):
        for a, b, oo in ((l, r, o), (r, l, _MIRROR[o])):
            if isinstance(b, ast.Constant) and isinstance(b.value, bytes) and b.value == b"" and oo in ("==", "!=") and truthy(a) is not None:
                return ((">=", 1) if oo == "!=" else ("<=", 0)) + (truthy(a),)
        pl, pr = polyfn(l), polyfn(r)
        if pl is None or pr is None:
            return None
        d = pl - pr
        for j, rem in enumerate(rems):
            c0 = _int_const(d - rem)
            if c0 is not None:
                return (o, -c0, j)  # rem + c0 o 0
            c0 = _int_const(d + rem)
            if c0 is not None:
                return (_MIRROR[o], c0, j)  # c0 - rem o 0
        return None

    def one(c):
        neg = False
        c = _strip_bool(c)
        while isinstance(c, ast.UnaryOp) and isinstance(c.op, ast.Not):
            neg = not neg
            c = _strip_bool(c.operand)
        text = ("not " if neg else "") + src(c)
        if isinstance(c, ast.Constant):
            if bool(c.value) == neg:
                add(text)  # constantly false
            return
        if isinstance(c, ast.Compare):
            parts = compare_parts(c, mirrored=False)
            if neg and len(parts) != 1:
                add(text)
                return
            for l, op, r in parts:
                o = _OPS.get(type(op))
                p = cmp_pred(l, o, r) if o else None
                if p is None:
                    add(text)
                else:
                    add(text, (_NEGATE[p[0]] if neg else p[0], p[1]), p[2])
            return
        i = truthy(c)
        if i is None:
            pl = polyfn(c)  # a length used for its truth value
            for j, rem in enumerate(rems):
                if pl is not None and pl == rem:
                    i = j
                    break
        if i is not None:
            add(text, ("<=", 0) if neg else (">=", 1), i)
        else:
            add(text)

    for c in conjuncts(nnf(_truth(test))):
        one(c)
    return out


def _pred_gap(op, k, m=None):
    """Interval reading of the predicate `rem op k` on the integer rem >= 0:
    (the part (lo, hi | None = unbounded) of [m, +inf) on which it is false | None, whether it holds at rem == 0);
    m defaults to MIN_FRAME."""
    m = MIN_FRAME if m is None else m
    if op == ">":  # holds on [k + 1, +inf)
        return ((m, k) if k >= m else None), 0 > k
    if op == ">=":  # holds on [k, +inf)
        return ((m, k - 1) if k > m else None), 0 >= k
    if op == "!=":
        return ((k, k) if k >= m else None), k != 0
    if op == "<":  # holds on (-inf, k - 1]
        return (max(m, k), None), 0 < k
    if op == "<=":
        return (max(m, k + 1), None), 0 <= k
    return ((m if k != m else m + 1), None), k == 0  # ==


def _frames_left_verdict(conj, head=(0,), other_exits=False):
    """Necessary condition on the continuation test of a framing loop: it holds whenever a complete frame is left (every
    remaining length >= MIN_FRAME) and fails when nothing is left.  -> (status 'ok' | 'violated' | 'undecided', detail)."""
    gaps, unknown, zero_excluded, nonhead = [], [], False, False
    for c in conj:
        if c["pred"] is None:
            unknown.append(c["text"])
            continue
        gap, at_zero = _pred_gap(*c["pred"])
        if gap is not None:
            rng = f"{gap[0]} bytes" if gap[0] == gap[1] else (f"{gap[0]}..{gap[1]} bytes" if gap[1] is not None else f"{gap[0]} or more bytes")
            gaps.append(f"`{c['text']}` (remaining {c['pred'][0]} {c['pred'][1]}) is false when {rng} are left")
        if c["idx"] in head:
            zero_excluded = zero_excluded or not at_zero
        else:
            nonhead = True
    why = f"a frame of {MIN_FRAME} bytes ({HDR_LEN}-byte length + one AES block + {SIG_LEN}-byte signature, i.e. a plaintext of 0..15 bytes) is a complete packet"
    if gaps:
        return "violated", "the loop stops although a complete frame is left: " + "; ".join(gaps) + " - " + why
    if unknown:
        return "undecided", "continuation condition not understood as a test of the number of bytes left: " + "; ".join(f"`{u}`" for u in unknown)
    if not zero_excluded:
        if other_exits or nonhead:
            return "undecided", "the loop test does not fail when nothing is left and the other exits of the loop are not understood"
        return "violated", "the continuation test also holds when nothing is left: the body runs once more after the last frame"
    return "ok", "the continuation test holds for every remaining length >= " + f"{MIN_FRAME} (the smallest frame) and fails when nothing is left: " \
        + "; ".join(f"`{c['text']}`" for c in conj)


def _loop_exits(loop, skip=()):
    """Does the loop contain break / return / raise / try statements (outside the statements in `skip`)?"""
    skip_ids = {id(x) for s in skip for x in ast.walk(s)}
    return any(isinstance(x, (ast.Break, ast.Return, ast.Raise, ast.Try)) and id(x) not in skip_ids for st in loop.body for x in ast.walk(st))


def _leaves(body):
    return bool(body) and isinstance(body[-1], (ast.Break, ast.Return, ast.Raise))


def _leading_guards(loop):
    """The exit-only `if` statements the loop body starts with (they are evaluated in the state of the loop head)."""
    out = []
    for st in loop.body:
        if isinstance(st, ast.If) and not st.orelse and _leaves(st.body):
            out.append(st)
        else:
            break
    return out


FTEXT = "loop runs while a complete frame is left"


def _frames_left_ob(ctx, g, loop, conj, head=(0,), other_exits=False):
    status, detail = _frames_left_verdict(conj, head, other_exits)
    if status == "undecided":
        ctx.undecided("R7", "LOOP", g, FTEXT, detail, loop)
    else:
        ctx.ob("R7", "LOOP", g, FTEXT, status == "ok", detail, loop)
    return status


# ---------------------------------------------------------------------------- R4 / R7: offset walk over one buffer
class _Sub(ast.NodeTransformer):
    def __init__(self, env):
        self.env = env

    def visit_Name(self, node):
        if isinstance(node.ctx, ast.Load) and node.id in self.env:
            return copy.deepcopy(self.env[node.id])
        return node

    def visit_Lambda(self, node):
        return node


class _BodyWalk:
    """The body of a loop walked ONCE, statement by statement, with every name that is assigned in the loop symbolic at
    the loop head (device 3: a term for each value by substituting definitions; no unrolling, no data).  env maps a name
    to the term of its current value over the head values; `at` holds the env before each top-level statement, `guards`
    the exit-only `if` statements of the body with their tests in head terms.  `why` is set when the body is not a
    straight line of assignments, expression statements and exit-only guards (then nothing is claimed)."""

    def __init__(self, g, loop):
        self.g, self.loop = g, loop
        self.carried = set()
        for st in loop.body:
            for x in ast.walk(st):
                if isinstance(x, ast.Name) and isinstance(x.ctx, ast.Store):
                    self.carried.add(x.id)
        self.env, self.at, self.guards, self.why = {}, {}, [], None
        self.other_exits = False
        for st in loop.body:
            if self.why:
                break
            self.at[id(st)] = dict(self.env)
            self._stmt(st)
        self.end = dict(self.env)

    def sub(self, e, env=None):
        return _Sub(self.env if env is None else env).visit(copy.deepcopy(e))

    def value(self, e, st=None, env=None):
        """Term of expression e evaluated at top-level statement st (or in env), temporaries defined outside the loop inlined."""
        env = self.at[id(st)] if env is None else env
        return _noview(_inl(self.g, self.sub(e, env), keep=self.carried))

    def _stmt(self, st):
        if any(isinstance(x, ast.NamedExpr) for x in ast.walk(st)):
            self.why = "assignment expression inside the loop body"
            return
        if isinstance(st, ast.Assign) and len(st.targets) == 1:
            t, v = st.targets[0], st.value
            if isinstance(t, ast.Name):
                self.env[t.id] = self.sub(v)
                return
            if isinstance(t, (ast.Tuple, ast.List)) and isinstance(v, (ast.Tuple, ast.List)) and len(t.elts) == len(v.elts) \
                    and all(isinstance(x, ast.Name) for x in t.elts):
                vals = [self.sub(x) for x in v.elts]
                for x, val in zip(t.elts, vals):
                    self.env[x.id] = val
                return
            if not any(isinstance(x, ast.Name) and isinstance(x.ctx, ast.Store) for x in ast.walk(t)):
                return  # attribute / item store: no local is bound
            self.why = f"`{src(st)}` binds names by unpacking"
            return
        if isinstance(st, ast.AnnAssign) and isinstance(st.target, ast.Name):
            if st.value is not None:
                self.env[st.target.id] = self.sub(st.value)
            return
        if isinstance(st, ast.AugAssign) and isinstance(st.target, ast.Name) and isinstance(st.op, (ast.Add, ast.Sub)):
            cur = self.env.get(st.target.id, ast.Name(id=st.target.id, ctx=ast.Load()))
            self.env[st.target.id] = ast.BinOp(left=copy.deepcopy(cur), op=st.op, right=self.sub(st.value))
            return
        if isinstance(st, (ast.Expr, ast.Pass, ast.Assert)):
            return
        if isinstance(st, ast.If) and not st.orelse and _leaves(st.body):
            self.guards.append((st, dict(self.env)))
            return
        if isinstance(st, ast.If) and not any(isinstance(x, (ast.Name)) and isinstance(x.ctx, ast.Store) for x in ast.walk(st)) \
                and not any(isinstance(x, (ast.Continue, ast.Yield, ast.YieldFrom)) for x in ast.walk(st)):
            self.other_exits = self.other_exits or any(isinstance(x, (ast.Break, ast.Return, ast.Raise)) for x in ast.walk(st))
            return
        self.why = f"`{head(st)}` in the loop body: not a straight line of assignments and exit guards"


def _split_poly(p):
    """p == ATOM - K with K an integer: (ATOM name, K); else None."""
    if p is None:
        return None
    c = p.terms.get((), 0)
    rest = {k: v for k, v in p.terms.items() if k != ()}
    if len(rest) != 1 or c.denominator != 1:
        return None
    (mono, coef), = rest.items()
    if len(mono) != 1 or coef != 1:
        return None
    return mono[0], -int(c)


def _tail_form(m):
    """slice-mode packet whose fields are `<frame>[:-K]` / `<frame>[-K:]`: (K of the ciphertext, K of the signature) or None."""
    cs, ss = m["ct"].slice, m["sig"].slice
    kc = _cval(cs.upper) if (cs.lower is None or is_const(cs.lower, 0)) and cs.step is None and cs.upper is not None else None
    ks = _cval(ss.lower) if ss.upper is None and ss.step is None and ss.lower is not None else None
    if type(kc) is int and type(ks) is int and kc < 0 and ks < 0:
        return -kc, -ks
    return None


def _is_walk(g, m):
    """Is a slice-mode packet cut out of a buffer that is NOT rebound in the enclosing loop (so the position must be
    carried by an offset), as opposed to a buffer / view that is cut down each round?"""
    if m.get("mode") != "slice":
        return False
    fv = FuncView.of(g.node)
    loop = fv.enclosing(m["ctor"], (ast.While, ast.For, ast.AsyncFor))
    base = m["base_orig"]
    if _tail_form(m) is not None:
        if not (isinstance(base, ast.Subscript) and isinstance(base.slice, ast.Slice)):
            return False
        base = base.value
    if loop is None:
        return False
    bound = {x.id for st in loop.body for x in ast.walk(st) if isinstance(x, ast.Name) and isinstance(x.ctx, ast.Store)}
    buf = _inl(g, base, keep=bound)
    return not any(isinstance(x, ast.Name) and x.id in bound for x in ast.walk(buf))


class _Hdr(ast.NodeTransformer):
    """Replaces, inside a length-decoding expression, the bytes taken from the frame buffer by a placeholder
    `__frame__[:W]` and records where they start: hits = [(lower bound AST | None, upper bound AST | None)]."""

    def __init__(self, bsrc, ctx, g):
        self.bsrc, self.ctx, self.g, self.hits = bsrc, ctx, g, []

    def _ph(self, width=None):
        n = ast.Name(id="__frame__", ctx=ast.Load())
        if width is None:
            return n
        return ast.Subscript(value=n, slice=ast.Slice(lower=None, upper=ast.Constant(value=width), step=None), ctx=ast.Load())

    def visit(self, node):
        if isinstance(node, ast.Subscript) and isinstance(node.slice, ast.Slice) and node.slice.step is None and src(node.value) == self.bsrc:
            lo, hi = node.slice.lower, node.slice.upper
            self.hits.append((lo, hi))
            w = None
            if hi is not None:
                plo = _fpoly(lo) if lo is not None else absint.SymPoly.const(0)
                phi = _fpoly(hi)
                w = _int_const(phi - plo) if plo is not None and phi is not None else None
            return self._ph(w if w is not None and w >= 0 else None)
        if isinstance(node, ast.Call) and _ext(self.ctx, self.g, node) == "struct.unpack_from" and len(node.args) == 3 and not node.keywords \
                and src(node.args[1]) == self.bsrc:
            self.hits.append((node.args[2], None))
            return ast.Call(func=node.func, args=[node.args[0], self._ph()], keywords=[])
        if isinstance(node, ast.expr) and src(node) == self.bsrc:
            self.hits.append((None, None))
            return self._ph()
        return self.generic_visit(node)


def _walk(ctx, g, m):
    """Offset-walk reading of a slice-mode packet: the ciphertext and signature bounds [A:B] / [C:D] inside the buffer as
    polynomials over the values at the loop head.  -> dict, or a str saying why the shape is not understood."""
    if "walk" not in m:
        try:
            m["walk"] = _walk0(ctx, g, m)
        except RecursionError:
            m["walk"] = "expressions too deep"
    return m["walk"]


def _walk0(ctx, g, m):
    fv = FuncView.of(g.node)
    loop = fv.enclosing(m["ctor"], (ast.While, ast.For, ast.AsyncFor))
    if not isinstance(loop, ast.While):
        return "the packet is not cut out of the buffer inside a while loop"
    bw = _BodyWalk(g, loop)
    if bw.why:
        return bw.why
    top = {id(st) for st in loop.body}

    def at(node):
        st = fv.stmt_of(node)
        return st if st is not None and id(st) in top and id(st) in bw.at else None

    def bounds(sub):
        st = at(sub)
        if st is None or sub.slice.step is not None:
            return None
        lo = bw.value(sub.slice.lower, st) if sub.slice.lower is not None else ast.Constant(value=0)
        hi = bw.value(sub.slice.upper, st) if sub.slice.upper is not None else None
        return st, lo, hi

    tail = _tail_form(m)
    if tail is not None:
        fr = m["base_orig"]
        b = bounds(fr)
        if b is None or b[2] is None:
            return "the frame slice is not evaluated in the straight-line part of the loop body or is open-ended"
        st, lo, hi = b
        buf = bw.value(fr.value, st)
        A, B = lo, ast.BinOp(left=hi, op=ast.Sub(), right=ast.Constant(value=tail[0]))
        C, D = ast.BinOp(left=hi, op=ast.Sub(), right=ast.Constant(value=tail[1])), hi
    else:
        bc, bs = bounds(m["ct"]), bounds(m["sig"])
        if bc is None or bs is None or bc[2] is None or bs[2] is None:
            return "the field slices are not evaluated in the straight-line part of the loop body or are open-ended"
        buf = bw.value(m["ct"].value, bc[0])
        if src(buf) != src(bw.value(m["sig"].value, bs[0])):
            return "ciphertext and signature are cut from different buffers"
        (A, B), (C, D) = bc[1:], bs[1:]
    if any(isinstance(x, ast.Name) and x.id in bw.carried for x in ast.walk(buf)):
        return f"the buffer `{src(buf)}` is rebound inside the loop"
    polys = [_fpoly(x) for x in (A, B, C, D)]
    if any(p is None for p in polys):
        return "slice bounds have no polynomial normal form"
    if any(_int_const(p) is not None and _int_const(p) < 0 for p in polys):
        return "slice bounds counted from the end of the buffer"
    return dict(loop=loop, bw=bw, buf=buf, bsrc=src(buf), exprs=(A, B, C, D), polys=polys)


def _walk_size(ctx, g, w):
    """The length prefix of an offset walk: the atom S with (end of ciphertext) - (start of ciphertext) == S - K, decoded.
    -> dict(node, K, dec = _size_src result | None, start = polynomial of the offset the decoded bytes start at | None)"""
    A, B, _C, _D = w["exprs"]
    pa, pb = w["polys"][0], w["polys"][1]
    sp = _split_poly(pb - pa)
    if sp is None:
        return None
    node = None
    for e in (B, A):
        for x in _dfs(e):
            if isinstance(x, (ast.Call, ast.Subscript, ast.Name, ast.Attribute)) and src(x) == sp[0]:
                node = x
                break
        if node is not None:
            break
    out = dict(node=node, K=sp[1], atom=sp[0], dec=None, start=None, hits=0)
    if node is None or isinstance(node, (ast.Name, ast.Attribute)):
        return out
    h = _Hdr(w["bsrc"], ctx, g)
    rewritten = h.visit(copy.deepcopy(node))
    out["hits"] = len(h.hits)
    if len(h.hits) != 1:
        return out
    out["dec"] = _size_src(ctx, g, ast.fix_missing_locations(rewritten))
    lo = h.hits[0][0]
    out["start"] = _fpoly(lo) if lo is not None else absint.SymPoly.const(0)
    return out


def _r4_walk(ctx, f, m):
    """Signature-length sites of an offset walk: ciphertext length == <size> - 16, signature length == 16."""
    w = _walk(ctx, f, m)
    if isinstance(w, str):
        ctx.undecided("R4", "TABLE", f, "framing reads", "fields are slices of one buffer at computed offsets; " + w, m["ctor"])
        return 0
    sites = 0
    pa, pb, pc, pd = w["polys"]
    sp = _split_poly(pb - pa)
    if sp is None:
        k0 = _int_const(pb - pa)
        if k0 is not None:
            ctx.ob("R4", "TABLE", f, "ciphertext read", False, f"ciphertext length is the constant {k0}, not <frame size> - 16", m["ct"])
        else:
            ctx.undecided("R4", "TABLE", f, "ciphertext read", f"ciphertext length {pb - pa!r} is not of the form <size> - K", m["ct"])
    else:
        ctx.ob("R4", "TABLE", f, "ciphertext read", sp[1] == SIG_LEN, f"ciphertext length is {pb - pa!r}: subtracts {sp[1]} (16 required)", m["ct"])
        sites += 1
    k = _int_const(pd - pc)
    if k is not None:
        ctx.ob("R4", "TABLE", f, "signature read", k == SIG_LEN, f"signature slice length {k} (16 required)", m["sig"])
        sites += 1
    else:
        ctx.undecided("R4", "TABLE", f, "signature read", f"signature slice length {pd - pc!r} is not a constant", m["sig"])
    return sites


def _r7_walk(ctx, g, m, ptext, ltext):
    """Client reader that walks one buffer by an offset: header / ciphertext / signature are adjacent slices starting at
    the offset of the loop head, the offset ends each round behind the signature, starts at 0, and the loop runs while a
    complete frame is left."""
    w = _walk(ctx, g, m)
    if isinstance(w, str):
        ctx.undecided("R7", "AGREE", g, ptext, "packet fields are slices of one buffer at computed offsets; " + w, m["ctor"])
        ctx.undecided("R7", "LOOP", g, ltext, w, m["ctor"])
        return
    loop, bw = w["loop"], w["bw"]
    pa, pb, pc, pd = w["polys"]
    # ---------------- field order: the signature is what follows the ciphertext
    gap = pc - pb
    if not gap.terms:
        ctx.ob("R7", "AGREE", g, "read order", True, "the signature slice starts where the ciphertext slice ends", m["ctor"])
    elif _int_const(gap) is not None:
        ctx.ob("R7", "AGREE", g, "read order", False, f"the signature slice starts at {pc!r} but the ciphertext ends at {pb!r}", m["ctor"])
    else:
        ctx.undecided("R7", "AGREE", g, "read order", f"signature start {pc!r} not comparable with the ciphertext end {pb!r}", m["ctor"])
    # ---------------- the length prefix
    sz = _walk_size(ctx, g, w)
    pos = None
    if sz is None or sz["dec"] is None or sz["start"] is None:
        ctx.undecided("R7", "AGREE", g, ptext, "the expression that decodes the frame length was not recognised"
                      + (f" ({src(sz['node'])})" if sz and sz.get("node") is not None else ""), m["ctor"])
    else:
        size = sz["dec"]
        fmt_ok = size["width"] == HDR_LEN and size["order"] == "big" and not size["signed"]
        detail = (f"frame length decoded as {size['width']}-byte {size['order']}-endian {'signed' if size['signed'] else 'unsigned'} integer from "
                  f"`{w['bsrc']}` at offset {sz['start']!r}; the ciphertext starts at offset {pa!r}")
        if size["width"] is None or size["order"] is None:
            ctx.undecided("R7", "AGREE", g, ptext, detail + "; width or byte order of the decoding could not be determined", m["ctor"])
        else:
            off = pa - sz["start"]
            adjacent = _int_const(off) == HDR_LEN
            if fmt_ok and not adjacent and _int_const(off) is None and len(off.atoms()) > 1:
                ctx.undecided("R7", "AGREE", g, ptext, detail + "; the two offsets are not comparable", m["ctor"])
            else:
                ctx.ob("R7", "AGREE", g, ptext, fmt_ok and adjacent, detail + ("" if adjacent else
                       f" - the length of every frame must be the {HDR_LEN} bytes directly in front of its ciphertext"), m["ctor"])
            name = None
            if len(sz["start"].terms) == 1:
                (mono, coef), = sz["start"].terms.items()
                if len(mono) == 1 and coef == 1 and mono[0] in bw.carried:
                    name = mono[0]
            pos = name
    if pos is None:
        # the position may still be found as the only loop-carried name of the ciphertext start
        cands = [a for a in pa.atoms() if a in bw.carried]
        sp = _split_poly(pa)
        if sp is not None and sp[0] in bw.carried and len(cands) == 1:
            pos = sp[0]
    if pos is None:
        ctx.undecided("R7", "LOOP", g, ltext, "the offset that carries the position from one frame to the next was not located", loop)
        return
    # ---------------- the offset starts at 0 and ends each round behind the signature
    outside = [(st, v) for st, v in assignments_to(g.node, pos) if not _in(loop, st)]
    starts = [_int_const(_fpoly(_inl(g, v))) if v is not None else None for _st, v in outside]
    if not outside or any(s is None for s in starts):
        ctx.undecided("R7", "LOOP", g, "walk starts at the first frame", f"initial value of `{pos}` is not a constant", loop)
    else:
        ctx.ob("R7", "LOOP", g, "walk starts at the first frame", all(s == 0 for s in starts), f"`{pos}` starts at {sorted(set(starts))} (0 required)", loop)
    if pos not in bw.end:
        ctx.ob("R7", "LOOP", g, ltext, False, f"offset `{pos}` is never advanced inside the loop", loop)
    else:
        pe = _fpoly(bw.value(ast.Name(id=pos, ctx=ast.Load()), env=bw.end))
        if pe is None:
            ctx.undecided("R7", "LOOP", g, ltext, f"the value of `{pos}` at the end of the loop body has no polynomial normal form", loop)
        elif pe == pd:
            ctx.ob("R7", "LOOP", g, ltext, True, f"`{pos}` ends each round at {pe!r}, the end of the signature", loop)
        elif _int_const(pe - pd) is not None or (pe - pd).atoms() <= {sz["atom"] if sz else ""}:
            ctx.ob("R7", "LOOP", g, ltext, False, f"`{pos}` ends each round at {pe!r} but the frame ends at {pd!r}", loop)
        else:
            ctx.undecided("R7", "LOOP", g, ltext, f"end-of-round offset {pe!r} not comparable with the end of the frame {pd!r}", loop)
    # ---------------- the loop runs while a complete frame is left
    total = absint.SymPoly.atom("@total")
    bsrc = w["bsrc"]

    def hook(x):
        if isinstance(x, ast.Call) and dotted(x.func) == "len" and len(x.args) == 1 and not x.keywords and src(x.args[0]) == bsrc:
            return total
        return None

    def polyfn(e):
        return _fpoly(e, hook)

    head_pos = absint.SymPoly.atom(pos)
    rems = [total - head_pos]
    pend = _fpoly(bw.value(ast.Name(id=pos, ctx=ast.Load()), env=bw.end)) if pos in bw.end else None
    if pend is not None and pend != head_pos:
        rems.append(total - pend)  # number of bytes left at the next loop head

    def truthy(e):
        # <buffer>[<offset>:] used as a test: something is left
        if isinstance(e, ast.Subscript) and isinstance(e.slice, ast.Slice) and e.slice.upper is None and e.slice.step is None and src(e.value) == bsrc:
            lo = polyfn(e.slice.lower) if e.slice.lower is not None else None
            for j, r in enumerate(rems):
                if lo is not None and (total - lo) == r:
                    return j
        return None

    conj = _rem_conjuncts(bw.value(loop.test, env={}), polyfn, rems, truthy)
    for st, env in bw.guards:
        conj += _rem_conjuncts(nnf(bw.value(st.test, env=env), True), polyfn, rems, truthy)
    _frames_left_ob(ctx, g, loop, conj, head=(0,), other_exits=bw.other_exits or _loop_exits(loop, skip=[st for st, _e in bw.guards]))


def _r7_client(ctx, g):
    ptext = "length prefix: big-endian uint32 read from the packet stream"
    ltext = "loop over all framed packets"
    fv = FuncView.of(g.node)
    cfg = ctx.cfg(g)
    pk = [m for m in _reader_packets(ctx, g)]
    located = [m for m in pk if m["mode"]]
    if not located:
        ctx.undecided("R7", "AGREE", g, ptext, "packet fields not located: " + ("; ".join(m["why"] for m in pk) or "no EncryptedPacket built"), g.node)
        ctx.undecided("R7", "LOOP", g, ltext, "packet fields not located", g.node)
        return
    for m in located:
        _r7_order(ctx, g, m)
        if _is_walk(g, m):
            _r7_walk(ctx, g, m, ptext, ltext)
            continue
        loop = fv.enclosing(m["ctor"], (ast.While, ast.For, ast.AsyncFor))
        # ---------------- the length prefix
        size = None
        hdr = None  # slice mode: width of the header skipped before the packet bytes
        if m["mode"] == "read":
            carrier = m["stream"]
            e = m["ct"].args[0]
            for _lvl in range(6):
                sp = _split_minus_const(e)
                size = _size_src(ctx, g, sp[0]) if sp else None
                if size is not None:
                    break
                e = _inl_once(g, e, keep=[carrier.split(".")[0]])
        else:
            base = m["base_orig"]
            carrier = None
            if isinstance(base, ast.Subscript) and isinstance(base.slice, ast.Slice) and dotted(base.value) and base.slice.step is None \
                    and base.slice.lower is not None and base.slice.upper is not None:
                carrier = dotted(base.value)
                hdr = _cval(_inl(g, base.slice.lower))
                m["upper"] = base.slice.upper
                e = ast.BinOp(left=base.slice.upper, op=ast.Sub(), right=base.slice.lower)
                for _lvl in range(6):
                    diff = absint.sympoly(e)
                    for x in _dfs(e):
                        if isinstance(x, (ast.Call, ast.Subscript)):
                            sx = _size_src(ctx, g, x)
                            if sx is not None and diff is not None and diff == absint.sympoly(x):
                                size = sx
                                break
                    if size is not None:
                        break
                    e = _inl_once(g, e, keep=[carrier.split(".")[0]])
        if size is None or carrier is None:
            ctx.undecided("R7", "AGREE", g, ptext, "the expression that decodes the frame length was not recognised", m["ctor"])
        else:
            fmt_ok = size["width"] == 4 and size["order"] == "big" and not size["signed"]
            same = _same_buffer(g, size["name"], carrier)
            detail = (f"frame length decoded as {size['width']}-byte {size['order']}-endian {'signed' if size['signed'] else 'unsigned'} integer from "
                      f"{size['kind']} `{size['name']}`; packet bytes are taken from `{carrier}`")
            if size["width"] is None or size["order"] is None:
                ctx.undecided("R7", "AGREE", g, ptext, detail + "; width or byte order of the decoding could not be determined", m["ctor"])
            elif fmt_ok and same and m["mode"] == "slice" and hdr != 4:
                ctx.ob("R7", "AGREE", g, ptext, False, detail + f"; packet bytes start at offset {hdr}, the header is 4 bytes", m["ctor"])
            elif fmt_ok and same and m["mode"] == "read" and size["kind"] != "stream":
                ctx.undecided("R7", "AGREE", g, ptext, detail + "; mixing buffer decoding and stream reads is not understood", m["ctor"])
            else:
                ctx.ob("R7", "AGREE", g, ptext, fmt_ok and same, detail + ("" if same else " - a different object: the length of every frame must come "
                       "from the position the frame is read from"), m["ctor"])
            if fmt_ok and same and m["mode"] == "read" and size["kind"] == "stream" and size["consume"] is not None:
                oc = _orig_call(g, size["consume"])
                o = _before(ctx, g, oc, m["ct"]) if oc is not None else None
                if o is None:
                    ctx.undecided("R7", "AGREE", g, "length prefix read first", "order of the length read and the ciphertext read not established", m["ctor"])
                else:
                    extra = [src(ev) for ev in _stream_events(g, carrier) if ev is not oc and ev is not m["ct"]
                             and _before(ctx, g, oc, ev) is True and _before(ctx, g, ev, m["ct"]) is True]
                    ctx.ob("R7", "AGREE", g, "length prefix read first", o and not extra,
                           "the length prefix is read before the ciphertext" + (f", but {extra} moves the stream in between" if extra else "") if o
                           else "the ciphertext is read before the length prefix", m["ctor"])
        # ---------------- the loop
        if loop is None:
            if any(isinstance(s, (ast.While, ast.For, ast.AsyncFor)) for s in statements(g.node)):
                ctx.undecided("R7", "LOOP", g, ltext, "the packet is not built inside the loop of the reader", m["ctor"])
            else:
                ctx.ob("R7", "LOOP", g, ltext, False, "the client reader builds one packet and has no loop: only the first frame is returned", m["ctor"])
            continue
        if not isinstance(loop, ast.While):
            ctx.undecided("R7", "LOOP", g, ltext, "for-loop framing is not understood", loop)
            continue
        _r7_loop(ctx, g, m, loop, carrier, ltext)


def _in(loop, st):
    return any(x is st for x in ast.walk(loop))


def _frames_left_buffer(ctx, g, loop, name):
    """Modes (A) / (C): the bytes that are left are the buffer `name` at the loop head; its length is the remaining length."""
    left = absint.SymPoly.atom("@left")
    keep = [name.split(".")[0]]

    def hook(x):
        if isinstance(x, ast.Call) and dotted(x.func) == "len" and len(x.args) == 1 and not x.keywords and dotted(x.args[0]) == name:
            return left
        return None

    def polyfn(e):
        return _fpoly(e, hook)

    def truthy(e):
        return 0 if dotted(e) == name else None

    guards = _leading_guards(loop)
    conj = _rem_conjuncts(_noview(_inl(g, loop.test, keep=keep)), polyfn, [left], truthy)
    for st in guards:
        conj += _rem_conjuncts(nnf(_noview(_inl(g, st.test, keep=keep)), True), polyfn, [left], truthy)
    return _frames_left_ob(ctx, g, loop, conj, other_exits=_loop_exits(loop, skip=guards))


def _r7_loop(ctx, g, m, loop, carrier, ltext):
    if carrier is None:
        ctx.undecided("R7", "LOOP", g, ltext, "the object the packet bytes are taken from was not located", loop)
        return
    defs = assignments_to(g.node, carrier)
    inside = [(st, v) for st, v in defs if _in(loop, st)]
    if m["mode"] == "read":
        if inside:
            # (A) the stream is re-created each round from the unread remainder of the previous one
            srcs = set()
            for st, v in inside:
                v = _inl(g, v) if v is not None else None
                if isinstance(v, ast.Call) and (_ext(ctx, g, v) or "").split(".")[-1] == "BytesIO" and len(v.args) == 1 and dotted(v.args[0]):
                    srcs.add(dotted(v.args[0]))
                else:
                    srcs.add(None)
            if len(srcs) != 1 or None in srcs:
                ctx.undecided("R7", "LOOP", g, ltext, f"stream `{carrier}` is rebound inside the loop, not as io.BytesIO(<remaining data>)", loop)
                return
            d = srcs.pop()
            if _frames_left_buffer(ctx, g, loop, d) != "ok":
                return
            rebinds = [(st, v) for st, v in assignments_to(g.node, d) if _in(loop, st)]
            if not rebinds:
                ctx.ob("R7", "LOOP", g, ltext, False, f"`{d}` is never advanced inside the loop", loop)
                return
            bad = []
            for st, v in rebinds:
                v = origin(g.node, v) if v is not None else None
                if v is None or not _is_rest_read(v, carrier):
                    if v is not None and not (_mentions(_inl(g, v, keep=[carrier, d]), carrier) or _mentions(_inl(g, v, keep=[carrier, d]), d)):
                        bad.append(f"{src(st)} (does not depend on the data that is left)")
                        continue
                    ctx.undecided("R7", "LOOP", g, ltext, f"`{d}` is advanced by {src(st)}, not by reading the rest of the stream: not understood", loop)
                    return
                if _before(ctx, g, m["sig"], v) is not True:
                    bad.append(f"{src(st)} (not after the signature read)")
            ctx.ob("R7", "LOOP", g, ltext, not bad,
                   f"while `{d}`: stream rebuilt from `{d}`; `{d}` rebound to the unread remainder after the signature read" if not bad else
                   "remaining data wrongly advanced: " + "; ".join(bad), loop)
            return
        # (B) one stream walked to its end
        if len(defs) != 1 or defs[0][1] is None:
            ctx.undecided("R7", "LOOP", g, ltext, f"stream `{carrier}` has no single definition before the loop", loop)
            return
        sdef = origin(g.node, defs[0][1])
        wrapped = dotted(sdef.args[0]) if isinstance(sdef, ast.Call) and (_ext(ctx, g, sdef) or "").split(".")[-1] == "BytesIO" and len(sdef.args) == 1 else None
        raw = loop.test
        while isinstance(raw, ast.Name) and len(assignments_to(g.node, raw.id)) == 1 and assignments_to(g.node, raw.id)[0][1] is not None:
            raw = assignments_to(g.node, raw.id)[0][1]
        total, other, posn = absint.SymPoly.atom("@total"), absint.SymPoly.atom("@other"), absint.SymPoly.atom("@pos")
        not_end = []

        def hook(x):
            if not isinstance(x, (ast.Name, ast.Call, ast.Attribute)):
                return None
            i = _inl(g, x, keep=[carrier])
            if isinstance(i, ast.Call) and isinstance(i.func, ast.Attribute) and i.func.attr == "tell" and dotted(i.func.value) == carrier and not i.args:
                return posn
            k = _kconst(i)
            if type(k) is int:
                return absint.SymPoly.const(k)
            ee = _is_end_of(ctx, g, x, carrier, wrapped, loop)
            if ee is True:
                return total
            if ee is False:
                not_end.append(src(x))
                return other
            return None

        def polyfn(e):
            return _fpoly(e, hook)

        guards = _leading_guards(loop)
        conj = _rem_conjuncts(_strip_bool(raw), polyfn, [total - posn, other - posn], lambda e: None)
        for st in guards:
            conj += _rem_conjuncts(nnf(st.test, True), polyfn, [total - posn, other - posn], lambda e: None)
        if any(c["idx"] == 1 for c in conj):
            ctx.ob("R7", "LOOP", g, FTEXT, False, f"the position of the stream is compared with {not_end}, which is not the total length of the stream "
                   f"(loop condition {src(loop.test)})", loop)
            return
        if not any(c["pred"] is not None for c in conj):
            ctx.undecided("R7", "LOOP", g, ltext, f"loop condition {src(loop.test)} is not recognised as `position of the stream < its end`", loop)
            return
        if _frames_left_ob(ctx, g, loop, conj, other_exits=_loop_exits(loop, skip=guards)) != "ok":
            return
        extra = [src(ev) for ev in _stream_events(g, carrier) if _in(loop, FuncView.of(g.node).stmt_of(ev)) and ev is not m["ct"] and ev is not m["sig"]
                 and _before(ctx, g, m["sig"], ev) is True]
        ctx.ob("R7", "LOOP", g, ltext, not extra,
               "one stream walked from frame to frame; nothing but the frame fields is read inside the loop" if not extra else
               f"{extra} moves the stream after the signature", loop)
        return
    # (C) slices of a buffer that is cut down each round
    if not inside:
        ctx.ob("R7", "LOOP", g, ltext, False, f"buffer `{carrier}` is never advanced inside the loop", loop)
        return
    if _frames_left_buffer(ctx, g, loop, carrier) != "ok":
        return
    upper = _inl(g, m["upper"]) if m.get("upper") is not None else None
    if upper is None:
        ctx.undecided("R7", "LOOP", g, ltext, "end of the packet inside the buffer not located", loop)
        return
    bad = []
    for st, v in inside:
        if isinstance(v, ast.Subscript) and isinstance(v.slice, ast.Slice) and dotted(v.value) == carrier and v.slice.upper is None and v.slice.step is None \
                and v.slice.lower is not None:
            a, b = absint.sympoly(_inl(g, v.slice.lower)), absint.sympoly(upper)
            if a is None or b is None:
                ctx.undecided("R7", "LOOP", g, ltext, f"advance {src(st)} not comparable with the end of the packet", loop)
                return
            if a != b:
                bad.append(f"{src(st)} (the packet ends at {src(upper)})")
        else:
            ctx.undecided("R7", "LOOP", g, ltext, f"buffer `{carrier}` is rebound by {src(st)}: not a tail slice", loop)
            return
    ctx.ob("R7", "LOOP", g, ltext, not bad, f"while `{carrier}`: `{carrier}` is cut to what follows the packet each round" if not bad else
           "buffer wrongly advanced: " + "; ".join(bad), loop)


def _is_rest_read(v, stream):
    """<stream>.read() / .read(-1) / .read(None): everything that has not been read yet."""
    if not (isinstance(v, ast.Call) and isinstance(v.func, ast.Attribute) and v.func.attr == "read" and dotted(v.func.value) == stream and not v.keywords):
        return False
    if not v.args:
        return True
    return len(v.args) == 1 and isinstance(v.args[0], ast.Constant) and (v.args[0].value is None or v.args[0].value == -1) or (
        len(v.args) == 1 and _cval(v.args[0]) == -1)


def _is_end_of(ctx, g, e, stream, wrapped, loop):
    """Is e the total length of the stream? True / False (located, something else) / None (not understood)."""
    o = origin(g.node, e)
    i = _inl(g, e, keep=[stream])
    for cand in (o, i):
        if isinstance(cand, ast.Call) and dotted(cand.func) == "len" and len(cand.args) == 1 and dotted(cand.args[0]) is not None:
            i = cand
            break
    if isinstance(i, ast.Call) and dotted(i.func) == "len" and len(i.args) == 1:
        a = i.args[0]
        if wrapped is not None and dotted(a) is not None:
            return _same_buffer(g, dotted(a), wrapped)
        if isinstance(a, ast.Call) and isinstance(a.func, ast.Attribute) and a.func.attr in ("getvalue", "getbuffer") and dotted(a.func.value) == stream:
            return True
        return None
    if isinstance(i, ast.Attribute) and i.attr == "nbytes" and isinstance(i.value, ast.Call) and isinstance(i.value.func, ast.Attribute) \
            and i.value.func.attr == "getbuffer" and dotted(i.value.func.value) == stream:
        return True
    if isinstance(o, ast.Call) and isinstance(o.func, ast.Attribute) and o.func.attr == "seek" and dotted(o.func.value) == stream and len(o.args) == 2:
        whence = o.args[1]
        at_end = _cval(o.args[0]) == 0 and (_cval(whence) == 2 or (dotted(whence) or "").endswith("SEEK_END"))
        if not at_end:
            return False
        # the stream must be rewound to its start between measuring and the loop
        fv = FuncView.of(g.node)
        cfg = ctx.cfg(g)
        for ev in _stream_events(g, stream):
            if isinstance(ev.func, ast.Attribute) and ev.func.attr == "seek" and ev is not o and (
                    (len(ev.args) == 1 and _cval(ev.args[0]) == 0) or (len(ev.args) == 2 and _cval(ev.args[0]) == 0 and (_cval(ev.args[1]) == 0 or (dotted(ev.args[1]) or "").endswith("SEEK_SET")))):
                if _before(ctx, g, o, ev) is True and cfg.dominates(cfg.node(fv.stmt_of(ev)), cfg.node(loop)) and not _in(loop, fv.stmt_of(ev)):
                    return True
        return False
    return None


# ---------------------------------------------------------------------------- R7: a complete task blob is not dropped
# Smallest task blob the writer side produces: one AES block (pad() always appends 1..16 bytes, R5) followed by the
# 16-byte signature (R4).  Every blob of MIN_PACKET or more bytes may be a complete packet.
MIN_PACKET = BLOCK + SIG_LEN
BTEXT = "a packet is produced whenever a complete task blob is present"
PTEXT = "a frame that holds a complete packet is not skipped"


_PURE_CALLS = {"len", "bytes", "bytearray", "memoryview", "int", "bool", "abs", "min", "max"}


def _expand_at(ctx, f, e, st, uses, depth=0):
    """Expression e, evaluated in statement st, with every single-definition temporary whose definition dominates st
    replaced by its definition (recursively, the definition being evaluated in *its* statement).  A definition that calls
    anything but the value-only builtins of _PURE_CALLS is not substituted (a stream read happens once: the local that
    holds its result is the value).  Every local that is left
    (such a result, several definitions, rebound parameter, loop / with target) is recorded in `uses` as (name, statement it is read in),
    so that `_same_values` can tell whether all the reads see one value."""
    fn = f.node
    cfg = ctx.cfg(f)
    ps = set(params(fn))

    class _X(ast.NodeTransformer):
        def visit_Name(self, node):
            if not isinstance(node.ctx, ast.Load):
                return node
            defs = assignments_to(fn, node.id)
            if not defs:
                return node  # parameter that is never rebound, global, builtin
            if node.id not in ps and len(defs) == 1 and depth < 8:
                d, v = defs[0]
                if v is not None and isinstance(d, (ast.Assign, ast.AnnAssign)) and d is not st and cfg.has(d) and cfg.has(st) \
                        and cfg.dominates(cfg.node(d), cfg.node(st)) and not any(isinstance(x, ast.Name) and x.id == node.id for x in ast.walk(v)) \
                        and all(dotted(x.func) in _PURE_CALLS for x in ast.walk(v) if isinstance(x, ast.Call)):
                    return _expand_at(ctx, f, v, d, uses, depth + 1)
            uses.append((node.id, st))
            return node

        def visit_Lambda(self, node):
            return node

    return _X().visit(copy.deepcopy(e))


def _same_values(ctx, f, uses):
    """None if every local recorded by `_expand_at` denotes the same value at all the statements it is read in: the reads
    are ordered by dominance and no definition of the local lies on a path from the earlier read to the later one that does
    not pass the earlier read again (device 2/3: reachability on the CFG).  Else a description of the obstacle."""
    cfg = ctx.cfg(f)
    by = {}
    for n, st in uses:
        by.setdefault(n, {})[id(st)] = st
    for n, sts in by.items():
        sts = list(sts.values())
        if any(not cfg.has(s) for s in sts):
            return f"`{n}` is read in a statement that is not on the CFG"
        dn = []
        for d, _v in assignments_to(f.node, n):
            if not isinstance(d, ast.stmt) or not cfg.has(d):
                return f"a definition of `{n}` is not on the CFG"
            dn.append(cfg.edge_node(d, "iter") if isinstance(d, (ast.For, ast.AsyncFor)) else cfg.node(d))
        for a in sts:
            for b in sts:
                if a is b:
                    continue
                na, nb = cfg.node(a), cfg.node(b)
                if cfg.dominates(na, nb):
                    for d in dn:
                        if (d == na or cfg.reaches(na, d)) and cfg.reaches(d, nb, avoiding=[na]):
                            return f"`{n}` may be rebound between the places where it is read"
                elif not cfg.dominates(nb, na):
                    return f"the places where `{n}` is read are not ordered by dominance"
    return None


def _dom_edges(ctx, f, st):
    """{(id(branch statement), polarity): (branch statement, polarity)} of the branch edges that dominate statement st."""
    cfg = ctx.cfg(f)
    out = {}
    if st is None or not cfg.has(st):
        return None
    target = cfg.node(st)
    for _n, s in cfg.stmt.items():
        if isinstance(s, (ast.If, ast.While)):
            for pol in (True, False):
                try:
                    e = cfg.edge_node(s, "true" if pol else "false")
                except Exception:
                    continue
                if e in cfg.g and cfg.dominates(e, target):
                    out[(id(s), pol)] = (s.test, pol, s)
    return out


def _expr_edges(f, node):
    """The same for the conditions *inside* the statement of `node`: conditional expressions and short-circuit operators
    that decide whether `node` is evaluated.  None when node sits in a comprehension / lambda (evaluated per element)."""
    fv = FuncView.of(f.node)
    st = fv.stmt_of(node)
    out = {}
    child = node
    for a in fv.ancestors(node):
        if a is st or isinstance(a, ast.stmt):
            break
        if isinstance(a, (ast.ListComp, ast.SetComp, ast.DictComp, ast.GeneratorExp, ast.Lambda)):
            return None
        if isinstance(a, ast.IfExp) and child is not a.test:
            out[(id(a), child is a.body)] = (a.test, child is a.body, st)
        if isinstance(a, ast.BoolOp):
            i = next((j for j, v in enumerate(a.values) if v is child), 0)
            for v in a.values[:i]:
                out[(id(v), isinstance(a.op, ast.And))] = (v, isinstance(a.op, ast.And), st)
        child = a
    return out


def _emit_stmts(f, ctor):
    """The statements that hand the packet built by `ctor` to the caller (yield / return / <list>.append), when the packet
    is first bound to a local; [] when the constructing statement itself does (or nothing is found)."""
    fv = FuncView.of(f.node)
    st = fv.stmt_of(ctor)
    if st is None or any(isinstance(x, (ast.Yield, ast.YieldFrom, ast.Return)) and any(y is ctor for y in ast.walk(x)) for x in ast.walk(st)):
        return []
    if not (isinstance(st, ast.Assign) and len(st.targets) == 1 and isinstance(st.targets[0], ast.Name)):
        return []
    p = st.targets[0].id
    out = []
    for s in statements(f.node):
        if s is st or isinstance(s, (ast.If, ast.While, ast.For, ast.AsyncFor, ast.With, ast.AsyncWith, ast.Try)):
            continue
        for x in ast.walk(s):
            v = None
            if isinstance(x, (ast.Yield, ast.YieldFrom, ast.Return)):
                v = x.value
            elif isinstance(x, ast.Call) and isinstance(x.func, ast.Attribute) and x.func.attr in ("append", "extend", "appendleft", "add", "put"):
                v = ast.Tuple(elts=list(x.args), ctx=ast.Load())
            if v is not None and any(isinstance(y, ast.Name) and y.id == p and isinstance(y.ctx, ast.Load) for y in ast.walk(v)):
                out.append(s)
                break
    return out


def _r7_complete_blob(ctx, s, text=BTEXT, partial=False, what="blob"):
    """Server reader: the conditions under which the one packet of a task blob is built and handed out - the branch edges
    that dominate every EncryptedPacket construction (and the statements that yield it) - read as predicates `n op K` of the
    number n of bytes of the blob (ciphertext length + 16, in polynomial normal form), must hold for every n >= MIN_PACKET:
    a blob of one AES block plus the signature is a complete packet (plaintext of 0..15 bytes).
    Client reader (partial=True): the same for the payload of one frame, n = the decoded frame length; conditions that do not
    mention n (the loop test, end-of-stream guards) are the business of "loop runs while a complete frame is left" and are
    left out here."""
    fv = FuncView.of(s.node)
    pk = _reader_packets(ctx, s)
    located = [m for m in pk if m["mode"]]
    if not located:
        ctx.undecided("R7", "DOM", s, text, "packet fields not located: " + ("; ".join(m["why"] for m in pk) or "no EncryptedPacket built"), s.node)
        return
    uses = []

    def polyfn(e):
        return _fpoly(_noview(e)) if e is not None else None

    # ---------------- the number of bytes of the blob, from the ciphertext length of every located construction
    rems = []
    for m in located:
        ct = m["ct"]
        st = fv.stmt_of(ct)
        ctlen = None
        if m["mode"] == "read":
            ctlen = polyfn(_expand_at(ctx, s, ct.args[0], st, uses))
        else:
            tail = _tail_form(m)
            sl = ct.slice
            if tail is not None:
                buf = _noview(_expand_at(ctx, s, ct.value, st, uses))
                ctlen = polyfn(ast.Call(func=ast.Name(id="len", ctx=ast.Load()), args=[buf], keywords=[])) - absint.SymPoly.const(tail[0])
            elif sl.step is None and sl.upper is not None and (sl.lower is None or is_const(sl.lower, 0)):
                ctlen = polyfn(_expand_at(ctx, s, sl.upper, st, uses))
            elif sl.step is None and sl.upper is not None:
                up, lo = polyfn(_expand_at(ctx, s, sl.upper, st, uses)), polyfn(_expand_at(ctx, s, sl.lower, st, uses))
                ctlen = up - lo if up is not None and lo is not None else None
        if ctlen is None or _int_const(ctlen) is not None:
            ctx.undecided("R7", "DOM", s, text, f"the length of the ciphertext has no polynomial normal form over the length of the {what}", m["ctor"])
            return
        rems.append(ctlen + absint.SymPoly.const(SIG_LEN))
    rem = rems[0]
    if any(r != rem for r in rems[1:]):
        ctx.undecided("R7", "DOM", s, text, f"the packet constructions of the reader do not agree on the size of the {what}", s.node)
        return

    def truthy(e):
        # a bytes-like value used as a test: it is not empty
        e = _noview(e)
        if isinstance(e, (ast.Name, ast.Attribute, ast.Subscript, ast.Call, ast.BoolOp, ast.IfExp)):
            p = polyfn(ast.Call(func=ast.Name(id="len", ctx=ast.Load()), args=[e], keywords=[]))
            if p is not None and p == rem:
                return 0
        return None

    # ---------------- the branch edges every construction (and every hand-out of it) is dominated by
    common = None
    for m in pk:
        edges = _dom_edges(ctx, s, fv.stmt_of(m["ctor"]))
        inner = _expr_edges(s, m["ctor"])
        if edges is None or inner is None:
            ctx.undecided("R7", "DOM", s, text, "a packet construction is not on the CFG or sits inside a comprehension / lambda", m["ctor"])
            return
        edges.update(inner)
        em = None
        for e in _emit_stmts(s, m["ctor"]):
            de = _dom_edges(ctx, s, e) or {}
            em = de if em is None else {k: v for k, v in em.items() if k in de}
        edges.update(em or {})
        common = edges if common is None else {k: v for k, v in common.items() if k in edges}
    conj = []
    atoms = set(rem.atoms())
    for test, pol, at in (common or {}).values():
        tuses, kept = [], len(conj)
        t = nnf(_truth(_noview(_expand_at(ctx, s, test, at, tuses))), not pol)
        for c in conjuncts(t):
            nn = None
            if isinstance(c, ast.Compare) and len(c.ops) == 1 and isinstance(c.ops[0], (ast.Is, ast.IsNot)):
                l, r = c.left, c.comparators[0]
                for a, b in ((l, r), (r, l)):
                    if isinstance(b, ast.Constant) and b.value is None and truthy(a) is not None:
                        nn = isinstance(c.ops[0], ast.IsNot)
            if nn is True:
                continue  # bytes that are present are not None
            if nn is False:
                conj.append(dict(text=src(c), pred=("<", 0), idx=0))  # never true for bytes that are present
                continue
            got = _rem_conjuncts(c, polyfn, [rem], truthy)
            if partial and any(g["pred"] is None for g in got) and not any(
                    (dotted(x) in atoms or src(x) in atoms) for x in ast.walk(c) if isinstance(x, (ast.Name, ast.Attribute, ast.Call, ast.Subscript))):
                continue  # says nothing about the size of the payload
            conj += got
        if len(conj) > kept:
            uses += tuses
    gaps, unknown = [], []
    for c in conj:
        if c["pred"] is None:
            unknown.append(c["text"])
            continue
        gap, _z = _pred_gap(*c["pred"], m=MIN_PACKET)
        if gap is not None:
            rng = f"{gap[0]} bytes" if gap[0] == gap[1] else (f"{gap[0]}..{gap[1]} bytes" if gap[1] is not None else f"{gap[0]} or more bytes")
            g = f"`{c['text']}` ({what} size {c['pred'][0]} {c['pred'][1]}) is false for a {what} of {rng}"
            if g not in gaps:
                gaps.append(g)
    why = (f"a {what} of {MIN_PACKET} bytes (one AES block + {SIG_LEN}-byte signature, i.e. a plaintext of 0..15 bytes) is a complete packet; "
           f"{what} size = {rem!r}")
    obstacle = _same_values(ctx, s, uses)
    if obstacle is not None:
        ctx.undecided("R7", "DOM", s, text, obstacle, located[0]["ctor"])
        return
    # hand-out statements that do not belong to a construction seen here may produce the packet some other way
    mine = {id(fv.stmt_of(m["ctor"])) for m in pk} | {id(e) for m in pk for e in _emit_stmts(s, m["ctor"])}
    other = [x for st in statements(s.node) for x in ast.walk(st) if not isinstance(st, (ast.If, ast.While, ast.For, ast.AsyncFor, ast.With, ast.AsyncWith, ast.Try))
             and isinstance(x, (ast.Yield, ast.YieldFrom, ast.Return)) and x.value is not None and id(st) not in mine]
    if gaps and other:
        ctx.undecided("R7", "DOM", s, text, f"the reader also hands out values that are not built here ({src(other[0])[:60]}): the conditions in front of "
                      "the located construction are not necessary for a packet", located[0]["ctor"])
        return
    if gaps:
        ctx.ob("R7", "DOM", s, text, False, f"no packet is produced although a complete {what} is there: " + "; ".join(gaps) + " - " + why, located[0]["ctor"])
        return
    if unknown:
        ctx.undecided("R7", "DOM", s, text, f"condition in front of the packet not understood as a test of the size of the {what}: "
                      + "; ".join(f"`{u}`" for u in unknown), located[0]["ctor"])
        return
    ctx.ob("R7", "DOM", s, text, True, (f"every condition in front of the packet holds for a {what} of {MIN_PACKET} or more bytes: "
           + "; ".join(f"`{c['text']}`" for c in conj)) if conj else ("no condition on the size of the payload in front of the packet" if partial else "the packet is built unconditionally"), located[0]["ctor"])


def r7(ctx):
    _r7_writer(ctx)
    s = ctx.repo.func("c2.ServerC2Data.iter_encrypted_packets")
    for m in _reader_packets(ctx, s):
        if m["mode"]:
            _r7_order(ctx, s, m)
    _r7_complete_blob(ctx, s)
    g = ctx.repo.func("c2.ClientC2Data.iter_encrypted_packets")
    _r7_client(ctx, g)
    _r7_complete_blob(ctx, g, text=PTEXT, partial=True, what="frame payload")


# ---------------------------------------------------------------------------- R8
def r8(ctx, dp):
    f = ctx.repo.func("c2.C2Http.iter_recover_http")
    calls = calls_to(ctx, f, target_fq="c2.decrypt_packet")
    if not calls:
        ctx.undecided("R8", "AGREE", f, "decrypt_packet(verify=self.verify_hmac, <session keys>)", "iter_recover_http does not call decrypt_packet directly", f.node)
        return
    fields = _fields(ctx, "c2.BeaconKeys")
    ps = set(params(dp.node))
    for c in calls:
        b = bind_args(c, dp.node)
        v = kwarg(c, "verify") or (b.get("verify") if not any(k.arg is None for k in c.keywords) else None)
        vi = _strip_bool(_inl(f, v)) if v is not None else None
        v_ok = vi is not None and dotted(vi) == "self.verify_hmac"
        star = [_inl(f, k.value) for k in c.keywords if k.arg is None]
        star_keys = [s for s in star if isinstance(s, ast.Call) and isinstance(s.func, ast.Attribute) and s.func.attr == "_asdict" and not s.args]
        explicit = {}
        for p in ("aes_key", "hmac_key", "iv"):
            a = kwarg(c, p) or (b.get(p) if not star else None)
            explicit[p] = _inl(f, a) if a is not None else None
        if star_keys:
            keys_ok = ctx.rs.expr_type(f, star_keys[0].func.value) in (None, "c2.BeaconKeys")
            how = f"**{src(star_keys[0])}"
        else:
            objs = set()
            for p, a in explicit.items():
                objs.add(dotted(a)[: -len(p) - 1] if a is not None and dotted(a) and dotted(a).endswith("." + p) else None)
            keys_ok = len(objs) == 1 and None not in objs
            how = "explicit " + ", ".join(f"{p}={src(a)}" for p, a in explicit.items())
            if star and not keys_ok:
                ctx.undecided("R8", "AGREE", f, "decrypt_packet(verify=self.verify_hmac, <session keys>)", f"keys forwarded through {[src(s) for s in star]}: not understood", c)
                continue
        ctx.ob("R8", "AGREE", f, "decrypt_packet(verify=self.verify_hmac, <session keys>)", v_ok and keys_ok,
               f"verify bound to self.verify_hmac={v_ok} (is {src(vi)}); aes_key, hmac_key and iv of one key set forwarded={keys_ok} ({how})", c)
    ctx.ob("R8", "AGREE", dp, "BeaconKeys fields", set(fields) <= ps and {"aes_key", "hmac_key", "iv"} <= set(fields),
           f"BeaconKeys fields {fields} must be parameters of decrypt_packet {sorted(ps)}", dp.node)
    # C2Http stores verify_hmac from its parameter
    init = ctx.repo.func("c2.C2Http.__init__")
    stores = []
    for s in statements(init.node):
        tgts = s.targets if isinstance(s, ast.Assign) else [s.target] if isinstance(s, ast.AnnAssign) and s.value is not None else []
        if any(dotted(t) == "self.verify_hmac" for t in tgts):
            stores.append(s)
    text = "self.verify_hmac = <verify_hmac parameter, default True>"
    if not stores:
        ctx.undecided("R8", "AGREE", init, text, "no plain assignment to self.verify_hmac in C2Http.__init__", init.node)
    for s in stores:
        val = _strip_bool(_inl(init, s.value))
        p = dotted(val)
        is_param = p in params(init.node) and not assignments_to(init.node, p)
        d = param_defaults(init.node).get(p) if is_param else None
        ctx.ob("R8", "AGREE", init, text, is_param and d is not None and _cval(d) is True,
               f"stored from parameter={is_param} ({src(val)}), default={src(d)} (True)", s)


# ---------------------------------------------------------------------------- R9
# Bytes methods whose result depends on the *values* of the bytes (finite table, device 5).  Lemma (trusted base): the
# ciphertext and the signature are opaque binary strings - every byte value can occur at every position - so none of
# these is the identity on all framed streams.  Methods that only depend on the length (ljust, rjust, center, zfill) are
# NOT in the table: on a well-formed stream they may well be the identity; they are "not understood" (undecided).
_REWRITES = frozenset((
    "strip", "lstrip", "rstrip", "removeprefix", "removesuffix", "replace", "translate", "lower", "upper", "swapcase",
    "capitalize", "title", "expandtabs", "split", "rsplit", "splitlines", "partition", "rpartition",
))
# Position-based selection from a stream / view object: the bytes returned are bytes of the receiver, chosen by position.
_SELECTORS = frozenset(("read", "read1", "readall", "peek", "getvalue", "getbuffer", "tobytes", "toreadonly", "__enter__"))
_COPIES = ("bytes", "bytearray", "memoryview")


def _rewrite_is_identity(call):
    """Constant arguments that make a value-dependent bytes method the identity: an empty strip set / prefix / suffix
    (nothing can match), translate(None) without a delete set."""
    attr = call.func.attr
    if attr in ("strip", "lstrip", "rstrip", "removeprefix", "removesuffix"):
        return len(call.args) == 1 and not call.keywords and isinstance(call.args[0], ast.Constant) and call.args[0].value == b""
    if attr == "translate":
        return len(call.args) == 1 and not call.keywords and isinstance(call.args[0], ast.Constant) and call.args[0].value is None
    return False


class _Provenance:
    """Backward value flow (device 3) from an expression of function f to where its bytes come from.  Names are followed
    through their flow-sensitive reaching definitions, every (name, definition) pair once - a loop-carried definition
    is therefore looked at once, nothing is unrolled.  Collected: `sources` (dotted texts of the container field
    reached), `rewrites` (calls of value-dependent bytes methods the bytes pass through), `unknown` (steps that are
    not understood)."""

    def __init__(self, ctx, f, source):
        from csverif.q import reaching_defs

        self.ctx, self.f, self.source = ctx, f, source
        self._rd = reaching_defs
        self.sources, self.rewrites, self.unknown = [], [], []
        self._seen = set()

    def _unk(self, e, why):
        t = f"{src(e)} ({why})"
        if t not in self.unknown:
            self.unknown.append(t)

    def _with_value(self, st, name):
        """`with memoryview(x) as name` / `with io.BytesIO(x) as name`: __enter__ returns the object itself."""
        for it in st.items:
            if isinstance(it.optional_vars, ast.Name) and it.optional_vars.id == name and isinstance(it.context_expr, ast.Call):
                c = it.context_expr
                if (dotted(c.func) in _COPIES or (_ext(self.ctx, self.f, c) or "").split(".")[-1] == "BytesIO") and len(c.args) == 1 and not c.keywords:
                    return c
        return None

    def walk(self, e, at):
        from csverif.astutil import strip_cast

        e = strip_cast(e)
        if isinstance(e, ast.Constant):
            if e.value is None or e.value == b"":
                return
            self._unk(e, "a constant mixed into the packet bytes")
            return
        if isinstance(e, ast.Name):
            if e.id in params(self.f.node):
                self._unk(e, "a parameter")
                return
            rd = self._rd(self.ctx, self.f, e.id, at)
            if not rd:
                self._unk(e, "no reaching definition")
                return
            for st, v in rd:
                key = (e.id, id(st))
                if key in self._seen:
                    continue
                self._seen.add(key)
                if v is None and isinstance(st, (ast.With, ast.AsyncWith)):
                    v = self._with_value(st, e.id)
                if v is None:
                    self._unk(e, f"bound by `{head(st) if isinstance(st, ast.stmt) else src(st)}`")
                    continue
                self.walk(v, st)
            return
        if isinstance(e, ast.Attribute):
            if dotted(e) == self.source:
                if self.source not in self.sources:
                    self.sources.append(self.source)
                return
            self._unk(e, "not the output field")
            return
        if isinstance(e, ast.Subscript):
            self.walk(e.value, at)  # a slice / an element: selected by position
            return
        if isinstance(e, ast.BoolOp):
            for v in e.values:
                self.walk(v, at)
            return
        if isinstance(e, ast.IfExp):
            self.walk(e.body, at)
            self.walk(e.orelse, at)
            return
        if isinstance(e, ast.NamedExpr):
            self.walk(e.value, at)
            return
        if isinstance(e, ast.BinOp) and isinstance(e.op, ast.Add):
            self.walk(e.left, at)
            self.walk(e.right, at)
            return
        if isinstance(e, ast.Call):
            one = len(e.args) == 1 and not e.keywords
            if one and dotted(e.func) in _COPIES:
                self.walk(e.args[0], at)
                return
            if one and (_ext(self.ctx, self.f, e) or "").split(".")[-1] == "BytesIO":
                self.walk(e.args[0], at)
                return
            if isinstance(e.func, ast.Attribute):
                a = e.func.attr
                if a in _SELECTORS:
                    self.walk(e.func.value, at)
                    return
                if a in _REWRITES:
                    if not _rewrite_is_identity(e):
                        self.rewrites.append(e)
                    self.walk(e.func.value, at)
                    return
            self._unk(e, "a call that is not understood")
            return
        self._unk(e, "an expression that is not understood")


def r9(ctx):
    """Both framing readers: the bytes of the packet fields are bytes of the `output` field, selected by position only."""
    fields = _fields(ctx, "c2.EncryptedPacket")
    for fq in ("c2.ServerC2Data.iter_encrypted_packets", "c2.ClientC2Data.iter_encrypted_packets"):
        f = ctx.repo.func(fq)
        text = "packet bytes are the bytes of the framed stream (no value-dependent rewriting)"
        ps = params(f.node)
        ctors = calls_to(ctx, f, target_fq="c2.EncryptedPacket")
        if not ps or not ctors:
            ctx.undecided("R9", "TAINT", f, text, "no EncryptedPacket construction found in the reader", f.node)
            continue
        source = ps[0] + ".output"
        for c in ctors:
            b = _bind_fields(c, fields)
            if not b or b.get("ciphertext") is None or b.get("signature") is None:
                ctx.undecided("R9", "TAINT", f, text, "constructor arguments could not be bound to the fields", c)
                continue
            pv = _Provenance(ctx, f, source)
            for fld in ("ciphertext", "signature"):
                pv.walk(b[fld], c)
            if pv.rewrites and pv.sources:
                ctx.ob("R9", "TAINT", f, text, False,
                       f"the bytes of `{source}` reach the packet fields through " + ", ".join(f"`{src(r)}`" for r in pv.rewrites)
                       + ": the result depends on the byte values (ciphertext and signature are binary - any byte value can be the first or "
                       "last byte or occur inside), so for some framed streams the fields are not the bytes that were framed", pv.rewrites[0])
            elif pv.unknown:
                ctx.undecided("R9", "TAINT", f, text, "origin of the packet bytes not followed: " + "; ".join(pv.unknown[:4]), c)
            elif not pv.sources:
                ctx.undecided("R9", "TAINT", f, text, f"the packet fields were not traced back to `{source}`", c)
            else:
                ctx.ob("R9", "TAINT", f, text, True,
                       f"ciphertext and signature are traced back to `{source}` through slices, stream reads and copies / views only", c)
