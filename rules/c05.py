"""C05 - Packet encryption round-trips and is authenticated before decryption.

Decides the structural necessary conditions C05.R1-R8 of DESIGN.md section 4 (not the behaviour
of AES/HMAC themselves).
"""

from __future__ import annotations

import ast

from csverif import absint
from csverif.astutil import (
    assignments_to, bind_args, body_walk, const_eval, dotted, fn_calls, is_const, kwarg, NotConst, params, src, statements,
    param_defaults,
)
from csverif.cfg import ENTRY, EXIT, RAISE
from csverif.q import FuncView, calls_to, origin, raise_class, specialise, tv_eval

SIG_LEN = 16  # property statement: "first 16 bytes of HMAC-SHA256"


def _hmac_expr(ctx, f):
    """Return (call hmac.new, slice upper const) for the signature expression in f."""
    out = []
    fv = FuncView.of(f.node)
    for c in fn_calls(f.node):
        if dotted(c.func) in ("hmac.new", "hmac.HMAC", "hmac.digest"):
            # walk up: .digest() then [:N]
            n = c
            upper = None
            chain = []
            while True:
                p = fv.parent.get(id(n))
                if isinstance(p, ast.Attribute) and p.value is n:
                    chain.append(p.attr)
                    n = p
                elif isinstance(p, ast.Call) and p.func is n:
                    n = p
                elif isinstance(p, ast.Subscript) and p.value is n and isinstance(p.slice, ast.Slice):
                    lo, hi = p.slice.lower, p.slice.upper
                    if (lo is None or is_const(lo, 0)) and hi is not None and p.slice.step is None:
                        try:
                            upper = const_eval(hi)
                        except NotConst:
                            upper = src(hi)
                    else:
                        upper = "slice:" + src(p.slice)
                    n = p
                    break
                else:
                    break
            out.append((c, chain, upper))
    return out


def _digestmod(call: ast.Call):
    a = None
    if len(call.args) >= 3:
        a = call.args[2]
    a = kwarg(call, "digestmod") or kwarg(call, "digest") or a
    if a is None:
        return None
    if isinstance(a, ast.Constant):
        return str(a.value).lower()
    d = dotted(a)
    if d:
        return d.split(".")[-1].lower()
    return src(a)


def run(ctx):
    rep = ctx.rep
    rep.explanation = (
        "Static analysis of dissect/cobaltstrike/c2.py: CFG dominance (verify -> signature check -> decrypt), exit "
        "analysis of raise_for_signature, agreement of signer/verifier HMAC expressions and of the signature-length "
        "constant across its sites, interval analysis of pad(), cipher construction agreement, framing writer/reader "
        "agreement, keyword binding of decrypt_packet from BeaconKeys. Decides these structural necessary conditions "
        "on every path; does not decide AES/HMAC behaviour or plaintext equality."
    )
    rep.not_decided = [
        "that AES-CBC/HMAC-SHA256 compute what they should (library)",
        "bit-flip rejection as such (follows from R1-R3 plus HMAC)",
        "plaintext equality for all inputs",
    ]
    rep.trusted_base = ["CPython ast", "networkx dominators", "AES.block_size == 16 (pycryptodome constant)"]
    rep.assumptions = ["hmac.new / AES.new behave as documented", "no monkey-patching of c2 module functions at run time"]

    dp = ctx.repo.func("c2.decrypt_packet")
    rfs = ctx.repo.func("c2.EncryptedPacket.raise_for_signature")
    ep = ctx.repo.func("c2.encrypt_packet")
    r1(ctx, dp)
    r2(ctx, rfs)
    r3_r4(ctx, rfs, ep)
    r5(ctx)
    r6(ctx)
    r7(ctx)
    r8(ctx, dp)
    rep.count("signature_length_sites", rep.counts.get("signature_length_sites", 0), floor=6)


# ---------------------------------------------------------------------------- R1
def r1(ctx, dp):
    cfg = ctx.cfg(dp)
    ps = params(dp.node)
    text = "decrypt_data(...)"
    if "verify" not in ps or "hmac_key" not in ps:
        ctx.ob("R1", "DOM", dp, text, False, "decrypt_packet lost its verify/hmac_key parameters", dp.node)
        return
    for p in ("verify", "hmac_key"):
        if assignments_to(dp.node, p):
            ctx.ob("R1", "DOM", dp, f"{p} rebound", False, f"parameter {p} is rebound inside decrypt_packet", dp.node)
    dflt = param_defaults(dp.node).get("verify")
    ctx.ob("R1", "DOM", dp, "verify default", dflt is not None and is_const(dflt, True) or dflt is None,
           f"default of verify is {src(dflt)} (must not default to off)", dp.node)
    sinks = calls_to(ctx, dp, target_fq="c2.decrypt_data")
    # any other way to obtain plaintext: a direct cipher.decrypt / AES.new in this function
    for c in fn_calls(dp.node):
        if isinstance(c.func, ast.Attribute) and c.func.attr == "decrypt" and c not in sinks:
            sinks.append(c)
    if not sinks:
        ctx.ob("R1", "DOM", dp, text, False, "no call to decrypt_data found in decrypt_packet", dp.node)
        return
    guards = [c for c in calls_to(ctx, dp, attr="raise_for_signature")]
    fv = FuncView.of(dp.node)
    spec = specialise(cfg, {"verify": True})
    spec_nokey = specialise(cfg, {"verify": True, "hmac_key": False})
    for s in sinks:
        sst = fv.stmt_of(s)
        sn = cfg.node(sst)
        good = []
        if not spec.reaches(ENTRY, sn):
            ctx.ob("R1", "DOM", dp, src(s) + " [unreachable with verify]", True, "this decrypt call is unreachable when verify is truthy", s)
            continue
        for g in guards:
            gst = fv.stmt_of(g)
            if not (g.args and dotted(g.args[0]) == "hmac_key"):
                continue
            # same packet: receiver of guard is the object whose .ciphertext is decrypted
            recv = dotted(g.func.value)
            a0 = s.args[0] if s.args else None
            if recv is None or a0 is None or dotted(a0) != f"{recv}.ciphertext":
                continue
            if spec.dominates(cfg.node(gst), sn) and cfg.node(gst) != sn:
                good.append(g)
        ok = bool(good)
        detail = (
            f"with verify truthy, raise_for_signature(hmac_key) on the decrypted packet dominates {src(s)}"
            if ok
            else "with verify truthy there is a path to the decrypt call that does not complete raise_for_signature(hmac_key) "
            "on the same packet: " + " -> ".join(spec.witness_path(ENTRY, sn, avoiding=[cfg.node(fv.stmt_of(g)) for g in guards]))
        )
        ctx.ob("R1", "DOM", dp, src(s), ok, detail, s)
        # missing key must be rejected: under verify & no hmac_key the sink is unreachable
        reach = spec_nokey.reaches(ENTRY, sn)
        ctx.ob("R1", "DOM", dp, src(s) + " [no hmac_key]", not reach,
               "with verify truthy and hmac_key falsy the decrypt call is unreachable" if not reach else
               "with verify truthy and hmac_key falsy the decrypt call is reachable: " + " -> ".join(spec_nokey.witness_path(ENTRY, sn)),
               s)
    # and on that path every exit is raise ValueError
    normal = spec_nokey.reaches(ENTRY, EXIT)
    ctx.ob("R1", "EXIT", dp, "exits [verify, no hmac_key]", not normal,
           "all exits raise" if not normal else "returns normally with verify truthy and no hmac_key", dp.node)
    for r in cfg.raise_stmts():
        if spec_nokey.reaches(ENTRY, cfg.node(r)):
            cls = raise_class(r)
            ctx.ob("R1", "EXIT", dp, src(r), cls == "ValueError", f"raises {cls} for a missing HMAC key (documented: ValueError)", r)


# ---------------------------------------------------------------------------- R2
def r2(ctx, rfs):
    cfg = ctx.cfg(rfs)
    tests = []
    for n, st in cfg.stmt.items():
        if isinstance(st, ast.If):
            eq_edge = _equality_edge(st.test)
            if eq_edge is not None:
                tests.append((st, eq_edge))
    if not tests:
        ctx.ob("R2", "EXIT", rfs, "signature comparison", False, "no equality test between signatures found", rfs.node)
        return
    ok_any = False
    for st, (eq_true, l, r) in tests:
        sides = {dotted(l), dotted(r)}
        if "self.signature" not in sides:
            continue
        other = r if dotted(l) == "self.signature" else l
        o = origin(rfs.node, other)
        has_hmac = any(isinstance(x, ast.Call) and dotted(x.func) in ("hmac.new", "hmac.digest", "hmac.HMAC") for x in ast.walk(o))
        eq = cfg.edge_node(st, "true" if eq_true else "false")
        ne = cfg.edge_node(st, "false" if eq_true else "true")
        # every normal return passes the equal edge; the unequal edge cannot return normally
        passes = cfg.all_paths_pass(ENTRY, EXIT, [eq])
        ne_returns = cfg.reaches(ne, EXIT, avoiding=[eq])
        ok = has_hmac and passes and not ne_returns
        ok_any = ok_any or ok
        ctx.ob("R2", "EXIT", rfs, "if " + src(st.test), ok,
               "every normal return passes the signatures-equal edge; unequal edge only raises" if ok else
               f"hmac-derived={has_hmac} all-returns-pass-equal-edge={passes} unequal-edge-can-return={ne_returns}", st)
        for rs in cfg.raise_stmts():
            if cfg.dominates(ne, cfg.node(rs)):
                ctx.ob("R2", "EXIT", rfs, src(rs), raise_class(rs) == "ValueError", f"raises {raise_class(rs)} on mismatch", rs)
    if not ok_any and not any(not o.ok for o in ctx.rep.obs if o.rule.endswith("R2")):
        ctx.ob("R2", "EXIT", rfs, "signature comparison", False, "no test compares the recomputed HMAC with self.signature", rfs.node)


def _equality_edge(test):
    """(equal_on_true_edge, left, right) for ==, !=, hmac.compare_digest, not ..."""
    neg = False
    while isinstance(test, ast.UnaryOp) and isinstance(test.op, ast.Not):
        neg = not neg
        test = test.operand
    if isinstance(test, ast.Compare) and len(test.ops) == 1:
        if isinstance(test.ops[0], ast.Eq):
            return (not neg, test.left, test.comparators[0])
        if isinstance(test.ops[0], ast.NotEq):
            return (neg, test.left, test.comparators[0])
    if isinstance(test, ast.Call) and dotted(test.func) in ("hmac.compare_digest", "compare_digest", "secrets.compare_digest") and len(test.args) == 2:
        return (not neg, test.args[0], test.args[1])
    return None


# ---------------------------------------------------------------------------- R3 / R4
def r3_r4(ctx, rfs, ep):
    sites = 0
    ver = _hmac_expr(ctx, rfs)
    sig = _hmac_expr(ctx, ep)
    if len(ver) != 1 or len(sig) != 1:
        ctx.ob("R3", "AGREE", rfs, "hmac.new(...)", False, f"expected one HMAC computation each, found verifier={len(ver)} signer={len(sig)}", rfs.node)
        return
    (vc, vchain, vup), (sc, schain, sup) = ver[0], sig[0]
    dm_v, dm_s = _digestmod(vc), _digestmod(sc)
    ctx.ob("R3", "AGREE", rfs, "digestmod", dm_v == dm_s == "sha256", f"verifier digest={dm_v} signer digest={dm_s} (SHA-256 required)", vc)
    ctx.ob("R3", "AGREE", rfs, "digest chain", vchain == schain == ["digest"], f"verifier chain={vchain} signer chain={schain}", vc)
    # message: the ciphertext on both sides
    vmsg = vc.args[1] if len(vc.args) > 1 else kwarg(vc, "msg")
    smsg = sc.args[1] if len(sc.args) > 1 else kwarg(sc, "msg")
    ctx.ob("R3", "AGREE", rfs, "verifier message", dotted(vmsg) == "self.ciphertext", f"verifier authenticates {src(vmsg)} (must be the ciphertext)", vc)
    # signer: msg local must be (a) result of encrypt_data and (b) the ciphertext argument of the EncryptedPacket built
    s_ok = False
    detail = f"signer authenticates {src(smsg)}"
    if smsg is not None:
        o = origin(ep.node, smsg)
        is_ct = isinstance(o, ast.Call) and any(c is o for c in calls_to(ctx, ep, target_fq="c2.encrypt_data"))
        ctor = calls_to(ctx, ep, target_fq="c2.EncryptedPacket")
        bound = False
        for c in ctor:
            a0 = c.args[0] if c.args else kwarg(c, "ciphertext")
            if a0 is not None and src(a0) == src(smsg):
                bound = True
        s_ok = is_ct and bound
        detail += f"; is encrypt_data result={is_ct}; is the ciphertext field of the returned packet={bound}"
    ctx.ob("R3", "AGREE", ep, "signer message", s_ok, detail, sc)
    vkey = vc.args[0] if vc.args else kwarg(vc, "key")
    skey = sc.args[0] if sc.args else kwarg(sc, "key")
    ctx.ob("R3", "AGREE", rfs, "keys", dotted(vkey) == "hmac_key" and dotted(skey) == "hmac_key",
           f"verifier key={src(vkey)} signer key={src(skey)} (both the hmac_key parameter)", vc)
    # signature field of the packet is the signer's truncated digest
    # R4: truncation constant
    ctx.ob("R4", "TABLE", rfs, "verifier [:N]", vup == SIG_LEN, f"verifier truncates digest to {vup} (16 required)", vc)
    ctx.ob("R4", "TABLE", ep, "signer [:N]", sup == SIG_LEN, f"signer truncates digest to {sup} (16 required)", sc)
    sites += 2
    for fq in ("c2.ClientC2Data.iter_encrypted_packets", "c2.ServerC2Data.iter_encrypted_packets"):
        f = ctx.repo.func(fq)
        reads = [c for c in fn_calls(f.node) if isinstance(c.func, ast.Attribute) and c.func.attr == "read"]
        got_ct = got_sig = False
        for c in reads:
            if not c.args:
                continue
            a = c.args[0]
            if isinstance(a, ast.BinOp) and isinstance(a.op, ast.Sub):
                try:
                    k = const_eval(a.right)
                except NotConst:
                    k = src(a.right)
                ctx.ob("R4", "TABLE", f, "ciphertext read", k == SIG_LEN, f"ciphertext length is {src(a)}: subtracts {k} (16 required)", c)
                got_ct = True
                sites += 1
            else:
                try:
                    k = const_eval(a)
                except NotConst:
                    continue
                ctx.ob("R4", "TABLE", f, "signature read", k == SIG_LEN, f"signature read length {k} (16 required)", c)
                got_sig = True
                sites += 1
        if not (got_ct and got_sig):
            ctx.ob("R4", "TABLE", f, "framing reads", False, f"expected read(<size> - 16) and read(16); found ct={got_ct} sig={got_sig}", f.node)
        # order: ciphertext read precedes signature read
        if got_ct and got_sig:
            order = [("ct" if isinstance(c.args[0], ast.BinOp) else "sig") for c in reads if c.args]
            ctx.ob("R7", "AGREE", f, "read order", order[:2] == ["ct", "sig"], f"reads in order {order} (ciphertext then signature)", f.node)
    ctx.rep.counts["signature_length_sites"] = sites


# ---------------------------------------------------------------------------- R5
def r5(ctx):
    f = ctx.repo.func("c2.pad")
    ps = params(f.node)
    dflt = param_defaults(f.node).get("block_size")
    bs_ok = dflt is not None and dotted(dflt) == "AES.block_size" or (dflt is not None and is_const(dflt, 16))
    ctx.ob("R5", "ABS", f, "block_size default", bs_ok, f"block_size defaults to {src(dflt)} (AES.block_size = 16)", f.node)
    init = {ps[0]: absint.abytes(0, None), "block_size": absint.aint(16, 16)}
    it = absint.Interp(f.node, init)
    it.run()
    rets = [s for s in statements(f.node) if isinstance(s, ast.Return)]
    if len(rets) != 1:
        ctx.ob("R5", "ABS", f, "return", False, f"{len(rets)} return statements (expected 1)", f.node)
        return
    rv = rets[0].value
    ok = False
    detail = f"returns {src(rv)}"
    if isinstance(rv, ast.BinOp) and isinstance(rv.op, ast.Add) and dotted(rv.left) == ps[0]:
        fill = rv.right
        if isinstance(fill, ast.BinOp) and isinstance(fill.op, ast.Mult):
            byts, cnt = (fill.left, fill.right) if isinstance(fill.left, ast.Constant) else (fill.right, fill.left)
            if isinstance(byts, ast.Constant) and byts.value == b"A":
                env = it.before.get(id(rets[0]), {})
                v = it.ev(cnt, env)
                ok = v.kind == "int" and v.itv.within(1, 16)
                detail = f"pad count {src(cnt)} has interval {v.itv} for len(data) >= 0, block_size = 16 (needs [1,16]); fill byte b'A'"
            else:
                detail = f"fill byte is {src(byts)} (b'A' required)"
    ctx.ob("R5", "ABS", f, "return " + src(rv), ok, detail, rets[0])
    # encrypt_data encrypts pad(data); decrypt_data returns cipher output unmodified
    enc = ctx.repo.func("c2.encrypt_data")
    dec = ctx.repo.func("c2.decrypt_data")
    e_ok = False
    for c in fn_calls(enc.node):
        if isinstance(c.func, ast.Attribute) and c.func.attr == "encrypt" and c.args:
            a = origin(enc.node, c.args[0])
            if isinstance(a, ast.Call) and any(a is x for x in calls_to(ctx, enc, target_fq="c2.pad")) and a.args and dotted(a.args[0]) == params(enc.node)[0]:
                extra = [k.arg for k in a.keywords] + [src(x) for x in a.args[1:]]
                e_ok = not extra
    ctx.ob("R5", "AGREE", enc, "cipher.encrypt(pad(data))", e_ok, "encrypt_data encrypts pad(<data param>) with the default block size" if e_ok else "encrypt_data does not encrypt pad(data)", enc.node)
    d_ok = False
    for r in [s for s in statements(dec.node) if isinstance(s, ast.Return)]:
        v = origin(dec.node, r.value) if r.value is not None else None
        if isinstance(v, ast.Call) and isinstance(v.func, ast.Attribute) and v.func.attr == "decrypt" and v.args and dotted(v.args[0]) == params(dec.node)[0]:
            d_ok = True
        else:
            d_ok = False
            break
    ctx.ob("R5", "AGREE", dec, "return cipher.decrypt(data)", d_ok, "decrypt_data returns the cipher output unmodified (no unpadding)" if d_ok else "decrypt_data post-processes or does not return cipher.decrypt(data)", dec.node)


# ---------------------------------------------------------------------------- R6
def r6(ctx):
    shapes = {}
    for fq in ("c2.encrypt_data", "c2.decrypt_data"):
        f = ctx.repo.func(fq)
        news = [c for c in fn_calls(f.node) if dotted(c.func) == "AES.new"]
        if len(news) != 1:
            ctx.ob("R6", "AGREE", f, "AES.new", False, f"{len(news)} AES.new calls", f.node)
            continue
        c = news[0]
        key = c.args[0] if c.args else kwarg(c, "key")
        mode = c.args[1] if len(c.args) > 1 else kwarg(c, "mode")
        iv = kwarg(c, "iv") or kwarg(c, "IV") or (c.args[2] if len(c.args) > 2 else None)
        shapes[fq] = (dotted(key), dotted(mode), dotted(iv))
        ctx.ob("R6", "AGREE", f, src(c), shapes[fq] == ("aes_key", "AES.MODE_CBC", "iv"), f"cipher built from (key,mode,iv)={shapes[fq]}; required (aes_key, AES.MODE_CBC, iv)", c)
        # None key -> ValueError before the cipher is built
        cfg = ctx.cfg(f)
        spec = specialise(cfg, {"aes_key is None": True, "aes_key": False})
        fv = FuncView.of(f.node)
        reach = spec.reaches(ENTRY, cfg.node(fv.stmt_of(c)))
        ctx.ob("R6", "DOM", f, "aes_key is None", not reach, "AES.new unreachable when aes_key is None" if not reach else "AES.new reachable with aes_key None", c)
        for r in cfg.raise_stmts():
            if spec.reaches(ENTRY, cfg.node(r)):
                ctx.ob("R6", "EXIT", f, src(r), raise_class(r) == "ValueError", f"raises {raise_class(r)} without key (documented ValueError)", r)


    # the packet-level functions hand their own key and IV to the data-level ones ("under the configured IV")
    for caller, callee in (("c2.decrypt_packet", "c2.decrypt_data"), ("c2.encrypt_packet", "c2.encrypt_data")):
        f = ctx.repo.func(caller)
        cs = calls_to(ctx, f, target_fq=callee)
        if not cs:
            ctx.ob("R6", "AGREE", f, f"{callee.split('.')[1]}(...)", False, f"{caller} no longer calls {callee}", f.node)
        for c in cs:
            b = bind_args(c, ctx.repo.func(callee).node)
            got = {p: dotted(b.get(p)) for p in ("aes_key", "iv")}
            rebound = [p for p in ("aes_key", "iv") if assignments_to(f.node, p)]
            ok = got == {"aes_key": "aes_key", "iv": "iv"} and not rebound
            ctx.ob("R6", "AGREE", f, src(c) + " forwards key and IV", ok,
                   f"callee parameters bound to {got}" + (f"; {rebound} rebound in {caller}" if rebound else "") + " (required: the caller's own aes_key and iv)", c)


# ---------------------------------------------------------------------------- R7
def r7(ctx):
    f = ctx.repo.func("c2.EncryptedPacket.dumps")
    rets = [s for s in statements(f.node) if isinstance(s, ast.Return)]
    ok = False
    detail = "dumps() shape not recognised"
    if len(rets) == 1 and isinstance(rets[0].value, ast.BinOp) and isinstance(rets[0].value.op, ast.Add):
        l, r = rets[0].value.left, rets[0].value.right
        if isinstance(l, ast.Call) and l.args:
            cal = ctx.rs.resolve_call(f, l)
            be4 = cal.kind == "func" and cal.func.fq == "utils.pack" and _c(cal.bound.get("size")) == 4 and _c(cal.bound.get("byteorder")) == "big"
            la = l.args[0]
            len_of = la.args[0] if isinstance(la, ast.Call) and dotted(la.func) == "len" and la.args else None
            pay = origin(f.node, r)
            pay_ok = isinstance(pay, ast.BinOp) and isinstance(pay.op, ast.Add) and dotted(pay.left) == "self.ciphertext" and dotted(pay.right) == "self.signature"
            same = len_of is not None and src(origin(f.node, len_of)) == src(pay)
            ok = be4 and pay_ok and same
            detail = f"prefix is 4-byte big-endian pack={be4}; payload is ciphertext+signature={pay_ok}; prefix counts that payload={same}"
    ctx.ob("R7", "AGREE", f, "return " + (src(rets[0].value) if rets else "?"), ok, detail, f.node)
    # reader
    g = ctx.repo.func("c2.ClientC2Data.iter_encrypted_packets")
    cd = ctx.cdefs("c_c2").get("c2struct")
    size_calls = []
    for c in fn_calls(g.node):
        cal = ctx.rs.resolve_call(g, c)
        if cal.kind == "struct" and cal.struct and cal.struct[2] in ("uint32",):
            size_calls.append((c, cal))
    end_ok = cd is not None and cd.endian == ">"
    ctx.ob("R7", "AGREE", g, "size = c2struct.uint32(fobj)", bool(size_calls) and end_ok,
           f"length prefix parsed as uint32 of c2struct (endian {cd.endian if cd else '?'}; big-endian required), sites={len(size_calls)}", g.node)
    # loop over remainder
    loops = [s for s in statements(g.node) if isinstance(s, ast.While)]
    l_ok = False
    detail = "no while loop over remaining data"
    for w in loops:
        d = dotted(w.test)
        if d is None:
            continue
        rebinds = [v for st, v in assignments_to(g.node, d) if v is not None and any(st is x for x in ast.walk(w))]
        rem = [v for v in rebinds if isinstance(v, ast.Call) and isinstance(v.func, ast.Attribute) and v.func.attr == "read" and not v.args and not v.keywords]
        # the stream is built from the loop variable each round
        built = any(isinstance(c, ast.Call) and dotted(c.func) == "io.BytesIO" and c.args and dotted(c.args[0]) == d for c in ast.walk(w))
        l_ok = bool(rem) and built and len(rebinds) == len(rem)
        detail = f"while {d}: stream rebuilt from {d}={built}; {d} rebound to the unread remainder={bool(rem)}"
    ctx.ob("R7", "LOOP", g, "while data", l_ok, detail, g.node)


def _c(node):
    try:
        return const_eval(node) if node is not None else None
    except NotConst:
        return None


# ---------------------------------------------------------------------------- R8
def r8(ctx, dp):
    f = ctx.repo.func("c2.C2Http.iter_recover_http")
    calls = calls_to(ctx, f, target_fq="c2.decrypt_packet")
    if not calls:
        ctx.ob("R8", "AGREE", f, "decrypt_packet(...)", False, "iter_recover_http no longer calls decrypt_packet", f.node)
        return
    fields = []
    for st in ctx.repo.cls("c2.BeaconKeys").body:
        if isinstance(st, ast.AnnAssign) and isinstance(st.target, ast.Name):
            fields.append(st.target.id)
    ps = set(params(dp.node))
    for c in calls:
        v = kwarg(c, "verify")
        v_ok = v is not None and dotted(v) == "self.verify_hmac"
        star = [k.value for k in c.keywords if k.arg is None]
        star_ok = any(isinstance(s, ast.Call) and isinstance(s.func, ast.Attribute) and s.func.attr == "_asdict" for s in star)
        explicit = {k.arg for k in c.keywords if k.arg}
        keys_ok = star_ok or {"aes_key", "hmac_key"} <= explicit
        ctx.ob("R8", "AGREE", f, src(c), v_ok and keys_ok,
               f"verify bound to self.verify_hmac={v_ok}; keys forwarded={keys_ok}", c)
    ctx.ob("R8", "AGREE", dp, "BeaconKeys fields", set(fields) <= ps and {"aes_key", "hmac_key", "iv"} <= set(fields),
           f"BeaconKeys fields {fields} must be parameters of decrypt_packet {sorted(ps)}", dp.node)
    # C2Http stores verify_hmac from its parameter
    init = ctx.repo.func("c2.C2Http.__init__")
    st_ok = any(isinstance(s, ast.Assign) and dotted(s.targets[0]) == "self.verify_hmac" and dotted(s.value) == "verify_hmac" for s in statements(init.node))
    d = param_defaults(init.node).get("verify_hmac")
    ctx.ob("R8", "AGREE", init, "self.verify_hmac = verify_hmac", st_ok and is_const(d, True), f"stored from parameter={st_ok}, default={src(d)} (True)", init.node)
