"""C13 - A profile generated from a beacon configuration is valid and faithful (structural part).

The rules of this module do not match the *spelling* of the generator code.  Most of them follow the functions they talk
about path by path with a symbolic walker over the parsed AST (section "symbolic walker" below): parameters are symbols,
definitions are substituted into terms, unknown branch outcomes are followed both ways, and a dispatcher (the settings
loop, the opcode / executor / option-name dispatch of the builders) is specialised per member of a finite vocabulary that
comes from the analysed code or the reference tables (BeaconSetting / InjectExecutor members, BeaconGateOptions field
names and the group labels the producer emits, opcode names of the transform / recover tables, build selectors) - the
*arguments* of such an entry stay symbolic.  The rules then look at what the code does with the entry: which builder
primitive is called on which block with which name and which argument *term*.  Early returns, `continue`, inverted
tests, conditional expressions, renamed locals, hoisted constants and extracted helpers all lead to the same terms.
Whatever the walker does not model makes the obligation *undecided*.  No input data is made up anywhere: there are no
sample byte strings, programs, lengths or token streams, and nothing of /repo is imported or executed.

Grammar rules are never looked up by their own name when that name cannot reach a parse tree (lark names a node after the
alias of the alternative, so `?value`, `http_get_client_options`, `postex_options`, `execute_options` ... can be renamed
freely): a rule is addressed by the path of block aliases that leads to it from the start symbol (`BUILDER_PATHS`: builder
class -> alias paths, `_body_of`) or, for the two parts of a data transform, through the un-aliased rules `steps` /
`termination` / `data_transform`, whose names are the tree names DataTransformBlock.tree builds (section "grammar
lookups").  The alternatives of a rule are read the way they show up in a tree (`_alts`): an un-aliased unit production of a
rule lark inlines (`?x: y`, `_x: y`) stands for the alternatives of `y`, so a rule that refers to another one instead of
repeating it, or that is split into named groups, reads the same; and a symbol lark splices into its parent (a `_x` rule, an
instance `_t{..}` of a rule template) is written out in place (`_spliced`), so the keywords, `string` children and braces of
an alternative are the same whether they stand in the alternative or in such a rule.  A rule that cannot be reached that
way makes the obligation undecided.

Class attributes of the builder classes (the statement names bound to a primitive: `createthread = ConfigBlock._enable`) are
looked up in the class body, its base classes and among the attributes installed after the body ran - by a class decorator
of the package or by module-level `setattr(Cls, <constant>, v)` / `Cls.name = v` statements, followed with the walker with
the class as a symbol (`_Interp._late_attrs`); installers that cannot be followed make a failed lookup undecided.

Technique (numbers: ALLOWED devices of RULES_GUIDE.md, "What counts as static here")
  walker  2 (both outcomes of unknown tests; outcome of a symbolic value kept along a path), 3 (terms by substituting
          definitions, argument binding into package callees, loop bodies analysed once with a symbolic item), 4 (nullness
          and type-tag facts of symbols: `_Val` is not None / is a bytes, str or int value; container-kind facts; length
          facts of a symbolic sequence: `_Len`, an integer >= the number of entries of the case, compared with constants by
          its lower bound only - and the one exact case, the empty sequence, of length 0 and equal to `[]`), 5
          (specialisation per vocabulary member), 6 (constant folding of expressions whose operands are all constants of the
          code; a module-level table that is filled by further module-level statements - `T.update(..)`, `T[k] = v`, a loop
          over constants - is folded by following those statements in order).  Text lemmas S1-S6 (substring / first occurrence / equality refutation / slicing / case mapping /
          prefix-suffix of a concatenation with constant segments) are stated at `_Str`.
  R1   1 (call sites, resolved receiver classes, class-level aliases), 3 (constant names through temporaries), 5 (settings
       loop per BeaconSetting member, value symbolic), 6 (compiled grammar: alias / arity / OPTION terminal, rules reached
       through block-alias paths; opcode tables).
  R2   1 (constants the producer emits, cstruct field names; class attributes incl. those a class decorator / module-level
       setattr installs, constant names folded - 6), 5 (consumer loop per label / field name), 3 (the emitted builder call
       as a term), 6 (grammar alias and keyword).
  R3   5 (producer per InjectExecutor member, input symbolic; consumer per produced entry), 3 (the entry of an executor
       with an argument is a text term, lemmas S1-S4 and S6 decide `" " in`, partition, slicing, membership; the value
       handed to the statement of such an executor must be the term between the quotes of the entry - the same constant
       segments and the very same holes: violated when a hole arrives under a character rewriter the walker distributes
       over the term (single-character replace with different operands, case mapping - the argument is arbitrary
       printable text) or with other constant segments around the same holes; any other value: undecided), 6 (grammar
       alias / keyword / arity; reference spelling table), sibling agreement as equality of the builder-call terms (and
       the argument of the pair handed over unchanged).
  R4   5 (per valued opcode / transform key / pivot frame-header setting, byte argument symbolic), 3 (the term that reaches
       the step / set_option is classified structurally, `_conversion`), 6 (E3 reads one entry of a constant table of the
       code; slice bounds, the constant that pins repr() and its escaped length, codec names).  Lemmas:
       E1 `repr(b)[2:-1]` is an escape-encoding of b, E1b so is `repr(P + b + S)[2 + e(P) : -1 - e(S)]`, E1c so is
       `b.decode("latin-1").encode("unicode_escape").decode(<ascii compatible>)`; E2 `b.decode(codec)` / `str(b, codec)` is
       not; E3 a decoding followed
       by character-wise operations with constant operands (`.translate(T)`, `.replace(a, b)` with a one-character a) turns
       a backslash byte into T[92] / b / itself - it is not an escape-encoding unless that image is a spelling the STRING
       token decoder reads back as one backslash (str.translate looks up *integer* ordinals only).  A chain whose
       backslash image is such a spelling, and any other function of the argument: undecided.
  R11  5 (the same vocabulary as R4: one obligation per generator site), 3 (a: the term handed to the builder is classified as
       identity / one of the three byte-wise escapers / a character-wise mapping, `_conversion`; b: the builder parameter
       - DataTransformBlock(steps=..) through add_step / add_termination, set_option - is followed ONCE with the value
       symbolic, known by its type tag only, and must hand that very value to value_to_string; c: the rewrites
       value_to_string applies to a str argument are the per-path terms of the encoder analysis of rules/c12.py, walked
       under the named assumption "the argument is str"), 2 (paths of the builder and of the encoder), 4 (finite abstract
       domain for the escaper's output, `_Tokens`: per printable character "can be a plain token of its own" or not, the
       backslash byte is the pair of two backslashes, a backslash is always the first character of a token; a rewrite whose
       pattern is backslash + X is checked against it by C12's `_splits_escaped_backslash`), 6 (replace operands, slice
       bounds, pin constant, codec names; for a mapping the table entries of the backslash and of the character X the
       analysed rewrite names).  Lemmas E1 / E1b / E1c (which escaper leaves which quote plain; = L1 / L1b of C12), E4
       (token structure), E5 (= L2b of C12: backslash + X with X plain splits an escaped backslash; X always escaped: every
       match is the pair), E6 (replace(backslash, R) turns the backslash token into R + R), E7 (quote escape; patterns
       outside printable ASCII never match).  Violated: an escaper / mapping that can emit X unescaped meets a rewrite
       backslash + X -> R (R not starting with a backslash) on the path its result takes; E6; the always-escaped apostrophe
       pair rewritten to anything but the apostrophe; an escaper whose slice does not strip exactly the delimiters, whose
       first decoding raises for bytes >= 0x80, or whose text is turned back into bytes (escaped twice by the bytes path).
       Discharged: bytes handed over unchanged (the bytes path is C12.R1's, imported by C11.R6), or a known escaper all of
       whose rewrites on the str path match whole tokens.  Undecided: conversion, builder or encoder path not understood,
       other rewrites, a mapping that passes (R4 does not know whether it escapes everything).
  R5   5 (per opcode name, build selector, transform key, DNS setting), 3 (builder calls as terms compared with the reading
       of the opcode tables; sibling settings compared by structural equality of the terms - when they differ only in the
       function that encodes the argument - handing the bytes over unchanged is one of them - the comparison is undecided, each
       encoding being R4's / R11's), 4 (container kind: lemma
       K, a dict / set keeps one line per name).  Recover program (SETTING_C2_RECOVER): 5 (per opcode of the recover table,
       a flag carries True, a valued one a symbolic int), 2 + 3 (every path - a test the type-tag / nullness facts of the
       argument do not decide is followed both ways - must hand exactly that one step, bare name or (name, text made from
       the length), to the one data-transform block attached as output of the http-get server block), lemma R (`c * n`
       with a one-character constant c has length n; other functions of the length: undecided).
  R6   1, 2 (CFG dominance of the attachment by a non-emptiness condition: truthiness or a spelled-out `len(x) > 0` /
       `x != []` / `bool(x)` form), 3 (values the child is fed from; a test held in a single-definition temporary is read
       as the expression it was computed from).  That an attached data transform has statements is R10's.
  R7   imported: C03.R6 (rules/c03.py) - its devices are declared there.
  R8   4 (nullness case analysis of the argument: None / not None, nothing else known), 3 (the appended Tree term and its
       child list), sibling agreement as equality of the terms.
  R9   5 (per lower-cased opcode name of the transform / recover tables, argument symbolic), 3 (the tree term of the
       block), 6 (grammar alias and arity).
  R10  4 (emptiness case analysis: for each sequence-valued setting the case "no entries" - length 0, falsy, equal to `[]`;
       the rest of the configuration symbolic), 2 + 3 (the walker's paths; which builder objects reach the returned
       profile is read off the attach calls and block-valued constructor keywords as terms, `set_non_empty_config_block`
       by the summary of the primitives), 6 (grammar fact: `data_transform` is not nullable - least fixpoint over the
       compiled rules - so a data-transform block without statements has no text).  Obligations: generation does not
       raise; no child-less block and no statement-less data transform is emitted.  c / d (an option whose value is
       `<constant>.join(<sequence>)`, located by that shape of the inlined value): c. 4 (element nullness of the sequence:
       abstract values "scalars / tuples whose components are non-null / may be None", followed by transfer rules through
       list / dict.fromkeys / split / comprehensions with `is not None` / truthiness filters / zip_longest (pad value) /
       properties of the configuration class / package helpers with their parameters bound / locals filled in a loop; "may
       be None" only with a witness - the literal None or the default pad value - unknown otherwise: undecided), 1
       (resolved callees and properties); d. 2 (CFG dominance of the set_option call by a non-emptiness condition on the
       sequence or on the joined text).
  R13  5 (one case per BeaconSetting member - the setting alone, its value a free symbol - and, for the sequence-valued settings,
       one per kind of entry of the vocabularies of R3 - R5 / R10, arguments symbolic; two settings together, in both orders,
       when their own branches attach / fill a builder object made at the same construction site of the code - the sites are
       read off the single cases, events the empty configuration also shows are left out), 2 + 3 (the walker's paths; what is
       read is the ORDER of the builder calls on a path and the IDENTITY of the builder objects - terms - they are made on:
       the links between builder objects form a graph, and the profile states what is reachable from the returned object
       through links that were made), 4 (the emptiness summary of the primitives evaluated at the position of the call,
       `block_nonempty(upto=..)`; truth of an independent input - symbolic argument, free value - is a free choice, a test
       on a computed term is not).  Obligations: a. whatever is put into a builder object (a statement, pair lines, a data
       transform with statements) is linked to the returned profile; b. no builder object is attached twice.  Violated:
       content that does not reach the profile because (i) an emptiness test of a block on its way there -
       set_non_empty_config_block, or a decided `block.tree.children` test - came out "empty" BEFORE something was put into
       that block (the block is tested before it is complete), (ii) the block is handed to an attach primitive on no path,
       (iii) the attachment is skipped on a path all of whose tests are tests on independent inputs, none of them on what was
       put there; a builder object attached twice (both nodes are made from the one child list).  Undecided: emptiness not
       known, tests on computed terms, a value found falsy that is itself what was put there (the generator may skip it), a
       block handed to a call the rule has no summary for, content the rule cannot see.
  R12  imported: C10.R3 (rules/c10.py `r3`) - the text renderer (as_text: reconstruction of the profile's own tree by the
       module parser; its whitespace post-processor passes every token on unchanged, once, in order; from_text parses the
       text it is given with the same parser).  Its devices (1, 2, 3, 4, 5, 6) and lemmas are declared there.  Undecided
       when that rule cannot be imported / evaluated.
  R14  6 (the compiled STRING terminal is read on its parsed regex syntax tree and turned into a prioritised automaton: one
       thread list per position, alternation / greedy / lazy choices in the order CPython's backtracking tries them - lemma P;
       a one-character look-behind is a condition on the character class consumed last), 4 (finite abstract alphabet: the
       atoms of the partition of the code points by the character sets the pattern names and the characters the literal
       language distinguishes - every character of an atom is treated alike by both sides), 2 (reachability in the product of
       that automaton with the automaton of the generated text: literal = quote, tokens of an escape-encoding - lemma E4:
       plain printable character, backslash pair, escaped quote, backslash + control letter of the reference escape table,
       backslash x + two hex digits -, quote; then `;` or space, separators, further literals).  No text is matched against
       the pattern and no literal is made up: the literals are a regular LANGUAGE and both obligations are graph questions -
       a. at the closing quote of the literal a match is recorded (violated: a reachable product state at the closing quote
       without a recorded match - the witness is the path of atoms that leads there); b. after that no thread of higher
       priority records another match (violated: the token runs on to a later quote).  Undecided: no STRING terminal, or a
       pattern with constructs the automaton does not model (anchors, look-ahead, longer look-behinds, back-references,
       atomic groups, flags other than DOTALL, a lone character category, a look-behind evaluated before the opening quote).
"""

from __future__ import annotations

import ast
import collections
import copy
import operator
from typing import Dict, List, Optional, Set, Tuple

from csverif import tables
from csverif.astutil import assignments_to, bind_args, body_walk, conjuncts, const_eval, dotted, fn_calls, kwarg, NotConst, param_defaults, params, src, statements
from csverif.grammar import Grammar
from csverif.q import FuncView, dominating_conditions, inline

HELPER_ARITY = {"set_option": 1, "_enable": 0, "_pair": 2}
HELPER_FIXED_NAME = {"_header": "header", "_parameter": "parameter"}  # pair primitives that emit a fixed tree name
ATTACH = {"set_config_block", "set_non_empty_config_block"}
# builder primitives (methods of ConfigBlock / C2Profile that put one tree node into a block) -> number of strings
PRIM_ARITY = {"set_option": 1, "_enable": 0, "_pair": 2, "_header": 2, "_parameter": 2}
PRIMS = set(PRIM_ARITY) | ATTACH


def _c(node):
    try:
        return const_eval(node) if node is not None else None
    except (NotConst, TypeError):
        return None


# ============================================================================ symbolic walker
class Unknown(Exception):
    """The walker met something it does not model: the rule that asked is undecided."""


class _Break(Exception):
    pass


class _Continue(Exception):
    pass


class _Return(Exception):
    def __init__(self, value):
        self.value = value


class _Raised(Exception):
    """The code raises on the path followed."""

    def __init__(self, name, node=None):
        Exception.__init__(self, name)
        self.name = name
        self.node = node


class _Op:
    """A value nothing is known about."""

    def __init__(self, tag="?"):
        self.tag = tag

    def __repr__(self):
        return f"<{self.tag}>"


class _Val(_Op):
    """A symbolic argument: some value of Python type `kind` ('bytes' | 'str' | 'int'; None: any type) that is not None.
    Nothing else is known about it - in particular not its content, length or truth value."""

    def __init__(self, tag, kind=None):
        _Op.__init__(self, tag)
        self.kind = kind


class _Free(_Op):
    """The value of a setting nothing is known about.  It stands for an independent input: a test on it is a free choice."""


class _Seq(_Op):
    """A symbolic sequence under a case analysis: the entries considered are `items` (vocabulary members with symbolic
    arguments).  Iterating it gives those entries and it is non-empty iff it has entries; its length, its indexing and
    its equality with other values are unknown.  `exact` marks the one case in which more is known: the sequence under
    consideration is exactly the entries given (used for the empty sequence: it has length 0)."""

    def __init__(self, items, tag="entries", exact=False):
        _Op.__init__(self, tag)
        self.items = list(items)
        self.exact = exact


class _Len(_Op):
    """The length of a symbolic sequence: an integer >= `lo` (the entries the case analysis put into the sequence); nothing
    else is known about it.  Interval fact (device 4); comparisons with constants are decided by the lower bound only."""

    def __init__(self, lo: int):
        _Op.__init__(self, f"length >= {lo}")
        self.lo = lo


class _Str(_Op):
    """Symbolic text: a concatenation of constant segments (str) and holes (values whose text is unknown).  Always has at
    least one hole (`_mk_str` gives a plain str otherwise).  The facts used about it are the lemmas S1-S6 below."""

    def __init__(self, parts):
        _Op.__init__(self, "text")
        self.parts = parts

    def __repr__(self):
        return _template_text(self)


def _mk_str(parts):
    norm: list = []
    for p in parts:
        for q in (p.parts if isinstance(p, _Str) else [p]):
            if isinstance(q, str):
                if not q:
                    continue
                if norm and isinstance(norm[-1], str):
                    norm[-1] += q
                else:
                    norm.append(q)
            else:
                norm.append(q)
    if all(isinstance(q, str) for q in norm):
        return "".join(norm)
    return _Str(norm)


def _template_text(s) -> str:
    """Display form of a text term (constant segments verbatim, every hole as <arg>); never used to decide anything."""
    if isinstance(s, _Str):
        return "".join(q if isinstance(q, str) else "<arg>" for q in s.parts)
    return s if isinstance(s, str) else _show(s)


# Lemmas on text terms T = s0 . h1 . s1 ... (si constant segments, hi holes of unknown content):
#  S1  a constant c that occurs inside one segment si occurs in T                      (a substring of a part is a substring of the whole)
#  S2  if the leading segment s0 contains c, the first occurrence of c in T is the first occurrence in s0
#      (an occurrence starting earlier would end before that one ends, i.e. inside s0)
#  S3  T == c is impossible unless c starts with s0, ends with the trailing segment and len(c) >= sum len(si)
#  S4  T[a:-b] (a <= len(s0), b <= len(trailing segment), a, b >= 0) removes a characters of s0 and b of the trailing segment
#  S5  lower()/upper() distribute over concatenation
#  S6  T.startswith(c) / endswith(c) is decided by s0 / the trailing segment when that segment is at least as long as c,
#      and refuted when the segment and c disagree on their common length
def _str_lead(t: _Str) -> str:
    return t.parts[0] if isinstance(t.parts[0], str) else ""


def _str_trail(t: _Str) -> str:
    return t.parts[-1] if isinstance(t.parts[-1], str) else ""


def _str_const_len(t: _Str) -> int:
    return sum(len(q) for q in t.parts if isinstance(q, str))


def _str_may_equal(t: _Str, c) -> bool:
    """S3.  False: T == c is impossible."""
    if not isinstance(c, str):
        return False  # a text never equals a value of another type
    return c.startswith(_str_lead(t)) and c.endswith(_str_trail(t)) and len(c) >= _str_const_len(t)


class _Glob(_Op):
    """A global name that is neither a builtin, an enum, a class nor a function of the package (logger, io, Tree ...)."""

    def __init__(self, name):
        _Op.__init__(self, name)
        self.name = name


class _ClsRef(_Op):
    def __init__(self, name):
        _Op.__init__(self, "class " + name)
        self.name = name


class _FnRef(_Op):
    def __init__(self, func):
        _Op.__init__(self, "function " + func.qualname)
        self.func = func


class _EnumCls(_Op):
    def __init__(self, name, members):
        _Op.__init__(self, "enum " + name)
        self.name = name
        self.members = members


class _EnumVal:
    def __init__(self, cls, name, value):
        self.cls, self.name, self.value = cls, name, value

    def __eq__(self, other):
        if isinstance(other, _EnumVal):
            return self.cls == other.cls and self.name == other.name
        if isinstance(other, int) and not isinstance(other, bool):
            return self.value == other
        return False

    def __ne__(self, other):
        return not self.__eq__(other)

    def __hash__(self):
        return hash(self.value)

    def __bool__(self):
        return bool(self.value)

    def __repr__(self):
        return f"{self.cls}.{self.name}"

    __str__ = __repr__

    def __format__(self, spec):
        return format(repr(self), spec) if not spec or spec[-1] in "s<>^" else format(self.value, spec)


class _Attr(_Op):
    def __init__(self, base, name):
        _Op.__init__(self, _path(base) + "." + name)
        self.base, self.name = base, name

    def __eq__(self, other):
        return isinstance(other, _Attr) and other.base is self.base and other.name == self.name

    def __hash__(self):
        return hash((id(self.base), self.name))


class _Obj(_Op):
    """Term for the result of a call that is not followed.  `cls` is set when the callee is a class of the package (a builder
    object); `recv` is the receiver when the callee was a method of another opaque value."""

    def __init__(self, callee, args=(), kwargs=None, node=None, cls=None, recv=None):
        _Op.__init__(self, callee + "()")
        self.callee, self.args, self.kwargs, self.node, self.cls, self.recv = callee, list(args), dict(kwargs or {}), node, cls, recv
        self.attrs: Dict[str, object] = {}


class _Sym(_Obj):
    """A parameter of the function that is followed (self, config, data ...): a symbol."""

    def __init__(self, name, cls=None):
        _Obj.__init__(self, name, cls=cls)
        self.tag = name
        self.name = name


class _Closure:
    def __init__(self, node, env):
        self.node, self.env = node, env


class _Ev:
    """One call on a value the walker does not look into."""

    def __init__(self, recv, attr, args, kwargs, node, prim=None, result=None):
        self.recv, self.attr, self.args, self.kwargs, self.node, self.prim, self.result = recv, attr, args, kwargs, node, prim, result

    def __repr__(self):
        return f"{_path(self.recv)}.{self.attr}({', '.join(map(_show, self.args))})"


def _path(v) -> str:
    if isinstance(v, _Attr):
        return _path(v.base) + "." + v.name
    if isinstance(v, (_Glob, _ClsRef, _Sym)):
        return v.name
    if isinstance(v, _Obj):
        return v.callee + "()"
    return repr(v)


def _root(v):
    seen = 0
    while seen < 20:
        seen += 1
        if isinstance(v, _Attr):
            v = v.base
        elif isinstance(v, _Obj) and v.recv is not None:
            v = v.recv
        else:
            break
    return v


def _show(v, depth=0) -> str:
    """Structural text of a value (object identities and source positions left out)."""
    if depth > 8:
        return "..."
    if isinstance(v, _Sym):
        return v.name
    if isinstance(v, _Obj):
        parts = [_show(a, depth + 1) for a in v.args] + [f"{k}={_show(x, depth + 1)}" for k, x in sorted(v.kwargs.items())]
        return f"{v.callee}({', '.join(parts)})"
    if isinstance(v, _Str):
        return "text(" + " + ".join(repr(q) if isinstance(q, str) else _show(q, depth + 1) for q in v.parts) + ")"
    if isinstance(v, _Seq):
        return "entries[" + ", ".join(_show(x, depth + 1) for x in v.items) + "]"
    if isinstance(v, _Op):
        return f"<{v.tag}>"
    if isinstance(v, (list, tuple)):
        inner = ", ".join(_show(x, depth + 1) for x in v)
        return f"[{inner}]" if isinstance(v, list) else f"({inner})"
    if isinstance(v, dict):
        return "{" + ", ".join(f"{_show(k, depth + 1)}: {_show(x, depth + 1)}" for k, x in v.items()) + "}"
    return repr(v)


def _opaque(v) -> bool:
    return isinstance(v, _Op)


def _has_opaque(v, depth=0) -> bool:
    if isinstance(v, _Op):
        return True
    if depth < 3 and isinstance(v, (list, tuple, set, frozenset)):
        return any(_has_opaque(x, depth + 1) for x in v)
    if depth < 3 and isinstance(v, dict):
        return any(_has_opaque(x, depth + 1) for x in v.values())
    return False


_SAFE_TYPES = (str, bytes, bytearray, int, float, bool, type(None), list, tuple, dict, set, frozenset, range,
               type({}.items()), type({}.keys()), type({}.values()))
_BUILTINS = {
    "list": list, "dict": dict, "str": str, "int": int, "bytes": bytes, "tuple": tuple, "set": set, "bool": bool, "float": float,
    "frozenset": frozenset, "bytearray": bytearray, "len": len, "repr": repr, "sorted": sorted, "enumerate": enumerate, "zip": zip,
    "range": range, "reversed": reversed, "any": any, "all": all, "min": min, "max": max, "sum": sum, "chr": chr, "ord": ord,
    "hex": hex, "abs": abs, "isinstance": isinstance, "getattr": getattr, "callable": callable, "hasattr": hasattr, "iter": iter,
    "next": next, "object": object,
}
_BINOPS = {ast.Add: operator.add, ast.Sub: operator.sub, ast.Mult: operator.mul, ast.Mod: operator.mod, ast.FloorDiv: operator.floordiv,
           ast.Div: operator.truediv, ast.BitOr: operator.or_, ast.BitAnd: operator.and_, ast.BitXor: operator.xor, ast.LShift: operator.lshift,
           ast.RShift: operator.rshift, ast.Pow: operator.pow}
_IBINOPS = {ast.Add: operator.iadd, ast.Sub: operator.isub, ast.BitOr: operator.ior, ast.BitAnd: operator.iand, ast.Mult: operator.imul}
_CMPOPS = {ast.Lt: operator.lt, ast.LtE: operator.le, ast.Gt: operator.gt, ast.GtE: operator.ge}
_KIND_TYPES = {"bytes": bytes, "str": str, "int": int}
_KIND_COMPARABLE = {"bytes": (bytes, bytearray), "str": (str,), "int": (int, float, complex)}
_MUTATORS = {"update", "setdefault", "pop", "popitem", "clear", "append", "extend", "insert", "remove", "add", "discard", "sort", "reverse",
             "__setitem__", "__delitem__", "difference_update", "intersection_update", "symmetric_difference_update", "appendleft", "extendleft"}
_STEP_LIMIT = 100000
_PATH_LIMIT = 96
_DEPTH_LIMIT = 5


class _Oracle:
    """Decisions for tests whose value is unknown; `_paths` enumerates every decision vector."""

    def __init__(self, prefix=()):
        self.prefix = list(prefix)
        self.made: List[bool] = []

    def decide(self) -> bool:
        i = len(self.made)
        v = self.prefix[i] if i < len(self.prefix) else True
        self.made.append(v)
        return v


def _paths(run):
    """run(oracle) -> result, for every combination of outcomes of the unknown tests met on the way."""
    out = []
    stack = [[]]
    while stack:
        p = stack.pop()
        o = _Oracle(p)
        out.append(run(o))
        for i in range(len(p), len(o.made)):
            stack.append(o.made[:i] + [False])
        if len(out) > _PATH_LIMIT:
            raise Unknown("too many paths")
    return out


def _enum_table(ctx) -> Dict[str, Dict[str, int]]:
    t = getattr(ctx, "_c13_enums", None)
    if t is None:
        t = {}
        for cd in ctx.cdefs("beacon").values():
            for name, e in cd.enums.items():
                t[name] = dict(e.members)
            for py, cname in getattr(cd, "aliases", {}).items():
                if cname in cd.enums:
                    t.setdefault(py, dict(cd.enums[cname].members))
        ctx._c13_enums = t
    return t


class _Interp:
    """Path-wise symbolic value flow over the statements of a package function (policy devices 2, 3, 5, 6).

    * the parameters of the function are symbols (`_Sym`, `_Val`, `_Seq`); attribute reads on unknown values give `_Attr`
      terms, calls give `_Obj` terms (callee, arguments) and are recorded in `events`; tuple unpacking, subscripts,
      `repr()`/`str()` of an unknown value and text formatting give terms too (`item(..)`, `slice(..)`, `repr(..)`,
      `_Str` templates) - definitions are substituted, nothing is computed from unknown data;
    * expressions whose operands are all constants of the analysed code (literals, enum members, module constant tables,
      names of the vocabulary member a case analysis fixed) are constant-folded with the builtin operations; the
      containers the code itself builds (lists, dicts) hold the terms put into them;
    * a branch test whose outcome is unknown stays symbolic: both outcomes are followed (`_paths`), the outcome chosen for
      one symbolic value is kept along the path; tests on `_Val`/`_Str`/`_Seq` are decided only by the nullness / type-tag
      facts of the symbol and the text lemmas S1-S6;
    * a loop is analysed once: over an unknown iterable with a symbolic item (or the entries of the case analysis, `_Seq`
      / the `iter` hook); a `while` loop body once.  A loop over a constant table of the code visits the table's entries;
    * calls of methods of package classes that are not builder primitives are followed (argument binding, bounded depth).
    Nothing of the package is imported or executed, and no input data is made up: the walker sees the parsed AST only."""

    def __init__(self, ctx, modname: str, oracle: _Oracle, hooks: Optional[dict] = None, descend=True):
        self.ctx = ctx
        self.modname = modname
        self.mod = ctx.repo.module(modname)
        self.oracle = oracle
        self.hooks = hooks or {}
        self.descend = descend
        self.events: List[_Ev] = []
        self.tests: List[Tuple[int, object, bool]] = []  # (number of events so far, builder object, outcome) of decided `block.tree.children` tests
        self.flags: Set[str] = set()
        self.yields: List[object] = []
        self.class_stores: List[Tuple[str, str, object]] = []  # (class, attribute, term) of `Cls.attr = v` stores on package classes
        self.nsteps = 0
        self.depth = 0
        self._globals: Dict[str, object] = {}
        self._glob_busy: Set[str] = set()
        self._decided: Dict[int, Tuple[object, bool]] = {}  # symbolic value -> branch outcome chosen on this path

    # ------------------------------------------------------------------ package lookups
    def _find_class(self, name: str) -> Optional[Tuple[str, ast.ClassDef]]:
        if name in self.mod.classes:
            return self.modname, self.mod.classes[name]
        for mn, m in self.ctx.repo.modules.items():
            if name in m.classes:
                return mn, m.classes[name]
        return None

    def _mro(self, name: str) -> List[Tuple[str, ast.ClassDef]]:
        out, seen = [], set()
        todo = [name]
        while todo:
            n = todo.pop(0)
            if n in seen:
                continue
            seen.add(n)
            fc = self._find_class(n)
            if fc is None:
                continue
            out.append(fc)
            for b in fc[1].bases:
                d = dotted(b)
                if d:
                    todo.append(d.split(".")[-1])
        return out

    def method(self, clsname: str, attr: str, hops=0):
        """-> ("prim", name, None) | ("func", name, Func) | ("const", name, expr) | None for attribute `attr` of a package class."""
        for mn, cnode in self._mro(clsname):
            late = self._late_attrs(mn, cnode)
            if attr in late:
                # installed after the class body ran (class decorator, setattr / attribute store at module level): this is
                # what the name is bound to, whatever the body said
                v = late[attr]
                if isinstance(v, _Attr) and isinstance(v.base, _ClsRef) and hops < 4:
                    return self.method(v.base.name, v.name, hops + 1)
                if isinstance(v, _FnRef):
                    return ("func", attr, v.func)
                return ("value", attr, v)
            for st in cnode.body:
                if isinstance(st, (ast.FunctionDef, ast.AsyncFunctionDef)) and st.name == attr:
                    if attr in PRIMS:
                        return ("prim", attr, None)
                    f = self.ctx.repo.module(mn).funcs.get(f"{cnode.name}.{attr}")
                    return ("func", attr, f) if f is not None else None
                tgt = None
                if isinstance(st, ast.Assign) and len(st.targets) == 1 and isinstance(st.targets[0], ast.Name):
                    tgt, val = st.targets[0].id, st.value
                elif isinstance(st, ast.AnnAssign) and isinstance(st.target, ast.Name) and st.value is not None:
                    tgt, val = st.target.id, st.value
                if tgt == attr:
                    d = dotted(val)
                    if d and "." in d and hops < 4:
                        c2, a2 = d.rsplit(".", 1)
                        if self._find_class(c2.split(".")[-1]) is not None:
                            return self.method(c2.split(".")[-1], a2, hops + 1)
                    return ("const", attr, val)
        return None

    def _late_attrs(self, mn: str, cnode: ast.ClassDef) -> Dict[str, object]:
        """Attributes a package class gets AFTER its body: through its class decorators (functions of the package, followed
        with the class as a symbol and their constant arguments folded - device 6 / 3: `setattr(cls, <constant>, v)`,
        `cls.<name> = v`) and through module-level statements of the same two forms on the class's name (alone or in a loop
        over constants).  attribute -> term.  What cannot be followed is remembered in ctx._c13_late_unknown (class name ->
        reason): a lookup that then finds nothing does not know that there is nothing."""
        cache = self.ctx.__dict__.setdefault("_c13_late_attrs", {})
        key = (mn, cnode.name)
        if key in cache:
            return cache[key] or {}
        cache[key] = None  # busy: lookups made while the class's own decorators are followed see the body only
        out: Dict[str, object] = {}
        unknown = self.ctx.__dict__.setdefault("_c13_late_unknown", {})
        mod = self.ctx.repo.module(mn)
        late_stmts = []
        for st in mod.tree.body:
            if isinstance(st, (ast.FunctionDef, ast.AsyncFunctionDef, ast.ClassDef, ast.Import, ast.ImportFrom)):
                continue
            for n in ast.walk(st):
                if isinstance(n, ast.Call) and dotted(n.func) == "setattr" and n.args and isinstance(n.args[0], ast.Name) and n.args[0].id == cnode.name:
                    late_stmts.append(st)
                    break
                if isinstance(n, ast.Attribute) and isinstance(n.ctx, ast.Store) and isinstance(n.value, ast.Name) and n.value.id == cnode.name:
                    late_stmts.append(st)
                    break
        if cnode.decorator_list or late_stmts:
            it = _Interp(self.ctx, mn, _Oracle(), {"descend_func": lambda f: True})
            try:
                me = _ClsRef(cnode.name)
                for d in reversed(cnode.decorator_list):
                    dv = it.eval(d, {})
                    if not isinstance(dv, (_FnRef, _Closure)):
                        raise Unknown(f"class decorator {src(d)[:40]} is not a function of the package")
                    got = it.invoke(dv.func.node, [me], {}, None, modname=dv.func.module.name) if isinstance(dv, _FnRef) else it.call(dv, [me], {}, d)
                    if not (isinstance(got, _ClsRef) and got.name == cnode.name):
                        raise Unknown(f"class decorator {src(d)[:40]} does not return the class")
                env: dict = {}
                for st in late_stmts:
                    it.stmt(st, env)
                if it.oracle.made:
                    raise Unknown("attributes are installed under a test whose outcome is not a constant")
                for ev in it.events:
                    if isinstance(ev.recv, _Glob) and ev.recv.name == "setattr" and ev.args and isinstance(ev.args[0], _ClsRef) and ev.args[0].name == cnode.name:
                        if len(ev.args) != 3 or not isinstance(ev.args[1], str):
                            raise Unknown("setattr on the class with a name that is not a constant")
                        it.class_stores.append((cnode.name, ev.args[1], ev.args[2]))
                for cname, attr, v in it.class_stores:
                    if cname == cnode.name:
                        out[attr] = v
            except (Unknown, _Raised, _Return, _Break, _Continue) as e:
                unknown[cnode.name] = str(e) or type(e).__name__
                out = {}
            except Exception as e:  # a construct the walker mishandles: nothing is claimed
                unknown[cnode.name] = f"walker failure {type(e).__name__}: {e}"[:120]
                out = {}
        cache[key] = out
        return out

    def glob(self, name: str):
        if name in self._globals:
            return self._globals[name]
        v = self._glob(name)
        self._globals[name] = v
        return v

    def _glob(self, name: str):
        if name in _BUILTINS:
            return _BUILTINS[name]
        enums = _enum_table(self.ctx)
        if name in enums:
            return _EnumCls(name, enums[name])
        if self._find_class(name) is not None:
            return _ClsRef(name)
        if name in self.mod.consts and name not in self._glob_busy:
            self._glob_busy.add(name)
            try:
                fill = self._module_fill_statements(name)
                if fill is None:
                    v = self.eval(self.mod.consts[name], {})
                else:
                    # a module-level table that is filled by further module-level statements (`T.update(..)`, `T[k] = v`,
                    # a loop): the statements are constant-folded in order (device 6: module-level constant tables)
                    env: dict = {}
                    asked = len(self.oracle.made)
                    for st in fill:
                        self.stmt(st, env)
                    if len(self.oracle.made) != asked:
                        raise Unknown("a module-level table is filled under a test whose outcome is not a constant")
                    v = env[name]
                if not _has_opaque(v):
                    return v
            except (Unknown, _Raised, _Break, _Continue, _Return, KeyError):
                pass
            finally:
                self._glob_busy.discard(name)
            return _Glob(name)
        if name in self.mod.funcs:
            return _FnRef(self.mod.funcs[name])
        for m in self.ctx.repo.modules.values():
            if name in m.funcs and "." not in name:
                return _FnRef(m.funcs[name])
        return _Glob(name)

    def _module_fill_statements(self, name: str) -> Optional[list]:
        """The module-level statements that define and then fill / mutate the global `name`, in order; None when the
        global is only ever assigned (then its last assignment is its value).  Statements that merely read it are left
        out.  Raises Unknown for a mutation the walker does not model (`del`)."""
        cache = self.ctx.__dict__.setdefault("_c13_fill_cache", {})
        key = (self.modname, name)
        if key in cache:
            if isinstance(cache[key], Unknown):
                raise cache[key]
            return cache[key]
        try:
            cache[key] = self._module_fill_statements_uncached(name)
        except Unknown as e:
            cache[key] = e
            raise
        return cache[key]

    def _module_fill_statements_uncached(self, name: str) -> Optional[list]:
        out, mutated = [], False
        for st in self.mod.tree.body:
            if isinstance(st, (ast.FunctionDef, ast.AsyncFunctionDef, ast.ClassDef, ast.Import, ast.ImportFrom)):
                continue
            defines = (isinstance(st, ast.Assign) and any(isinstance(t, ast.Name) and t.id == name for t in st.targets)) or \
                (isinstance(st, ast.AnnAssign) and isinstance(st.target, ast.Name) and st.target.id == name and st.value is not None)
            if defines:
                out.append(st)
                continue
            writes = False
            for n in ast.walk(st):
                if isinstance(n, ast.Delete) and any(isinstance(x, ast.Name) and x.id == name for t in n.targets for x in ast.walk(t)):
                    raise Unknown("del on a module-level table")
                if isinstance(n, ast.Call) and isinstance(n.func, ast.Attribute) and isinstance(n.func.value, ast.Name) and n.func.value.id == name and \
                        n.func.attr in _MUTATORS:
                    writes = True  # a mutating method of the builtin containers called on the table
                if isinstance(n, (ast.Subscript, ast.Attribute)) and isinstance(n.ctx, ast.Store) and isinstance(n.value, ast.Name) and n.value.id == name:
                    writes = True
                if isinstance(n, ast.AugAssign) and isinstance(n.target, ast.Name) and n.target.id == name:
                    writes = True
                if isinstance(n, ast.Name) and n.id == name and isinstance(n.ctx, ast.Store) and not defines:
                    writes = True  # rebound inside a compound statement
            if writes:
                mutated = True
                out.append(st)
        return out if mutated else None

    # ------------------------------------------------------------------ truth
    def truth(self, v) -> bool:
        if isinstance(v, _Obj) and v.cls is not None:
            for special in ("__bool__", "__len__"):
                if self.method(v.cls, special) is not None:
                    return self.oracle.decide()
            return True
        if isinstance(v, (_ClsRef, _FnRef, _EnumCls, _Closure)):
            return True
        if isinstance(v, _Attr) and v.name == "children" and isinstance(v.base, _Attr) and v.base.name == "tree" and isinstance(v.base.base, _Obj):
            known = self.block_nonempty(v.base.base)
            if known is not None:
                self.tests.append((len(self.events), v.base.base, known))
                return known
        if isinstance(v, _Seq):
            return bool(v.items)  # named assumption: the sequence holds the entries of the case analysis
        if isinstance(v, _Len) and v.lo > 0:
            return True
        if isinstance(v, _Str) and _str_const_len(v) > 0:
            return True  # a text with a non-empty constant segment is not empty
        if isinstance(v, _Attr):
            return self.oracle.decide()  # attributes of mutable objects: not remembered
        if isinstance(v, _Op):
            return self._decide(v)
        try:
            return bool(v)
        except Exception:
            raise Unknown("truth value of " + repr(v)[:40])

    def _decide(self, v) -> bool:
        """Outcome of a test on symbolic value `v`: unknown, so the oracle picks; the same value keeps its outcome along
        the path (the terms are immutable, so asking twice cannot give two answers)."""
        hit = self._decided.get(id(v))
        if hit is not None and hit[0] is v:
            return hit[1]
        d = self.oracle.decide()
        self._decided[id(v)] = (v, d)
        return d

    def block_nonempty(self, obj: _Obj, depth=0, upto: Optional[int] = None) -> Optional[bool]:
        """Does builder object `obj` have children after the first `upto` builder calls of the path (None: so far)?  Model of
        the ConfigBlock primitives (each set_option / _enable / set_config_block call and each pair adds one child;
        set_non_empty_config_block adds one iff the child block has children *when it is called*; constructor keywords go
        through the same primitives).  None when not known."""
        if obj.cls is None or depth > 4 or isinstance(obj, _Sym):
            return None
        m = self.method(obj.cls, "tree")
        if m is not None:
            return True if obj.cls == "DataTransformBlock" else None  # a computed tree: data transforms always have their two parts
        if obj.kwargs or obj.args:
            return True if not obj.args and all(not _opaque(v) or isinstance(v, _Obj) for v in obj.kwargs.values()) and obj.kwargs else None
        unknown = False
        for j, ev in enumerate(self.events if upto is None else self.events[:upto]):
            if ev.recv is not obj:
                continue
            if ev.prim is None:
                unknown = True
            elif ev.prim in ("set_option", "_enable", "set_config_block"):
                return True
            elif ev.prim == "set_non_empty_config_block":
                child = _ev_value(ev)
                k = self.block_nonempty(child, depth + 1, upto=j) if isinstance(child, _Obj) else None  # tested at the time of that call
                if k:
                    return True
                unknown = unknown or k is None
            else:
                val = _ev_value(ev)
                if _opaque(val) or val is None:
                    unknown = True
                else:
                    try:
                        if len(list(val)) > 0:
                            return True
                    except TypeError:
                        unknown = True
        return None if unknown else False

    # ------------------------------------------------------------------ expressions
    def eval(self, e: ast.AST, env: dict):
        m = getattr(self, "e_" + type(e).__name__, None)
        if m is None:
            raise Unknown("expression " + type(e).__name__)
        return m(e, env)

    def e_Constant(self, e, env):
        return e.value

    def e_Name(self, e, env):
        if e.id in env:
            return env[e.id]
        return self.glob(e.id)

    def e_Tuple(self, e, env):
        return tuple(self._elts(e.elts, env))

    def e_List(self, e, env):
        return self._elts(e.elts, env)

    def e_Set(self, e, env):
        try:
            return set(self._elts(e.elts, env))
        except TypeError:
            raise _Raised("TypeError", e)

    def _elts(self, elts, env) -> list:
        out = []
        for x in elts:
            if isinstance(x, ast.Starred):
                v = self.eval(x.value, env)
                if _opaque(v):
                    raise Unknown("starred opaque value")
                out.extend(list(v))
            else:
                out.append(self.eval(x, env))
        return out

    def e_Dict(self, e, env):
        d = {}
        for k, v in zip(e.keys, e.values):
            if k is None:
                inner = self.eval(v, env)
                if _opaque(inner):
                    raise Unknown("** of opaque value")
                d.update(inner)
            else:
                try:
                    d[self.eval(k, env)] = self.eval(v, env)
                except TypeError:
                    raise _Raised("TypeError", e)
        return d

    def e_IfExp(self, e, env):
        return self.eval(e.body, env) if self.truth(self.eval(e.test, env)) else self.eval(e.orelse, env)

    def e_BoolOp(self, e, env):
        v = None
        for x in e.values:
            v = self.eval(x, env)
            t = self.truth(v)
            if isinstance(e.op, ast.And) and not t:
                return v
            if isinstance(e.op, ast.Or) and t:
                return v
        return v

    def e_UnaryOp(self, e, env):
        v = self.eval(e.operand, env)
        if isinstance(e.op, ast.Not):
            return not self.truth(v)
        if _opaque(v):
            return _Op("unary")
        try:
            if isinstance(e.op, ast.USub):
                return -v
            if isinstance(e.op, ast.UAdd):
                return +v
            return ~v
        except Exception:
            raise _Raised("TypeError", e)

    def e_BinOp(self, e, env):
        l, r = self.eval(e.left, env), self.eval(e.right, env)
        return self._binop(type(e.op), l, r, e, _BINOPS)

    def _binop(self, op, l, r, node, table):
        fn = table.get(op) or _BINOPS.get(op)
        if fn is None:
            raise Unknown("operator " + op.__name__)
        if op is ast.Add and isinstance(l, (str, _Str)) and isinstance(r, (str, _Str)):
            return _mk_str([l, r])  # concatenation of text terms
        if _opaque(l) or _opaque(r):
            return _Obj("binop " + op.__name__, [l, r], node=node)
        if _has_opaque(l) or _has_opaque(r):
            if op is ast.Add and type(l) is type(r) and isinstance(l, (list, tuple)):
                return l + r  # concatenation of containers the code built: the elements stay terms
            return _Obj("binop " + op.__name__, [l, r], node=node)
        try:
            return fn(l, r)
        except Exception as ex:
            raise _Raised(type(ex).__name__, node)

    def e_Compare(self, e, env):
        left = self.eval(e.left, env)
        res = True
        for op, rn in zip(e.ops, e.comparators):
            right = self.eval(rn, env)
            res = self._cmp(op, left, right, e)
            if _opaque(res):
                return res if len(e.ops) == 1 else _Op("compare")
            if not res:
                return False
            left = right
        return res

    def _identity_known(self, v) -> bool:
        return not isinstance(v, _Op) or (isinstance(v, _Obj) and v.cls is not None) or isinstance(v, (_ClsRef, _FnRef, _EnumCls))

    def _sym_cmp(self, op, l, r):
        """Comparisons decided by what is known about a symbol (`_Val`: not None, type tag; `_Str`: lemmas S1, S3) ->
        True / False, or NotImplemented when nothing decides."""
        if isinstance(op, (ast.Is, ast.IsNot)):
            for a, b in ((l, r), (r, l)):
                if isinstance(a, (_Val, _Str, _Seq)) and (b is None or (isinstance(b, bool) and (not isinstance(a, _Val) or a.kind is not None))):
                    return isinstance(op, ast.IsNot)  # not None (nullness fact); a bytes/str/int value is not the object True / False
            return NotImplemented
        if isinstance(op, (ast.Eq, ast.NotEq)):
            for a, b in ((l, r), (r, l)):
                if _opaque(b):
                    continue
                if isinstance(a, _Seq) and a.exact and not a.items:
                    # the empty-sequence case; the sequences under analysis are Python lists (named assumption, see
                    # trusted base): equal to the empty list, unequal to everything else
                    return (isinstance(b, list) and not b) == isinstance(op, ast.Eq)
                if isinstance(a, _Seq) and a.items and isinstance(b, (list, tuple, str, bytes, dict, set, frozenset, type(None))) and len(b or ()) < len(a.items):
                    return isinstance(op, ast.NotEq)  # a sequence with an entry is unequal to a shorter container / None
                if isinstance(a, _Len) and isinstance(b, int) and not isinstance(b, bool) and b < a.lo:
                    return isinstance(op, ast.NotEq)  # interval fact: length >= lo > b
                if isinstance(a, _Str) and not _str_may_equal(a, b):
                    return isinstance(op, ast.NotEq)
                if isinstance(a, _Val):
                    if b is None or (a.kind is not None and not isinstance(b, _KIND_COMPARABLE[a.kind])):
                        return isinstance(op, ast.NotEq)  # not None; values of unrelated builtin types are unequal
            return NotImplemented
        if isinstance(op, (ast.In, ast.NotIn)):
            if isinstance(r, _Str) and isinstance(l, str):
                if any(isinstance(q, str) and l in q for q in r.parts):
                    return isinstance(op, ast.In)  # S1
                return NotImplemented
            if isinstance(l, (_Str, _Val)) and isinstance(r, (list, tuple, set, frozenset)) and not _has_opaque(r):
                ne = ast.NotEq()
                if all(self._sym_cmp(ne, l, x) is True for x in r):
                    return isinstance(op, ast.NotIn)  # unequal to every member
            return NotImplemented
        if type(op) in _CMPOPS:
            # interval fact of a length n >= lo against a constant k: n > k and n >= k follow from the lower bound, n < k
            # and n <= k are refuted by it; nothing else is known
            o, n, k = type(op), l, r
            if isinstance(r, _Len):
                o, n, k = {ast.Lt: ast.Gt, ast.Gt: ast.Lt, ast.LtE: ast.GtE, ast.GtE: ast.LtE}[o], r, l
            if isinstance(n, _Len) and isinstance(k, (int, float)) and not isinstance(k, bool):
                if o is ast.Gt and n.lo > k or o is ast.GtE and n.lo >= k:
                    return True
                if o is ast.Lt and n.lo >= k or o is ast.LtE and n.lo > k:
                    return False
            return NotImplemented
        return NotImplemented

    def _cmp(self, op, l, r, node):
        if isinstance(l, (_Val, _Str, _Seq, _Len)) or isinstance(r, (_Val, _Str, _Seq, _Len)):
            known = self._sym_cmp(op, l, r)
            if known is not NotImplemented:
                return known
        if isinstance(op, (ast.Is, ast.IsNot)):
            if self._identity_known(l) and self._identity_known(r):
                res = l is r or (isinstance(l, _EnumVal) and isinstance(r, _EnumVal) and l == r)
                return res if isinstance(op, ast.Is) else not res
            return _Op("is")
        if isinstance(op, (ast.Eq, ast.NotEq)):
            if (_opaque(l) and not self._identity_known(l)) or (_opaque(r) and not self._identity_known(r)) or \
                    ((_has_opaque(l) or _has_opaque(r)) and not (_opaque(l) or _opaque(r))):
                return _Op("eq")
            res = (l is r) if (_opaque(l) or _opaque(r)) else (l == r)
            return res if isinstance(op, ast.Eq) else not res
        if isinstance(op, (ast.In, ast.NotIn)):
            if _opaque(r) or (_opaque(l) and not self._identity_known(l)):
                return _Op("in")
            try:
                if _has_opaque(r):
                    # membership among partly unknown elements: known only when a known element matches
                    hit = any((x is l) if _opaque(x) else (x == l) for x in r)
                    if not hit:
                        return _Op("in")
                    res = True
                else:
                    res = l in r
            except TypeError:
                raise _Raised("TypeError", node)
            return res if isinstance(op, ast.In) else not res
        fn = _CMPOPS.get(type(op))
        if fn is None:
            raise Unknown("comparison " + type(op).__name__)
        if _opaque(l) or _opaque(r):
            return _Op("cmp")
        try:
            return fn(l.value if isinstance(l, _EnumVal) else l, r.value if isinstance(r, _EnumVal) else r)
        except TypeError:
            raise _Raised("TypeError", node)

    def e_JoinedStr(self, e, env):
        parts = []
        for v in e.values:
            parts.append(self.e_FormattedValue(v, env) if isinstance(v, ast.FormattedValue) else str(self.eval(v, env)))
        return _mk_str(parts)

    def e_FormattedValue(self, e, env):
        x = self.eval(e.value, env)
        spec = self.eval(e.format_spec, env) if e.format_spec is not None else ""
        return self._text_of(x, spec, e.conversion)

    def _text_of(self, x, spec="", conversion=-1):
        """The text `format(x, spec)` as a term: a constant for constants of the code, the text term itself for text,
        otherwise a hole."""
        if isinstance(x, _Str) and not spec and conversion in (-1, 115):
            return x
        if _has_opaque(x) or _has_opaque(spec):
            return _Obj("text", [x] + ([spec] if spec else []))
        try:
            if conversion == 114:
                x = repr(x)
            elif conversion == 115:
                x = str(x)
            elif conversion == 97:
                x = ascii(x)
            return format(x, spec)
        except Exception:
            raise _Raised("ValueError")

    def e_Subscript(self, e, env):
        base = self.eval(e.value, env)
        idx = self._index(e.slice, env)
        if isinstance(base, _Str) and isinstance(idx, slice):
            r = self._str_slice(base, idx)
            if r is not NotImplemented:
                return r
        if isinstance(base, dict) and _opaque(idx) and any(k is idx for k in base):
            return base[idx]  # the very term the code stored under
        if _opaque(base) or _has_opaque(idx) or (isinstance(idx, slice) and any(_has_opaque(x) for x in (idx.start, idx.stop, idx.step))):
            if isinstance(idx, slice):
                return _Obj("slice", [base, idx.start, idx.stop, idx.step], node=e)
            return _Obj("item", [base, idx], node=e)
        try:
            return base[idx]
        except Exception as ex:
            raise _Raised(type(ex).__name__, e)

    def _index(self, s, env):
        if isinstance(s, ast.Slice):
            return slice(*(self.eval(x, env) if x is not None else None for x in (s.lower, s.upper, s.step)))
        return self.eval(s, env)

    def e_Slice(self, e, env):
        return self._index(e, env)

    def _str_slice(self, t: _Str, idx: slice):
        """S4: T[a:-b] with the cut points inside the leading / trailing constant segments."""
        a, b, st = idx.start, idx.stop, idx.step
        if st not in (None, 1) or not (a is None or (isinstance(a, int) and a >= 0)) or not (b is None or (isinstance(b, int) and b < 0)):
            return NotImplemented
        a, b = a or 0, -(b or 0)
        if a > len(_str_lead(t)) or b > len(_str_trail(t)):
            return NotImplemented
        parts = list(t.parts)
        if a:
            parts[0] = parts[0][a:]
        if b:
            parts[-1] = parts[-1][:-b]
        return _mk_str(parts)

    def e_NamedExpr(self, e, env):
        v = self.eval(e.value, env)
        env[e.target.id] = v
        return v

    def e_Lambda(self, e, env):
        return _Closure(e, env)

    def e_Yield(self, e, env):
        self.yields.append(self.eval(e.value, env) if e.value is not None else None)
        return None

    def e_YieldFrom(self, e, env):
        v = self.eval(e.value, env)
        if _opaque(v):
            raise Unknown("yield from opaque value")
        self.yields.extend(list(v))
        return None

    def e_Starred(self, e, env):
        raise Unknown("starred expression")

    # comprehensions
    def _comp(self, gens, env, emit, symbolic=None):
        """Visit a comprehension; `symbolic` (a list) gets an entry when a generator ranges over a `_Seq`."""
        symbolic = symbolic if symbolic is not None else []

        def rec(i, scope):
            if i == len(gens):
                emit(scope)
                return True
            g = gens[i]
            it = self.eval(g.iter, scope)
            if isinstance(it, _Seq):
                it = it.items
                symbolic.append(True)
            elif _opaque(it):
                return False
            for item in list(it):
                self.assign(g.target, item, scope)
                if all(self.truth(self.eval(c, scope)) for c in g.ifs):
                    if not rec(i + 1, scope):
                        return False
            return True

        return rec(0, dict(env))

    def e_ListComp(self, e, env):
        out, sym = [], []
        if not self._comp(e.generators, env, lambda sc: out.append(self.eval(e.elt, sc)), sym):
            return _Op("comprehension")
        return _Seq(out) if sym else out  # one element per entry of the case analysis: again a symbolic sequence

    e_GeneratorExp = e_ListComp

    def e_SetComp(self, e, env):
        out = []
        if not self._comp(e.generators, env, lambda sc: out.append(self.eval(e.elt, sc))):
            return _Op("comprehension")
        return set(out)

    def e_DictComp(self, e, env):
        out = {}

        def put(sc):
            out[self.eval(e.key, sc)] = self.eval(e.value, sc)

        return out if self._comp(e.generators, env, put) else _Op("comprehension")

    # attributes
    def e_Attribute(self, e, env):
        return self.getattr(self.eval(e.value, env), e.attr, e)

    def getattr(self, base, name: str, node=None):
        if isinstance(base, _EnumVal):
            if name == "name":
                return base.name
            if name == "value":
                return base.value
            raise Unknown("enum attribute " + name)
        if isinstance(base, _EnumCls):
            if name in base.members:
                return _EnumVal(base.name, name, base.members[name])
            return _Attr(base, name)
        if isinstance(base, _Obj):
            if name in base.attrs:
                return base.attrs[name]
            if base.cls is not None:
                m = self.method(base.cls, name)
                if m is not None and m[0] == "value" and not _has_opaque(m[2]):
                    return m[2]
                if m is not None and m[0] == "const":
                    try:
                        return self.eval(m[2], {})
                    except (Unknown, _Raised):
                        pass
            return _Attr(base, name)
        if isinstance(base, _ClsRef):
            m = self.method(base.name, name)
            if m is not None and m[0] == "value" and not _has_opaque(m[2]):
                return m[2]
            if m is not None and m[0] == "const":
                try:
                    v = self.eval(m[2], {})
                    if not _has_opaque(v):
                        return v
                except (Unknown, _Raised):
                    pass
            return _Attr(base, name)
        if isinstance(base, _Glob) and base.name == "collections" and name in ("defaultdict", "OrderedDict"):
            return getattr(collections, name)
        if isinstance(base, _Op):
            return _Attr(base, name)
        if isinstance(base, _SAFE_TYPES + (collections.defaultdict, collections.OrderedDict)) and not name.startswith("_"):
            try:
                return getattr(base, name)
            except AttributeError:
                raise _Raised("AttributeError", node)
        raise Unknown(f"attribute {name} of {type(base).__name__}")

    # ------------------------------------------------------------------ calls
    def e_Call(self, e, env):
        fv = self.eval(e.func, env)
        args = self._elts(e.args, env)
        kwargs = {}
        for k in e.keywords:
            if k.arg is None:
                inner = self.eval(k.value, env)
                if _opaque(inner):
                    raise Unknown("** of opaque value")
                kwargs.update(inner)
            else:
                kwargs[k.arg] = self.eval(k.value, env)
        return self.call(fv, args, kwargs, e)

    def _event(self, recv, attr, args, kwargs, node, prim=None, result=None):
        ev = _Ev(recv, attr, list(args), dict(kwargs), node, prim, result)
        self.events.append(ev)
        return ev

    def call(self, fv, args, kwargs, node):
        hook = self.hooks.get("call")
        if hook is not None:
            r = hook(self, fv, args, kwargs, node)
            if r is not NotImplemented:
                return r
        if isinstance(fv, _Closure):
            return self.invoke(fv.node, args, kwargs, fv.env)
        if isinstance(fv, _EnumCls):
            h = self.hooks.get("enum")
            if h is not None:
                r = h(self, fv, args)
                if r is not NotImplemented:
                    return r
            if len(args) == 1 and isinstance(args[0], int):
                for n, v in fv.members.items():
                    if v == args[0]:
                        return _EnumVal(fv.name, n, v)
                raise _Raised("ValueError", node)
            return _Op(fv.name + "()")
        if isinstance(fv, _ClsRef):
            obj = _Obj(fv.name, args, kwargs, node, cls=fv.name)
            self._event(fv, "<new>", args, kwargs, node, result=obj)
            return obj
        if isinstance(fv, _FnRef):
            want = self.hooks.get("descend_func")
            # a helper that is handed a builder object works on that object: follow it; anything else is a computation
            # whose result stays opaque (value_to_string, the parsers ...)
            takes_block = any(isinstance(x, _Obj) and x.cls is not None for x in list(args) + list(kwargs.values()))
            if self.descend and (want(fv.func) if want is not None else takes_block):
                return self.invoke(fv.func.node, args, kwargs, None, modname=fv.func.module.name)
            obj = _Obj(fv.func.qualname, args, kwargs, node)
            self._event(fv, "<call>", args, kwargs, node, result=obj)
            return obj
        if isinstance(fv, _Attr) and isinstance(fv.base, _Str):
            r = self._str_method(fv.base, fv.name, args, kwargs)
            if r is not NotImplemented:
                return r
        if isinstance(fv, _Attr) and isinstance(fv.base, _Seq) and fv.name in ("copy", "__iter__") and not args:
            return fv.base
        if isinstance(fv, _Attr):
            base = fv.base
            cname = base.cls if isinstance(base, _Obj) else base.name if isinstance(base, _ClsRef) else None
            m = self.method(cname, fv.name) if cname else None
            if m is not None and m[0] == "func" and self.descend and m[2] is not None:
                f = m[2]
                decos = {dotted(d) for d in f.node.decorator_list}
                if "staticmethod" in decos:
                    pre = []
                elif "classmethod" in decos:
                    pre = [base if isinstance(base, _ClsRef) else _ClsRef(cname)]
                else:
                    pre = [base] if isinstance(base, _Obj) else []
                return self.invoke(f.node, pre + list(args), kwargs, None, modname=f.module.name)
            prim = m[1] if m is not None and m[0] == "prim" else None
            obj = _Obj(_path(fv), args, kwargs, node, recv=base)
            self._event(base, fv.name, args, kwargs, node, prim=prim, result=obj)
            return obj
        if isinstance(fv, _Op):
            obj = _Obj(_path(fv), args, kwargs, node, recv=fv)
            self._event(fv, "<call>", args, kwargs, node, result=obj)
            return obj
        if callable(fv):
            return self._real_call(fv, args, kwargs, node)
        raise _Raised("TypeError", node)

    def _str_method(self, t: _Str, name: str, args, kwargs):
        """Methods of a text term that the lemmas decide; NotImplemented otherwise (the call stays a term)."""
        if kwargs or any(_has_opaque(a) for a in args):
            return NotImplemented
        lead, trail = _str_lead(t), _str_trail(t)
        if name == "partition" and len(args) == 1 and isinstance(args[0], str) and args[0] and args[0] in lead:
            i = lead.index(args[0])  # S2
            return (lead[:i], args[0], _mk_str([lead[i + len(args[0]):]] + t.parts[1:]))
        if name == "split" and len(args) == 2 and isinstance(args[0], str) and args[0] and args[1] == 1 and args[0] in lead:
            i = lead.index(args[0])  # S2
            return [lead[:i], _mk_str([lead[i + len(args[0]):]] + t.parts[1:])]
        if name in ("startswith", "endswith") and len(args) == 1 and isinstance(args[0], (str, tuple)):
            seg = lead if name == "startswith" else trail
            verdicts = []
            for c in (args[0] if isinstance(args[0], tuple) else (args[0],)):
                if not isinstance(c, str):
                    return NotImplemented
                if len(seg) >= len(c):
                    verdicts.append(getattr(seg, name)(c))  # S6
                else:
                    agree = c.startswith(seg) if name == "startswith" else c.endswith(seg)
                    verdicts.append(None if agree else False)
            if any(v is True for v in verdicts):
                return True
            return False if all(v is False for v in verdicts) else NotImplemented
        if name in ("lower", "upper", "casefold") and not args:
            return _mk_str([getattr(q, name)() if isinstance(q, str) else _Obj(name, [q]) for q in t.parts])  # S5
        if name == "replace" and len(args) == 2 and isinstance(args[0], str) and isinstance(args[1], str) and len(args[0]) == 1:
            # replacing a single character acts character by character, hence segment by segment
            return _mk_str([q.replace(args[0], args[1]) if isinstance(q, str) else _Obj("replace", [q, args[0], args[1]]) for q in t.parts])
        if name == "format" or name == "join":
            return NotImplemented
        return NotImplemented

    def _format_template(self, tmpl: str, args, kwargs):
        """`tmpl.format(*args, **kwargs)` as a text term; the template is a constant of the code and is parsed, not run."""
        import string

        parts, auto = [], 0
        try:
            fields = list(string.Formatter().parse(tmpl))
        except ValueError:
            raise _Raised("ValueError")
        for lit, field, spec, conv in fields:
            parts.append(lit)
            if field is None:
                continue
            if field == "":
                key, auto = auto, auto + 1
            elif field.isdigit():
                key = int(field)
            elif field.isidentifier():
                key = field
            else:
                return _Obj("format", [tmpl] + list(args))  # attribute / index lookups inside the field: not modelled
            if spec and ("{" in spec):
                return _Obj("format", [tmpl] + list(args))
            try:
                x = args[key] if isinstance(key, int) else kwargs[key]
            except (IndexError, KeyError):
                raise _Raised("IndexError" if isinstance(key, int) else "KeyError")
            parts.append(self._text_of(x, spec or "", {None: -1, "r": 114, "s": 115, "a": 97}[conv]))
        return _mk_str(parts)

    def _real_call(self, fn, args, kwargs, node):
        if fn is isinstance and len(args) == 2:
            return self._isinstance(args[0], args[1])
        owner = getattr(fn, "__self__", None)
        symbolic = any(_has_opaque(a) for a in args) or any(_has_opaque(a) for a in kwargs.values())
        if symbolic and isinstance(owner, str):
            # a text method of a constant of the code applied to unknown operands: a term, never computed
            if fn.__name__ == "format":
                return self._format_template(owner, args, kwargs)
            if fn.__name__ == "join" and len(args) == 1 and isinstance(args[0], (list, tuple)):
                parts = []
                for i, x in enumerate(args[0]):
                    if not isinstance(x, (str, _Op)):
                        raise _Raised("TypeError", node)
                    parts += ([owner] if i else []) + [x if isinstance(x, (str, _Str)) else _Obj("text", [x])]
                return _mk_str(parts)
            return _Obj("str." + fn.__name__, [owner] + list(args), kwargs, node)
        if symbolic and isinstance(owner, (bytes, bytearray)):
            return _Obj("bytes." + fn.__name__, [owner] + list(args), kwargs, node)
        if fn is str and len(args) == 1 and not kwargs and isinstance(args[0], _Op):
            return args[0] if isinstance(args[0], _Str) else _Obj("str", args, node=node)
        if fn is repr and len(args) == 1 and _has_opaque(args[0]):
            return _Obj("repr", args, node=node)
        if args and isinstance(args[0], _Seq) and (fn in (list, tuple, iter) or (fn in (sorted, reversed) and len(args[0].items) <= 1)):
            return args[0]  # the same entries in the same order
        if isinstance(owner, dict) and fn.__name__ in ("get", "pop", "setdefault") and args and _opaque(args[0]) and not any(k is args[0] for k in owner):
            # lookup with a symbolic key: known only when the key is unequal to every key of the mapping
            ne = ast.NotEq()
            if any(_opaque(k) or self._sym_cmp(ne, args[0], k) is not True for k in owner):
                return _Obj("dict." + fn.__name__, [owner] + list(args), kwargs, node)
        if fn is len and len(args) == 1 and isinstance(args[0], _Seq) and not kwargs:
            # length fact of the case: exactly the entries given / at least the entries given
            return len(args[0].items) if args[0].exact else _Len(len(args[0].items))
        if fn is dict and len(args) == 1 and not kwargs and isinstance(args[0], _Seq):
            args = [list(args[0].items)]  # the mapping of the entries considered
        if fn is enumerate and args and isinstance(args[0], _Seq):
            return _Seq([(_Op("index"), x) for x in args[0].items])
        if fn is getattr and len(args) >= 2 and isinstance(args[1], str):
            try:
                v = self.getattr(args[0], args[1], node)
            except (_Raised, Unknown):
                if len(args) == 3:
                    return args[2]
                raise
            if isinstance(v, _Attr) and len(args) == 3:
                return _Op("getattr")  # may be the default
            return v
        if fn is hasattr or fn is callable:
            if any(isinstance(a, _Op) for a in args):
                return True if fn is callable and isinstance(args[0], (_ClsRef, _FnRef, _Closure)) else _Op(fn.__name__)
        if fn in (len, repr, sorted, list, tuple, dict, set, frozenset, min, max, sum, int, bytes, bool, reversed, enumerate, zip, iter, next, any, all,
                  chr, ord, hex, abs, float, bytearray, range) and any(isinstance(a, _Op) for a in args):
            if fn is bool:
                return self.truth(args[0])
            if fn in (list, tuple, sorted, reversed, iter) and isinstance(args[0], _Op):
                return _Obj(fn.__name__, args, kwargs, node, recv=args[0])  # the same items: keeps where they come from
            return _Obj(getattr(fn, "__name__", "call"), args, kwargs, node)
        if fn is bool and args:
            return self.truth(args[0])
        if fn in (any, all) and args and not _opaque(args[0]):
            vals = [self.truth(x) for x in args[0]]
            return fn(vals)
        if fn in (iter, next):
            raise Unknown("iterator protocol")
        try:
            return fn(*args, **kwargs)  # constant folding / the code's own containers (their elements stay terms)
        except Exception as ex:
            if symbolic:
                return _Obj(getattr(fn, "__name__", "call"), args, kwargs, node)
            raise _Raised(type(ex).__name__, node)

    def _isinstance(self, v, t):
        ts = list(t) if isinstance(t, tuple) else [t]
        res = False
        if isinstance(v, _Str) or (isinstance(v, _Val) and v.kind is not None):
            # type-tag fact of the symbol: a text / a value of builtin type `kind`
            kt = str if isinstance(v, _Str) else _KIND_TYPES[v.kind]
            for x in ts:
                if isinstance(x, type):
                    res = res or issubclass(kt, x)
                elif not isinstance(x, (_ClsRef, _EnumCls)):
                    return _Op("isinstance")
            return res
        for x in ts:
            if isinstance(x, type):
                if isinstance(v, _EnumVal):
                    res = res or x in (int, object)
                elif isinstance(v, _Obj) and v.cls is not None:
                    res = res or x is object
                elif isinstance(v, _Op):
                    return _Op("isinstance")
                else:
                    res = res or isinstance(v, x)
            elif isinstance(x, _ClsRef):
                if isinstance(v, _Obj) and v.cls is not None:
                    res = res or any(c.name == x.name for _m, c in self._mro(v.cls))
                elif isinstance(v, _Op):
                    return _Op("isinstance")
            elif isinstance(x, _EnumCls):
                if isinstance(v, _EnumVal):
                    res = res or v.cls == x.name
                elif isinstance(v, _Op):
                    return _Op("isinstance")
            else:
                if isinstance(v, _Op) or not isinstance(v, _SAFE_TYPES):
                    return _Op("isinstance")
                # a class from outside the package (lark Tree/Token ...): plain data is not an instance of it
        return res

    def invoke(self, fnode, args, kwargs, closure_env, modname=None):
        """Follow a function of the package (or a nested function / lambda) with its parameters bound to the given terms."""
        if self.depth >= _DEPTH_LIMIT:
            raise Unknown("call depth")
        saved_mod = (self.modname, self.mod, self._globals)
        if modname is not None and modname != self.modname:
            self.modname, self.mod, self._globals = modname, self.ctx.repo.module(modname), {}
        self.depth += 1
        try:
            env = dict(closure_env or {})
            a = fnode.args
            pos = [x.arg for x in a.posonlyargs + a.args]
            args = list(args)
            kwargs = dict(kwargs)
            dfl = param_defaults(fnode)
            for i, p in enumerate(pos):
                if i < len(args):
                    env[p] = args[i]
                elif p in kwargs:
                    env[p] = kwargs.pop(p)
                elif p in dfl:
                    env[p] = self.eval(dfl[p], {})
                else:
                    raise _Raised("TypeError", fnode)
            extra = args[len(pos):]
            if a.vararg is not None:
                env[a.vararg.arg] = tuple(extra)
            elif extra:
                raise _Raised("TypeError", fnode)
            for k in a.kwonlyargs:
                if k.arg in kwargs:
                    env[k.arg] = kwargs.pop(k.arg)
                elif k.arg in dfl:
                    env[k.arg] = self.eval(dfl[k.arg], {})
                else:
                    raise _Raised("TypeError", fnode)
            if a.kwarg is not None:
                env[a.kwarg.arg] = kwargs
            elif kwargs:
                raise _Raised("TypeError", fnode)
            if isinstance(fnode, ast.Lambda):
                return self.eval(fnode.body, env)
            is_gen = any(isinstance(n, (ast.Yield, ast.YieldFrom)) for n in body_walk(fnode))
            mark = len(self.yields)
            try:
                self.block(fnode.body, env)
                ret = None
            except _Return as r:
                ret = r.value
            except (_Break, _Continue):
                raise Unknown("loop control outside a loop")
            if is_gen and self.depth > 1:
                ret, self.yields[mark:] = list(self.yields[mark:]), []
            return ret
        finally:
            self.depth -= 1
            self.modname, self.mod, self._globals = saved_mod

    # ------------------------------------------------------------------ assignment
    def assign(self, t, v, env):
        if isinstance(t, ast.Name):
            env[t.id] = v
        elif isinstance(t, (ast.Tuple, ast.List)):
            if any(isinstance(x, ast.Starred) for x in t.elts):
                raise Unknown("starred assignment")
            if _opaque(v):
                for i, x in enumerate(t.elts):
                    self.assign(x, _Op("unpacked") if isinstance(v, _Seq) else _Obj("item", [v, i]), env)
                return
            try:
                items = list(v)
            except TypeError:
                raise _Raised("TypeError", t)
            if len(items) != len(t.elts):
                raise _Raised("ValueError", t)
            for x, item in zip(t.elts, items):
                self.assign(x, item, env)
        elif isinstance(t, ast.Attribute):
            base = self.eval(t.value, env)
            if isinstance(base, _Obj):
                base.attrs[t.attr] = v
            elif isinstance(base, _ClsRef):
                self.class_stores.append((base.name, t.attr, v))
            elif not _opaque(base):
                raise Unknown("attribute store on data")
        elif isinstance(t, ast.Subscript):
            base = self.eval(t.value, env)
            idx = self._index(t.slice, env)
            if _opaque(base):
                return
            try:
                base[idx] = v
            except Exception as ex:
                raise _Raised(type(ex).__name__, t)
        else:
            raise Unknown("assignment target " + type(t).__name__)

    # ------------------------------------------------------------------ statements
    def block(self, stmts, env):
        for st in stmts:
            self.stmt(st, env)

    def stmt(self, st, env):
        self.nsteps += 1
        if self.nsteps > _STEP_LIMIT:
            raise Unknown("step limit")
        m = getattr(self, "s_" + type(st).__name__, None)
        if m is None:
            raise Unknown("statement " + type(st).__name__)
        m(st, env)

    def s_Expr(self, st, env):
        self.eval(st.value, env)

    def s_Pass(self, st, env):
        pass

    s_Global = s_Nonlocal = s_Import = s_ImportFrom = s_Assert = s_Delete = s_Pass

    def s_Assign(self, st, env):
        v = self.eval(st.value, env)
        for t in st.targets:
            self.assign(t, v, env)

    def s_AnnAssign(self, st, env):
        if st.value is not None:
            self.assign(st.target, self.eval(st.value, env), env)

    def s_AugAssign(self, st, env):
        load = copy.copy(st.target)
        load.ctx = ast.Load()
        cur = self.eval(load, env)
        v = self._binop(type(st.op), cur, self.eval(st.value, env), st, _IBINOPS)
        self.assign(st.target, v, env)

    def s_If(self, st, env):
        self.block(st.body if self.truth(self.eval(st.test, env)) else st.orelse, env)

    def s_Return(self, st, env):
        raise _Return(self.eval(st.value, env) if st.value is not None else None)

    def s_Raise(self, st, env):
        name = "Exception"
        if st.exc is not None:
            name = dotted(st.exc.func if isinstance(st.exc, ast.Call) else st.exc) or "Exception"
            if isinstance(st.exc, ast.Call):
                for a in st.exc.args:
                    self.eval(a, env)
        raise _Raised(name.split(".")[-1], st)

    def s_Break(self, st, env):
        raise _Break()

    def s_Continue(self, st, env):
        raise _Continue()

    def s_FunctionDef(self, st, env):
        env[st.name] = _Closure(st, env)

    def s_For(self, st, env):
        itv = self.eval(st.iter, env)
        if isinstance(itv, _Seq):
            items = list(itv.items)
        elif _opaque(itv):
            h = self.hooks.get("iter")
            items = h(self, st, itv) if h is not None else None
            if items is None:
                items = [_Op("item")]
        else:
            try:
                items = list(itv)
            except TypeError:
                raise _Raised("TypeError", st)
        broke = False
        for item in items:
            self.assign(st.target, item, env)
            try:
                self.block(st.body, env)
            except _Continue:
                continue
            except _Break:
                broke = True
                break
        if not broke:
            self.block(st.orelse, env)

    def s_While(self, st, env):
        """The body is analysed once (one symbolic iteration); a loop whose test stays constant-foldable and true after
        that would have to be run to be understood: not done."""
        tv = self.eval(st.test, env)
        if not self.truth(tv):
            self.block(st.orelse, env)
            return
        try:
            self.block(st.body, env)
        except _Continue:
            pass
        except _Break:
            return
        if _opaque(tv) or isinstance(st.test, ast.Constant):
            return
        again = self.eval(st.test, env)
        if _opaque(again):
            return
        if again:
            raise Unknown("a while loop over constants of the code needs more than one iteration")
        self.block(st.orelse, env)

    def s_With(self, st, env):
        for item in st.items:
            v = self.eval(item.context_expr, env)
            if item.optional_vars is not None:
                self.assign(item.optional_vars, v if _opaque(v) else _Op("context"), env)
        self.block(st.body, env)

    def s_Try(self, st, env):
        try:
            try:
                self.block(st.body, env)
            except _Raised as r:
                for h in st.handlers:
                    names = []
                    if h.type is not None:
                        names = [dotted(x) or "?" for x in (h.type.elts if isinstance(h.type, ast.Tuple) else [h.type])]
                    if h.type is None or r.name in names or "Exception" in names or "BaseException" in names:
                        if h.name:
                            env[h.name] = _Op("exception")
                        self.block(h.body, env)
                        break
                else:
                    raise
            else:
                self.block(st.orelse, env)
        finally:
            self.block(st.finalbody, env)


class _Res:
    def __init__(self, it: _Interp, ret=None, raised=None, env=None):
        self.it, self.ret, self.raised, self.env = it, ret, raised, env
        self.events, self.flags, self.yields = it.events, it.flags, it.yields


def _run_func(ctx, f, binding_factory, hooks=None, descend=True) -> List[_Res]:
    """Follow package function `f` on every path; binding_factory(walker) -> the terms its parameters are bound to."""

    def run(oracle):
        it = _Interp(ctx, f.module.name, oracle, hooks, descend)
        args = binding_factory(it)
        try:
            ret = it.invoke(f.node, args, {}, None)
            return _Res(it, ret=ret)
        except _Raised as r:
            return _Res(it, raised=r.name)
        except (Unknown, _Return, _Break, _Continue):
            raise
        except Exception as e:  # a construct the walker mishandles: nothing is claimed
            raise Unknown(f"walker failure {type(e).__name__}: {e}"[:120])

    return _paths(run)


# ============================================================================ shared observations
def _is_classmethod(f) -> bool:
    return any(dotted(d) == "classmethod" for d in f.node.decorator_list)


def _settings_enum(ctx) -> Dict[str, int]:
    return _enum_table(ctx).get("BeaconSetting", {})


def _generate(ctx, items) -> List[_Res]:
    """Walk C2Profile.from_beacon_config with its settings loop specialised to `items` = [(BeaconSetting member name,
    symbolic value)] (case analysis over the enum; the configuration parameter itself stays a symbol), on every path.  The
    settings loop is located by role: the loop with a pair target over something obtained from the configuration
    parameter.  Results carry flag "settings-loop" when it was found.  The values are immutable terms shared by all paths."""
    f = ctx.repo.func("c2profile.C2Profile.from_beacon_config")
    enum = _settings_enum(ctx)
    ps = params(f.node)
    if len(ps) < (2 if _is_classmethod(f) else 1):
        raise Unknown("signature of from_beacon_config")

    def on_iter(it, st, itv):
        if _root(itv) is it.cfg and "settings-loop" not in it.flags:
            if not (isinstance(st.target, (ast.Tuple, ast.List)) and len(st.target.elts) == 2 and all(isinstance(x, ast.Name) for x in st.target.elts)):
                raise Unknown("the loop over the configuration does not bind a (setting, value) pair")
            it.flags.add("settings-loop")
            return [(_EnumVal("BeaconSetting", k, enum[k]), v) for k, v in items]
        return None

    def binding(it):
        it.cfg = _Sym(ps[-1] if len(ps) <= 2 else ps[1])
        return ([_ClsRef("C2Profile")] if _is_classmethod(f) else []) + [it.cfg]

    fail = getattr(ctx, "_c13_generate_failure", None)
    if fail is not None:
        raise Unknown(fail)
    try:
        paths = _run_func(ctx, f, binding, {"iter": on_iter})
    except Unknown as e:
        if "paths" in str(e) or "limit" in str(e) or "loop over the configuration" in str(e):
            ctx._c13_generate_failure = str(e)  # a property of the function, not of the case: do not try again
        raise
    if not any("settings-loop" in r.flags for r in paths):
        ctx._c13_generate_failure = "the settings loop of from_beacon_config was not found"
        raise Unknown(ctx._c13_generate_failure)
    return paths


def _member_paths(ctx, member: str) -> List[_Res]:
    """The paths of from_beacon_config for a configuration that consists of the one setting `member` with a value nothing is
    known about (every branch on it is followed).  Walked once per check and shared by R1 and R13."""
    cache = ctx.__dict__.setdefault("_c13_member_paths", {})
    if member not in cache:
        try:
            cache[member] = _generate(ctx, [(member, _Free("value"))])
        except Unknown as e:
            cache[member] = e
    if isinstance(cache[member], Unknown):
        raise cache[member]
    return cache[member]


def _prim_events(res: _Res, cls: Optional[str] = None, prims=None) -> List[_Ev]:
    """Builder primitive calls (on objects of package class `cls`) observed on a path."""
    out = []
    for ev in res.events:
        if ev.prim is None or not isinstance(ev.recv, _Obj) or ev.recv.cls is None:
            continue
        if cls is not None and ev.recv.cls != cls:
            continue
        if prims is not None and ev.prim not in prims:
            continue
        out.append(ev)
    return out


def _ev_name(ev: _Ev):
    """The tree name a primitive call emits (first argument / `option` keyword; fixed for _header/_parameter)."""
    if ev.prim in HELPER_FIXED_NAME:
        return HELPER_FIXED_NAME[ev.prim]
    return ev.args[0] if ev.args else ev.kwargs.get("option")


def _ev_value(ev: _Ev):
    return ev.args[1] if len(ev.args) > 1 else ev.kwargs.get("value", ev.kwargs.get("config_block"))


def _attachments(res: _Res, child) -> List[Tuple[_Obj, str, str]]:
    """(parent object, primitive, name) of every attach call that hands `child` to a parent block."""
    out = []
    for ev in _prim_events(res, prims=ATTACH):
        if _ev_value(ev) is child:
            out.append((ev.recv, ev.prim, _ev_name(ev)))
    return out


# ---------------------------------------------------------------------------- grammar lookups (structural)
# The names of most grammar rules never reach a parse tree: lark names a node after the alias of the alternative, so a rule
# all of whose alternatives carry an alias (`?value`, `http_get_client_options`, `postex_options`, `execute_options` ...)
# can be renamed freely.  Nothing below therefore looks such a rule up by its name.  A rule is addressed by what IS
# observable: the path of block aliases (tree names) that leads to it from the start symbol, or - for the two parts of a
# data transform - the un-aliased rules `steps` / `termination`, whose names are the tree names DataTransformBlock.tree
# builds.
#
# builder class -> where the children it collects appear in a profile, as paths of block aliases from the top level
# (reference: the class docstrings - "`.http-{stager,get,post}.{client,server}` block" ... - and the Malleable C2 layout).
BUILDER_PATHS = {
    "C2Profile": [()],
    "HttpOptionsBlock": [("http_stager", "client"), ("http_stager", "server"), ("http_get", "client"), ("http_get", "server"),
                         ("http_post", "client"), ("http_post", "server")],
    "HttpConfigBlock": [("http_config",)],
    "HttpStagerBlock": [("http_stager",)],
    "HttpGetBlock": [("http_get",)],
    "HttpPostBlock": [("http_post",)],
    "StageBlock": [("stage",)],
    "StageTransformBlock": [("stage", "transform_x86"), ("stage", "transform_x64"), ("process_inject", "transform_x86"), ("process_inject", "transform_x64")],
    "ProcessInjectBlock": [("process_inject",)],
    "PostExBlock": [("post_ex",)],
    "DnsBeaconBlock": [("dns_beacon",)],
    "HttpBeaconBlock": [("http_beacon",)],
    "ExecuteOptionsBlock": [("process_inject", "execute")],
    "BeaconGateBlock": [("stage", "beacon_gate")],
}
DATA_TRANSFORM = "data_transform"  # un-aliased rule: its name is the tree name DataTransformBlock.tree builds


def _gcache(g: Grammar) -> dict:
    c = getattr(g, "_c13_cache", None)
    if c is None:
        c = g._c13_cache = {}
    return c


def _alts(g: Grammar, origin: str, _seen=None) -> list:
    """The alternatives of rule `origin` as they can show up in a parse tree: an alternative without an alias that is a
    unit production `x: y` of a rule lark inlines (`?x` with its single child, `_x` always) leaves no node of its own -
    the node is the one the alternatives of `y` make - so it stands for the alternatives of `y` (followed transitively;
    a rule that was a copy of another one and now refers to it, or a rule split into named groups of alternatives, reads
    the same).  Every other alternative is returned as it is."""
    seen = _seen if _seen is not None else set()
    if origin in seen:
        return []
    seen.add(origin)
    out = []
    for r in g.alternatives(origin):
        # (`?x: y*` keeps its own node unless there is exactly one y: only `_x` is transparent over a repetition helper)
        transparent = r.alias is None and len(r.expansion) == 1 and not r.expansion[0].is_term and \
            (origin.startswith("_") or (r.expand1 and not r.expansion[0].name.startswith("__")))
        if transparent:
            for o in sorted(g.expand_star(r.expansion[0].name)):
                out += _alts(g, o, seen)
        else:
            out += _spliced(g, r)
    return out


_SPLICE_LIMIT = 32


def _spliced(g: Grammar, r, _seen=frozenset()) -> list:
    """Alternative `r` with the symbols of the rules lark splices into their parent written out in place: a non-terminal
    whose name starts with one underscore (`_x`, an instance `_t{..}` of a rule template) leaves no node of its own -
    lark's child filter puts its children where the symbol stands - so what the node of `r` is made of (its keywords, its
    `string` children, its braces) is the expansion with every such symbol replaced by the expansion of its rule (one copy
    of `r` per combination of alternatives of the spliced rules; origin, alias and position stay those of `r`).  The
    repetition helpers (`__x_star_n`: recursive) and recursive rules are left as they are, and so is `r` when there would
    be more than _SPLICE_LIMIT copies."""
    from csverif.grammar import GRule

    def splice(sym):
        return (not sym.is_term) and sym.name.startswith("_") and not sym.name.startswith("__") and sym.name not in _seen

    if not any(splice(s) for s in r.expansion):
        return [r]
    variants = [[]]
    for s in r.expansion:
        if not splice(s):
            for v in variants:
                v.append(s)
            continue
        subs = []
        for a in g.alternatives(s.name):
            subs += _spliced(g, a, _seen | {s.name})
        if not subs or len(subs) * len(variants) > _SPLICE_LIMIT:
            return [r]
        variants = [v + list(a.expansion) for v in variants for a in subs]
    return [GRule(r.origin, r.alias, v, r.expand1, r.order) for v in variants]


def _top_origins(g: Grammar) -> Set[str]:
    """The rule(s) whose alternatives are the top-level statements: the body of the start symbol (the start symbol is an
    option of the Lark.open call / lark's default and the name of the root node)."""
    c = _gcache(g)
    if "top" not in c:
        start = g.options.get("start", "start")
        out: Set[str] = set()
        for s in (start if isinstance(start, (list, tuple)) else [start]):
            for r in _alts(g, s):
                out |= g.body_origins(r)
        c["top"] = out
    return set(c["top"])


def _body_of(g: Grammar, path) -> Set[str]:
    """The rule(s) that make up the body of the block reached from the top level through the block aliases in `path`
    (empty path: the top level itself).  Rules are found by the alias of the alternative that opens the block, never by
    their own name."""
    c = _gcache(g)
    key = ("body", tuple(path))
    if key not in c:
        origins = _top_origins(g)
        for alias in path:
            nxt: Set[str] = set()
            for o in sorted(origins):
                for r in _alts(g, o):
                    if r.alias == alias and g.is_block(r):
                        nxt |= g.body_origins(r)
            origins = nxt
        c[key] = origins
    return set(c[key])


def _origins_of(g: Grammar, cls: str) -> List[str]:
    """Grammar rule(s) whose alternatives may appear among the children of builder class `cls`."""
    if cls == "DataTransformBlock":
        return [DATA_TRANSFORM]
    out: Set[str] = set()
    for path in BUILDER_PATHS.get(cls, ()):
        out |= _body_of(g, path)
    return sorted(out)


def _part_origins(g: Grammar, part: str) -> List[str]:
    """The rule(s) whose alternatives are the statements of a data transform's `steps` / `termination` part."""
    out: Set[str] = set()
    for r in _alts(g, part):
        out |= g.body_origins(r)
    return sorted(out)


def aliases_of(g: Grammar, origins) -> Dict[str, Set[int]]:
    """alias -> set of string arities, over the non-block alternatives of the given rules."""
    out: Dict[str, Set[int]] = {}
    for o in origins:
        for r in _alts(g, o):
            if r.alias and not g.is_block(r):
                out.setdefault(r.alias, set()).add(g.string_arity(r))
    return out


def block_aliases_of(g: Grammar, origins) -> Dict[str, Set[str]]:
    """block alias -> the rule(s) of the block's body, over the block alternatives of the given rules."""
    out: Dict[str, Set[str]] = {}
    for o in origins:
        for r in _alts(g, o):
            if r.alias and g.is_block(r):
                out.setdefault(r.alias, set()).update(g.body_origins(r))
    return out


def _alternatives_of(g: Grammar, origins) -> list:
    return [r for o in origins for r in _alts(g, o)]


def _nullable(g: Grammar, origin: str) -> bool:
    """Can rule `origin` derive the empty sequence of tokens?  (least fixpoint over the compiled rules)"""
    c = _gcache(g)
    if "nullable" not in c:
        nul: Set[str] = set()
        changed = True
        while changed:
            changed = False
            for r in g.rules:
                if r.origin not in nul and all((not s.is_term) and s.name in nul for s in r.expansion):
                    nul.add(r.origin)
                    changed = True
        c["nullable"] = nul
    return origin in c["nullable"]


def run(ctx):
    rep = ctx.rep
    rep.explanation = (
        "Static analysis of C2Profile.from_beacon_config and the builder classes against the compiled grammar: every tree "
        "name a builder call site can emit is an alias of matching arity in the rule of the block it is emitted into; the "
        "generator, the builder constructors and the BeaconGate / execute-list producers in beacon.py are followed path by "
        "path over the parsed AST with symbolic parameters, their dispatchers specialised per member of the finite "
        "vocabularies of the code and the reference tables (BeaconSetting and InjectExecutor members, BeaconGate field and "
        "group names, transform / recover opcode names, build selectors) with the entry's arguments kept symbolic: each "
        "entry the producer can emit is taken through the consumer and the emitted builder call is looked up, as a term, in "
        "the grammar (alias, keyword, arity; grammar rules are addressed by the block-alias path that leads to them, never by "
        "a rule name that cannot reach the tree); the term in which a byte argument reaches a block must be the argument itself "
        "or an escape-encoding of it (repr(argument)[2:-1], repr pinned by a constant with a double quote, the unicode_escape codec chain) "
        "and must not be a decoding, nor a decoding followed by a character-wise "
        "mapping (translate with a constant table / single-character replace) that leaves the backslash raw; an argument the generator has "
        "already escaped is composed with the path of the literal encoder value_to_string its type takes (read from the analysed function): "
        "no rewrite on that path may match anything but a whole token the escaper emitted - an escaper that can leave the apostrophe "
        "unescaped (unpinned repr, unicode_escape) must not meet a rewrite of backslash + apostrophe, which would split an escaped backslash; the http-get / "
        "http-post and x86 / x64 sibling "
        "settings must render every kind of entry into equal terms and as the opcode tables prescribe; add_step / "
        "add_termination attach the argument in both nullness cases as required; blocks are attached only when non-empty "
        "(CFG dominance); for every sequence-valued setting the case of a value without entries is followed: generation must "
        "not raise and neither a child-less block nor a data-transform block without statements (not derivable from the "
        "grammar) may reach the returned profile; an option whose value is joined from a sequence (the URI list) has only text elements - element nullness is "
        "followed into beacon.py, where the pairing helper pads with None - and is only stated under a non-emptiness test of that sequence; the statement of an "
        "executor with an argument states the text between the quotes of the entry unchanged; every opcode of the recover table is rendered, on every path, into "
        "the one step of the http-get server output block; for every setting taken alone with content (and for two settings together when "
        "their branches attach or fill a builder object made at the same place of the code) whatever is put into a builder object must be "
        "linked to the returned profile by attachments that are made - the emptiness test of set_non_empty_config_block is evaluated "
        "where it is called, so a block must be complete before it is tested - and no builder object may be attached twice (R13); "
        "the text of the profile is the reconstruction of that tree with every token "
        "passed on unchanged by the whitespace post-processor of as_text, and from_text parses the text it is given (R12 = the "
        "obligations of C10.R3: a rewrite of the laid-out line also rewrites the inside of quoted values); the STRING terminal "
        "of the grammar, read on its parsed regex syntax tree as a prioritised automaton over its own character classes, is "
        "composed with the regular language of the text the generator writes around a byte argument (quote, escape-encoded "
        "argument, quote, then separators and further literals): at the closing quote of every such literal - in particular one "
        "whose content ends in an escaped backslash or contains escaped quotes - a match must be recorded and no thread of "
        "higher priority may carry the token on to a later quote (R14; reachability in the product graph, no text is matched)."
    )
    rep.not_decided = ["equality of the parsed-back values for all configurations", "options the generator chooses to skip",
                       "escaping of static header/parameter decorations (raw text on both sides of the round trip)",
                       "byte arguments that reach a block through any function other than identity, the three byte-wise escapers (unpinned / pinned repr slice, unicode_escape "
                       "codec chain), a decoding, or a decoding followed by character-wise "
                       "mappings with constant operands (undecided, not judged); of a character-wise mapping only the image of the backslash (R4) and of the characters "
                       "a rewrite of the encoder's str path names (R11) is judged",
                       "R11: the bytes path of value_to_string (C12.R1), that the tokens an escaper emits are read back by the decoder (C12.R2 / R3), which encoder makes the STRING "
                       "tokens of a builder (C11.R6: a builder that does not hand the value itself to value_to_string is undecided), rewrites of the str path other than "
                       "backslash + X / the backslash alone / the quote escape (undecided); str-valued settings and the decoded static header / parameter lines (raw text)",
                       "that a data-transform block has exactly one termination statement (only the block without any statement is judged, R10)",
                       "R10 c / d: options built from a sequence by other means than `<constant>.join(..)` handed to set_option (undecided when none is located); element nullness that cannot be followed "
                       "to a source by the transfer rules (undecided); elements that are not None but not text either",
                       "R3 argument: values that reach the statement through functions other than slicing / partition of the entry and the character rewriters the walker distributes (undecided)",
                       "R5 recover: the text of the placeholder beyond its length; functions of the length other than <one character> * length (undecided)",
                       "equality of two different encodings of the same argument in sibling settings (undecided; each is judged by R4)",
                       "interaction of several entries of one program beyond a BUILD entry followed by a step (order, repetition): "
                       "only the per-entry effect and the kind of container the lines are collected in are judged",
                       "the text rendering of the built tree beyond token preservation by as_text / from_text (R12 = C10.R3): the keywords lark's reconstructor writes for a "
                       "tree node (C10.R1) and the literal encoding of values (C11 / C12)",
                       "R13: configurations of three and more settings, and of two settings whose branches share no construction site; that a statement put into a block AFTER the "
                       "block was attached still shows up in the profile (it does as long as set_config_block hands the child's list over by reference; on the current tree every block is "
                       "complete when it is attached); content skipped under a test on the very value that was put there (the generator may choose to skip falsy values); "
                       "attachments made by other means than the builder primitives / constructor keywords (undecided)",
                       "R2: attributes installed on a builder class by code the walker cannot follow (a decorator from outside the package, computed names): a failed lookup is undecided",
                       "R14: literals of str-valued settings and of the decoded static header / parameter lines (raw text: a backslash or quote in them is not escaped by the generator - "
                       "not judged), literals with characters outside printable ASCII or with a raw newline; STRING patterns with constructs the automaton does not model (undecided); "
                       "which terminal the lexer tries at an opening quote when several could start there (C12.R4 checks that STRING is the only quoted-literal terminal); that the "
                       "decoder reads the token back (C12.R2 / R3)"]
    rep.trusted_base = ["lark grammar loader", "CPython ast", "reference BeaconGate/opcode/executor-spelling tables (csverif.tables, _CS_SPELLING, _ARG_EXECUTORS, _DECORATIONS)",
                        "the symbolic walker of rules/c13.py (path-wise value flow; models builtin containers the code builds, nothing is computed from unknown data)",
                        "summary of the ConfigBlock primitives used for `block.tree.children` tests: set_option / _enable / set_config_block add one child, a pair primitive one per line, "
                        "set_non_empty_config_block one iff the child has children at the time it is called; the node an attach primitive / a block-valued constructor keyword makes is made "
                        "from the child's own child list (R13: a link that was not made never shows the child, one object attached twice gives two nodes with the same statements)",
                        "R13: every combination of truth values of independent inputs (the symbolic arguments of a case, the free value of a setting) is a possible configuration; builder "
                        "objects of different walks are matched by the constructor call that makes them",
                        "_content_cases (R13): the values a setting is followed with - a free value, or one entry per kind of the vocabularies of R3 - R5 / R10 for the sequence-valued settings",
                        "argument kinds of program entries: flag opcodes carry True, valued opcodes a bytes value, transform keys a bytes value",
                        "text lemmas S1-S6 on concatenations with constant segments (substring of a segment; first occurrence inside the leading segment; equality refuted by "
                        "prefix / suffix / constant length; slicing inside the outer segments; case mapping distributes; prefix / suffix decided by the outer segments)",
                        "lemma E1: for b: bytes, repr(b)[2:-1] is the escape-encoded body of the bytes literal (every byte spelled as itself or as a backslash escape; what the literal "
                        "encoder value_to_string then does to that text - the bare double quote, the \\' pair or plain apostrophe it can contain - is judged by R11 for the path the text takes, and by C12.R1 for bytes)",
                        "lemmas E1 / E1b / E1c (= L1 / L1b of rules/c12.py): CPython's repr(bytes) picks the double-quote delimiter exactly for a value with ' and without \" and then leaves "
                        "the apostrophe unescaped, never escapes the double quote, and is pinned to the single-quote style by a concatenated constant that contains a double quote; the "
                        "unicode_escape codec over the latin-1 decoding leaves both quotes plain; all of them write the backslash byte as two backslashes and a backslash only ever starts a token (E4)",
                        "lemmas E5 - E7 (E5 = L2b of rules/c12.py, evaluated by its `_splits_escaped_backslash`): left-to-right, non-overlapping str.replace; the STRING decoder reads a backslash "
                        "byte from two backslashes or backslash x5c only",
                        "R11 reads the rewrites of value_to_string from the encoder analysis of rules/c12.py (`_encoder_paths` under the named assumption that the argument is a str; its trusted base applies); "
                        "the builder primitives are followed with the handed value symbolic (type tag only)",
                        "lemma E2: b.decode(codec) / str(b, codec) leaves backslash, quote and control bytes as raw characters (not an escape-encoding)",
                        "lemma E3: str.translate(T) replaces a character c by T[ord(c)] when T has the integer key ord(c) (None deletes, an integer stands for that character) and keeps it "
                        "otherwise - one-character string keys are never consulted; str.replace(a, b) with a one-character a acts on each character on its own; so the image of a backslash "
                        "under a chain of such operations is found from the constants alone; the STRING token decoder reads \\\\, \\x5c as one backslash and a raw backslash as the start of an escape",
                        "lemma K: a dict / set or a view of one holds one entry per key, so lines collected in it lose repeated names",
                        "BUILDER_PATHS (builder class -> block-alias paths of the blocks it fills; reference: class docstrings / Malleable C2 layout) and the tree names `steps`, `termination`, "
                        "`data_transform` of a data transform; _SEQUENCE_SETTINGS (settings whose value is a list of entries; reference: the list-returning producers of beacon.SETTING_TO_PRETTYFUNC); "
                        "the value of such a setting is a Python list (so the empty one equals [])",
                        "length facts: a sequence that holds the entries of a case has length >= their number; the empty sequence has length 0",
                        "lark tree shaping: an un-aliased unit production of a `?rule` (single child) or `_rule` leaves no node of its own, the node is the one its child makes (`_alts`); "
                        "the children of a `_rule` / a template instance `_t{..}` are spliced into the parent's node (ChildFilter expands non-terminals whose name starts with an underscore), "
                        "so an alternative is read with such symbols replaced by their expansions (`_spliced`)",
                        "R3 argument: the execute-list entry of an executor with an argument has the form <keyword> \"<argument>\" (reference: the `CreateThread \"module!function+0x10\"` statement); "
                        "the argument is arbitrary printable text, so a single-character replace with different operands / a case mapping changes some argument",
                        "R5 recover: argument kinds of recover entries - flag opcodes carry the object True, prepend / append an int length that is not a bool; every outcome of a test that these facts "
                        "do not decide is a possible configuration (e.g. length 1 == True, length 0 is falsy); lemma R: <one character> * n is a text of length n",
                        "R10 c: transfer rules of the element-nullness analysis (list / tuple / sorted / set / dict.fromkeys keep the elements; split / rsplit / splitlines give text pieces; "
                        "itertools.zip_longest pads shorter inputs with its fill value, None by default; text operations return text; `x is not None` / truthiness filters); str.join raises "
                        "TypeError for a None element; R10 d: a non-empty joined text has at least one element",
                        "python class construction: class decorators are applied bottom-up to the finished class; setattr(C, name, v) / C.name = v bind the attribute after the body",
                        "R12 re-emits the obligations of rules/c10.py `r3` (C10.R3); its trusted base (lark Reconstructor.reconstruct / postproc contract, lemmas L1-L4, LT, LX, assumptions A1, A2) applies",
                        "R14 lemma P: CPython's re returns the leftmost-first match - equivalently, threads kept in priority order (left alternative first, a greedy repeat prefers "
                        "another round, a lazy one the exit), a match recorded when a thread reaches the end of the pattern, threads of lower priority dropped at that moment, the last "
                        "recorded match returned; lark's LALR (contextual) lexer applies the terminal's compiled pattern at the position of the opening quote with re.match; a helper "
                        "terminal / concatenation of a terminal definition is compiled by lark into one pattern (the value read from the loaded grammar)",
                        "R14 lemma E4 as a language: every sequence of the tokens `printable ASCII character other than quote and backslash`, backslash backslash, backslash quote, "
                        "backslash + n / r / t (the control-character letters of csverif.tables.ESCAPES), backslash x + two lower-case hex digits is the content of the literal "
                        "value_to_string writes for some byte argument (arbitrary byte arguments; R4 / R11 / C12.R1 judge that the generator and the encoder are such an escaper); in a "
                        "generated profile a literal is followed by `;` or a space, then by separators (`;`, space, newline, lower-case letters) and further literals; characters of one "
                        "atom of the abstract alphabet are interchangeable for the pattern and for this language",
                        "nullness / type-tag facts: a value that is not None is not `None`; a bytes / str / int value is not the object True / False and is unequal to values of unrelated builtin types"]
    g = Grammar(ctx.repo)
    r1(ctx, g)
    r2(ctx, g)
    r3(ctx, g)
    sites = r4_r5(ctx)
    r11(ctx, sites)
    r6(ctx)
    r8(ctx)
    r9(ctx, g)
    r10(ctx, g)
    r13(ctx)
    r14(ctx, g)
    from rules import c03

    c03.r6(ctx, rule="R7")
    r12(ctx, g)


# ---------------------------------------------------------------------------- R12
def r12(ctx, g=None):
    """The *text* of the generated profile is the rendering of the tree the generator built, token for token: the profile
    states the configured values only if C2Profile.as_text returns the reconstruction of the profile's own tree by the
    module's parser, the whitespace post-processor handed to the reconstructor passes every token of the stream on
    unchanged, once and in order (a rewrite of the laid-out line - replace / strip / case mapping on the joined text or on
    an item - also rewrites the inside of a quoted value: the text stays valid but no longer states the user agent,
    header or transform argument of the configuration), and from_text parses the very text it is given with the same
    parser.  These are the obligations of C10.R3 (rules/c10.py `r3`: inductive value-flow argument over one iteration of
    the post-processor's loop; its devices and trusted base are declared there); they are necessary conditions of this
    property as well and are re-emitted here under R12.  Undecided when that rule cannot be evaluated."""
    where = ctx.repo.func("c2profile.C2Profile.as_text") if ctx.repo.has_func("c2profile.C2Profile.as_text") else "c2profile.py"
    text = "token preservation of the text renderer"
    try:
        from rules import c10

        fn = c10.r3
    except Exception as e:  # the other module is not loadable at the moment: nothing is claimed
        ctx.undecided("R12", "TAINT", where, text, f"rules/c10.py `r3` (C10.R3) cannot be imported: {type(e).__name__}: {e}"[:300])
        return
    from csverif import AnalysisError

    try:
        n = ctx.import_obligations("R12", fn, g)
    except AnalysisError:
        raise
    except Exception as e:
        ctx.undecided("R12", "TAINT", where, text, f"rules/c10.py `r3` (C10.R3) failed: {type(e).__name__}: {e}"[:300])
        return
    if not n:
        ctx.undecided("R12", "TAINT", where, text, "C10.R3 recorded no obligation: the renderer and its post-processor were not located")


# ---------------------------------------------------------------------------- R1
def _block_class(ctx, f, recv: ast.AST) -> Optional[str]:
    t = ctx.rs.expr_type(f, recv)
    if t and t.startswith("c2profile."):
        return t.split(".", 1)[1]
    if isinstance(recv, ast.Name) and recv.id == "cls" and f.cls:
        return f.cls
    return None


def _const_names(f, e: Optional[ast.AST]) -> Optional[List[str]]:
    """The constant strings expression `e` can evaluate to (through single-definition temporaries and conditional
    expressions); None when it is computed."""
    if e is None:
        return None
    e = inline(f.node, e)
    if isinstance(e, ast.IfExp):
        a, b = _const_names(f, e.body), _const_names(f, e.orelse)
        return a + b if a is not None and b is not None else None
    v = _c(e)
    return [v] if isinstance(v, str) else None


def _primitive_of(ctx, cls: str, attr: str) -> Optional[str]:
    """Builder primitive behind `<object of class cls>.attr` (direct method or class-level alias), by class lookup."""
    it = _Interp(ctx, "c2profile", _Oracle())
    m = it.method(cls, attr)
    return m[1] if m is not None and m[0] == "prim" else None


def _call_arg(c: ast.Call, idx: int, name: str) -> Optional[ast.AST]:
    if len(c.args) > idx and not any(isinstance(a, ast.Starred) for a in c.args[: idx + 1]):
        return c.args[idx]
    return kwarg(c, name)


def _check_site(ctx, g: Grammar, f, cls: str, m: str, name: str, ccls: Optional[str], node, seen: Set[str]):
    """One builder primitive `m` called on a block of class `cls` with the constant tree name `name` (attach calls: the
    child block has class `ccls`): the grammar must have that alias, with that arity / body, in the rule of the block."""
    top = block_aliases_of(g, _top_origins(g))
    if cls == "C2Profile":
        text = f"profile.{m}({name!r})"
        if text in seen:
            return
        seen.add(text)
        if m == "set_option":
            ok = name in set(g.option_values())
            ctx.ob("R1", "VOCAB", f, text, ok, f"global option {name!r} " + ("is" if ok else "is NOT") + " an alternative of the OPTION terminal", node)
        elif m in ATTACH:
            ok = name in top
            ctx.ob("R1", "GRAM", f, text, ok, f"top-level block {name!r} " + ("is" if ok else "is NOT") + " a block alias among the grammar's top-level statements", node)
        else:
            ctx.ob("R1", "GRAM", f, text, False, f"the grammar has no top-level statement built by {m}", node)
        return
    text = f"{cls}.{m}({name!r})"
    if text in seen:
        return
    seen.add(text)
    if cls not in BUILDER_PATHS:
        ctx.ob("R1", "GRAM", f, text, False, f"builder class {cls} has no place in a profile (no block-alias path)", node)
        return
    origins = _origins_of(g, cls)
    if not origins:
        ctx.undecided("R1", "GRAM", f, text, f"the block(s) {BUILDER_PATHS[cls]} that builder class {cls} fills are not reachable through block aliases of the grammar: its rule cannot be located", node)
        return
    if m in ATTACH:
        ba = block_aliases_of(g, origins)
        ok = name in ba
        body_ok = True
        want = None
        if ok and ccls:
            want = set(_origins_of(g, ccls))
            body_ok = not want or bool(want & ba[name])
        ctx.ob("R1", "GRAM", f, text, ok and body_ok,
               f"{cls} child block {name!r}: block alias in {origins}={ok}; child {ccls} emits alternatives of {sorted(want) if want else '?'} and the grammar body is {sorted(ba.get(name, []))}", node)
    else:
        al = aliases_of(g, origins)
        ar = PRIM_ARITY[m]
        ok = name in al and ar in al[name]
        ctx.ob("R1", "GRAM", f, text, ok, f"{cls}.{m} emits {name!r} with {ar} string(s); rules {origins} " + (f"have it with arities {sorted(al[name])}" if name in al else "have no such alias"), node)


def _build_selectors(ctx) -> Optional[Set[str]]:
    """The block names a BUILD entry of a client transform program can carry, located by role in parse_transform_binary:
    the constant strings of the mapping(s) that also hold the function's build-selector parameter, that parameter's
    default, and the values bound to it in the pretty-printer table.  None when there is no such parameter."""
    ptb = ctx.repo.func("beacon.parse_transform_binary")
    tbl = ctx.repo.const("beacon.SETTING_TO_PRETTYFUNC")
    sel: Set[str] = set()
    dfl = param_defaults(ptb.node)
    sel_params = [p for p in params(ptb.node) if isinstance(_c(dfl.get(p)), str)]
    for p in sel_params:
        sel.add(_c(dfl[p]))
        for n2 in body_walk(ptb.node):
            if isinstance(n2, ast.Dict) and any(isinstance(v, ast.Name) and v.id == p for v in n2.values):
                sel.update(_c(v) for v in n2.values if isinstance(_c(v), str))
        for v in (tbl.values if isinstance(tbl, ast.Dict) else []):
            if isinstance(v, ast.Call) and isinstance(_c(kwarg(v, p)), str):
                sel.add(_c(kwarg(v, p)))
    return sel if sel_params else None


def r1(ctx, g: Grammar):
    f = ctx.repo.func("c2profile.C2Profile.from_beacon_config")
    n = 0
    seen: Set[str] = set()
    for c in fn_calls(f.node):
        if not isinstance(c.func, ast.Attribute):
            continue
        recv = c.func.value
        cls = _block_class(ctx, f, recv)
        if cls is None:
            continue
        m = _primitive_of(ctx, cls, c.func.attr)
        if m is None:
            continue
        if m in HELPER_FIXED_NAME:
            names = [HELPER_FIXED_NAME[m]]
        else:
            names = _const_names(f, _call_arg(c, 0, "option"))
        if names is None:
            continue  # computed names: see the per-member specialisation below, R2/R3/R5 and the build-selector check
        n += 1
        child = _call_arg(c, 1, "config_block") if m in ATTACH else None
        ccls = _block_class(ctx, f, child) if child is not None else None
        for name in names:
            _check_site(ctx, g, f, cls, m, name, ccls, c, seen)
    # the same check on the settings loop specialised per BeaconSetting member (value symbolic: every branch on it is
    # followed): covers names that come out of tables, helpers or computed expressions
    for k in sorted(_settings_enum(ctx)):
        try:
            paths = _member_paths(ctx, k)
        except Unknown:
            continue
        for res in paths:
            for ev in _prim_events(res, prims=PRIMS):
                name = _ev_name(ev)
                if isinstance(name, str):
                    child = _ev_value(ev) if ev.prim in ATTACH else None
                    before = len(seen)
                    _check_site(ctx, g, f, ev.recv.cls, ev.prim, name, child.cls if isinstance(child, _Obj) else None, ev.node, seen)
                    n += len(seen) - before
    ctx.rep.count("builder_call_sites", n, floor=40)
    # constructor keywords: HttpOptionsBlock(output=DataTransformBlock(...))
    for c in fn_calls(f.node):
        cal = ctx.rs.resolve_call(f, c)
        if cal.kind == "class" and cal.fq.startswith("c2profile.") and c.keywords:
            cls = cal.fq.split(".", 1)[1]
            origins = _origins_of(g, cls)
            if not origins:
                continue
            for k in c.keywords:
                if k.arg is None or k.arg == "steps":
                    continue
                ba, al = block_aliases_of(g, origins), aliases_of(g, origins)
                ccls = _block_class(ctx, f, k.value)
                ok = (k.arg in ba) if ccls else (k.arg in al)
                ctx.ob("R1", "GRAM", f, f"{cls}({k.arg}=...)", ok, f"constructor keyword {k.arg!r} is a {'block ' if ccls else ''}alias of {origins}={ok}", c)
    # computed block names: the build selectors that parse_transform_binary can emit
    ptb = ctx.repo.func("beacon.parse_transform_binary")
    sel = _build_selectors(ctx)
    if sel is None:
        sel = set()
        ctx.undecided("R1", "VOCAB", ptb, "build selectors", "parse_transform_binary has no string-valued selector parameter any more: the block names it emits cannot be located")
    clients = [block_aliases_of(g, _body_of(g, path)) for path in (("http_get", "client"), ("http_post", "client"))]
    for s in sorted(sel):
        ok = all(s in ba and DATA_TRANSFORM in ba[s] for ba in clients)
        ctx.ob("R1", "VOCAB", f, f"client block {s!r}", ok, f"build selector {s!r} names a data-transform block of the http-get and http-post client blocks={ok}")
    # step names the transform parser can emit are accepted by DataTransformBlock / the grammar
    tr, te = aliases_of(g, _part_origins(g, "steps")), aliases_of(g, _part_origins(g, "termination"))
    if not tr or not te:
        ctx.undecided("R1", "VOCAB", f, "step names", "the statements of the `steps` / `termination` parts of a data transform cannot be located in the grammar")
        return
    for nme in sorted(tables.STEPS_NO_ARG):
        low = nme.lower()
        ok = (low in tr and 0 in tr[low]) or (low in te and 0 in te[low])
        ctx.ob("R1", "VOCAB", f, f"step {low}", ok, f"flag step {low!r} is a no-argument transform/termination alias={ok}", nontrivial=False)
    for nme in sorted(tables.STEPS_LEN_ARG - {"_HEADER", "_PARAMETER", "_HOSTHEADER"}):
        low = nme.lower()
        ok = (low in tr and 1 in tr[low]) or (low in te and 1 in te[low])
        ctx.ob("R1", "VOCAB", f, f"step {low}", ok, f"valued step {low!r} is a one-argument transform/termination alias={ok}", nontrivial=False)


# ---------------------------------------------------------------------------- R2
def _emitted_strings(fn: ast.AST) -> Set[str]:
    """String constants a function puts into a collection / yields / returns inside a list (not messages, not keys)."""
    out: Set[str] = set()

    def consts(e):
        for x in ast.walk(e):
            if isinstance(x, ast.Constant) and isinstance(x.value, str):
                out.add(x.value)

    for n in body_walk(fn):
        if isinstance(n, ast.Call) and isinstance(n.func, ast.Attribute) and n.func.attr in ("append", "extend", "insert", "add", "appendleft"):
            for a in n.args:
                if isinstance(a, (ast.Constant, ast.List, ast.Tuple, ast.IfExp)):
                    consts(a)
        elif isinstance(n, (ast.Yield, ast.YieldFrom)) and n.value is not None and isinstance(n.value, (ast.Constant, ast.List, ast.Tuple, ast.IfExp)):
            consts(n.value)
        elif isinstance(n, ast.AugAssign) and isinstance(n.value, (ast.List, ast.Tuple)):
            consts(n.value)
        elif isinstance(n, ast.Return) and n.value is not None:
            for x in ast.walk(n.value):
                if isinstance(x, ast.List):
                    for e in x.elts:
                        if isinstance(e, ast.Constant):
                            consts(e)
    return out


def r2(ctx, g: Grammar):
    prod = ctx.repo.func("beacon.beacon_gate_options_string")
    cd = ctx.cdefs("beacon")["cs_struct"]
    fields = [x.name for x in cd.struct("BeaconGateOptions").fields]
    rules = {r.alias: r for r in _alternatives_of(g, _origins_of(g, "BeaconGateBlock"))}
    if not rules:
        ctx.undecided("R2", "VOCAB", prod, "BeaconGate vocabulary", f"the body of the block {BUILDER_PATHS['BeaconGateBlock']} is not reachable through block aliases of the grammar: the rule of the BeaconGate options cannot be located")
        return
    keywords = {r.keywords[0].lower(): r.keywords[0] for r in rules.values() if r.keywords}
    # group labels: constants the producer emits, plus any constant of it that names a keyword of the block up to case
    labels = {s for s in _emitted_strings(prod.node) if s not in fields}
    for n in body_walk(prod.node):
        if isinstance(n, ast.Constant) and isinstance(n.value, str) and n.value not in fields and n.value.lower() in keywords and " " not in n.value:
            labels.add(n.value)
    if not labels:
        ctx.undecided("R2", "VOCAB", prod, "group labels", "the group labels (All/Comms/Core/Cleanup) the producer emits cannot be located as constants")
    cons = ctx.repo.func("c2profile.BeaconGateBlock.from_beacon_gate_option_strings")
    ps = params(cons.node)
    lookup = _Interp(ctx, "c2profile", _Oracle())
    n = 0
    for s in sorted(labels) + fields:
        n += 1

        def binding(it, s=s):
            return ([_ClsRef("BeaconGateBlock")] if _is_classmethod(cons) else []) + [_Seq([s], "option strings")]

        try:
            paths = _run_func(ctx, cons, binding)
        except Unknown as e:
            ctx.undecided("R2", "VOCAB", cons, f"option {s}", f"cannot follow the consumer's name mapping: {e}")
            continue
        for res in paths:
            evs = _prim_events(res, cls="BeaconGateBlock", prims=PRIM_ARITY)
            if res.raised or len(evs) != 1 or not isinstance(_ev_name(evs[0]), str):
                ctx.ob("R2", "VOCAB", cons, f"option {s}", False,
                       f"producer can emit {s!r}; consumer " + (f"raises {res.raised}" if res.raised else f"emits {evs} (exactly one flag statement expected)"))
                continue
            name, prim = _ev_name(evs[0]), evs[0].prim
            r = rules.get(name)
            kw = r.keywords[0] if r is not None and r.keywords else None
            ok = r is not None and kw == s and PRIM_ARITY[prim] == 0
            ctx.ob("R2", "VOCAB", cons, f"option {s}", ok,
                   f"producer can emit {s!r}; consumer emits tree {name!r} with {prim}; grammar alias " + (f"exists with keyword {kw!r}" if r is not None else "does NOT exist (as_text() raises)") + f" (required keyword {s!r}, no argument)")
            # and the builder class has that attribute (in its body, in a base class, or installed by a class decorator /
            # a module-level setattr - `_late_attrs`)
            if lookup.method("BeaconGateBlock", name) is None:
                why = {c: w for c, w in ctx.__dict__.get("_c13_late_unknown", {}).items() if any(c == k.name for _m, k in lookup._mro("BeaconGateBlock"))}
                if why:
                    ctx.undecided("R2", "VOCAB", "c2profile.py::BeaconGateBlock", f"attribute {name}",
                                  f"no attribute {name!r} in the class bodies, but attributes may be installed by code that is not followed: " + "; ".join(f"{c}: {w}" for c, w in sorted(why.items()))[:300])
                else:
                    ctx.ob("R2", "VOCAB", "c2profile.py::BeaconGateBlock", f"attribute {name}", False, f"builder has no attribute {name!r} for option {s!r}")
    ctx.rep.count("beacon_gate_vocabulary", n, floor=27)


# ---------------------------------------------------------------------------- R3
_ARG_EXECUTORS = {"CreateThread_", "CreateRemoteThread_"}  # executors that carry a module!function argument (reference)
_CS_SPELLING = {"NtQueueApcThread_s": "NtQueueApcThread-s", "CreateThread_": "CreateThread", "CreateRemoteThread_": "CreateRemoteThread"}


def _producer_strings(ctx, prod, enum_name: str, member: str) -> Optional[List[Tuple[Optional[str], List[object]]]]:
    """What parse_execute_list puts out for one list entry whose executor byte decodes to `member`: the function is walked
    with its input symbolic and every construction `InjectExecutor(<byte>)` specialised to that member (case analysis
    over the enum); the loop body once.  One (raised, produced items) pair per path that constructs the executor; None
    when no path does."""
    val = _enum_table(ctx)[enum_name][member]

    def on_enum(it, ecls, args):
        if ecls.name == enum_name:
            it.flags.add("constructed")
            return _EnumVal(enum_name, member, val)
        return NotImplemented

    ps = params(prod.node)
    paths = _run_func(ctx, prod, lambda it: [_Sym(p) for p in ps[:1]], {"enum": on_enum})
    outs = []
    for res in paths:
        if "constructed" not in res.flags:
            continue
        if res.raised:
            outs.append((res.raised, []))
            continue
        items = list(res.yields)
        if isinstance(res.ret, (list, tuple)):
            items += list(res.ret)
        elif res.ret is not None:
            raise Unknown("the producer returns " + _show(res.ret)[:40])
        outs.append((None, items))
    return outs or None


def _consumer_emission(ctx, s):
    """(verdict detail) of from_beacon_config for an execute list with the entry `s` (a constant or a text term of the
    producer): the builder calls on ExecuteOptionsBlock objects and whether that object is attached to a process-inject
    block."""
    out = []
    for res in _generate(ctx, [("SETTING_PROCINJ_EXECUTE", _Seq([s], "execute list"))]):
        if "settings-loop" not in res.flags:
            raise Unknown("the settings loop of from_beacon_config was not found")
        evs = _prim_events(res, cls="ExecuteOptionsBlock", prims=PRIM_ARITY)
        attached = all(any(p.cls == "ProcessInjectBlock" for p, _pr, _n in _attachments(res, ev.recv)) for ev in evs)
        out.append((res.raised, [(ev.prim, _ev_name(ev)) for ev in evs], attached, [_ev_value(ev) for ev in evs]))
    return out


_CHAR_REWRITERS = {"replace", "lower", "upper", "casefold"}  # text methods the walker distributes over a text term (S5 and the single-character replace)


def _entry_argument(s):
    """The argument text of an execute-list entry `<keyword> "<argument>"` the producer renders as the text term `s`: what
    stands between the first double quote of the leading constant segment and the double quote that ends the trailing one
    (S2 / S4: both quotes lie in constant segments, so the holes - module, function, offset - are untouched).  None when
    the term does not have that form."""
    if not isinstance(s, _Str):
        return None
    lead, trail = _str_lead(s), _str_trail(s)
    if '"' not in lead or not trail.endswith('"') or len(s.parts) < 2:
        return None
    return _mk_str([lead[lead.index('"') + 1:]] + list(s.parts[1:-1]) + [trail[:-1]])


def _text_parts(t):
    return list(t.parts) if isinstance(t, _Str) else [t] if isinstance(t, str) else None


def _same_text(a, b) -> bool:
    """Two text terms are the same text: equal constant segments and the very same holes, in order."""
    pa, pb = _text_parts(a), _text_parts(b)
    if pa is None or pb is None or len(pa) != len(pb):
        return a is b
    return all((x == y) if isinstance(x, str) and isinstance(y, str) else x is y for x, y in zip(pa, pb))


def _rewritten_hole(q, holes):
    """`q` is one of `holes` under a chain of character rewriters (replace with different operands, case mapping): the name
    of the outermost rewriter; None otherwise."""
    name = None
    cur, depth = q, 0
    while isinstance(cur, _Obj) and not isinstance(cur, _Sym) and depth < 8:
        # (a rewriter distributed over a text term: `_Obj(<method>, [piece, operands..])`; a method call on a symbol:
        # `_Obj(<path>.<method>, operands, recv=symbol)`)
        meth = cur.callee.split(".")[-1]
        if meth not in _CHAR_REWRITERS:
            break
        if cur.recv is not None:
            inner, ops = cur.recv, list(cur.args)
        elif cur.args:
            inner, ops = cur.args[0], list(cur.args[1:])
        else:
            break
        if meth == "replace" and (len(ops) != 2 or _has_opaque(ops[0]) or _has_opaque(ops[1])):
            break
        if not (meth == "replace" and ops[0] == ops[1]):
            name = name or (f"replace({ops[0]!r}, {ops[1]!r})" if meth == "replace" else meth + "()")
        cur, depth = inner, depth + 1
    return name if name is not None and any(cur is h for h in holes) else None


def _argument_verdict(value, want):
    """How the value handed to the statement of an executor with an argument relates to the argument text `want` of the
    entry: (True, ..) the same text; (False, why) a text made of the entry's own pieces that is a different text - a hole
    under a character rewriter (the argument is an arbitrary printable text: a rewriter with different operands changes
    some argument), or other constant segments around the same holes (quotes kept, separator changed, a piece cut off);
    (None, why) anything else."""
    if _same_text(value, want):
        return True, "the argument text of the entry, unchanged"
    holes = [q for q in (_text_parts(want) or []) if not isinstance(q, str)]
    parts = _text_parts(value)
    if parts is None or not holes:
        return None, "the value handed over is not a text term over the pieces of the entry: " + _show(value)[:120]
    rewritten = [_rewritten_hole(q, holes) for q in parts if not isinstance(q, str)]
    own = [q for q in parts if not isinstance(q, str) and any(q is h for h in holes)]
    if any(rewritten):
        return False, f"the argument text passes through {[r for r in rewritten if r][0]} before it is stated: an argument that contains such a character is stated as a different text"
    if len(own) == len([q for q in parts if not isinstance(q, str)]):
        return False, f"the text stated is {_template_text(value)!r}, the argument of the entry is {_template_text(want)!r}"
    return None, "the value handed over contains pieces the rule does not understand: " + _show(value)[:120]


def r3(ctx, g: Grammar):
    prod = ctx.repo.func("beacon.parse_execute_list")
    cd = ctx.cdefs("beacon")["cs_struct"]
    members = [m for m, _v in cd.enum("InjectExecutor").members]
    produced: List[Tuple[str, object]] = []
    examined = 0
    for m in members:
        examined += 1
        try:
            outs = _producer_strings(ctx, prod, "InjectExecutor", m)
        except Unknown as e:
            ctx.undecided("R3", "VOCAB", prod, f"executor {m}", f"cannot follow parse_execute_list: {e}")
            continue
        if outs is None:
            ctx.undecided("R3", "VOCAB", prod, f"executor {m}", "parse_execute_list does not construct an InjectExecutor from the input on any path")
            continue
        seen = set()
        for raised, items in outs:
            if raised or len(items) != 1 or not isinstance(items[0], (str, _Str)):
                ctx.ob("R3", "VOCAB", prod, f"executor {m}", False,
                       f"producer renders executor {m} as " + (f"<raises {raised}>" if raised else _show(items)[:300]) + " (exactly one string expected)")
                continue
            key = _show(items[0])
            if key not in seen:
                seen.add(key)
                produced.append((m, items[0]))
    f = ctx.repo.func("c2profile.C2Profile.from_beacon_config")
    fe = ctx.repo.func("c2profile.ExecuteOptionsBlock.from_execute_list")
    rules = {r.alias: r for r in _alternatives_of(g, _origins_of(g, "ExecuteOptionsBlock"))}
    if not rules:
        ctx.undecided("R3", "VOCAB", f, "executor vocabulary", f"the body of the block {BUILDER_PATHS['ExecuteOptionsBlock']} is not reachable through block aliases of the grammar: the rule of the execute options cannot be located")
        return
    done: Set[str] = set()
    agree: List[str] = []
    agree_unknown: List[str] = []
    for m, s in produced:
        shown = _template_text(s)
        want_kw = _CS_SPELLING.get(m, m)
        want_arity = 1 if m in _ARG_EXECUTORS else 0
        try:
            ems = _consumer_emission(ctx, s)
        except Unknown as e:
            ctx.undecided("R3", "VOCAB", f, f"executor {m}", f"cannot follow from_beacon_config for the execute-list entry {shown!r}: {e}")
            continue
        ok = True
        details = []
        emitted_here = None
        for raised, emitted, attached, _values in ems:
            if raised:
                ok = False
                details.append(f"producer emits {shown!r}; from_beacon_config raises {raised}")
            elif not emitted:
                ok = False
                details.append(f"producer emits {shown!r}; consumer emits nothing: the executor is silently dropped from the profile")
            elif len(emitted) > 1:
                ok = False
                details.append(f"producer emits {shown!r}; consumer emits {emitted} (more than one statement)")
            else:
                meth, name = emitted[0]
                emitted_here = emitted[0]
                r = rules.get(name) if isinstance(name, str) else None
                kw = r.keywords[0] if r is not None and r.keywords else None
                ar = g.string_arity(r) if r is not None else None
                good = r is not None and kw == want_kw and ar == want_arity and PRIM_ARITY.get(meth) == want_arity and attached
                ok = ok and good
                details.append(f"producer emits {shown!r}; consumer calls {meth}({_template_text(name)!r}); grammar alias keyword={kw!r} arity={ar} (required keyword {want_kw!r}, arity {want_arity}); "
                               f"execute block attached to process-inject={attached}")
        key = f"executor {m}" if f"executor {m}" not in done else f"executor {m} as {shown}"
        done.add(f"executor {m}")
        ctx.ob("R3", "VOCAB", f, key, ok, "; ".join(sorted(set(details)))[:600])
        # an executor with an argument: the statement states the argument text of the entry (module!function+offset),
        # unchanged - what the producer put between the quotes, as a term
        if m in _ARG_EXECUTORS and ok:
            akey = key + " argument"
            want = _entry_argument(s)
            if want is None:
                ctx.undecided("R3", "TAINT", f, akey, f"the producer's entry {shown!r} is not of the form <keyword> \"<argument>\" with both quotes in constant segments: its argument cannot be located")
            else:
                verdicts = [_argument_verdict(vals[0], want) for _r, emitted, _a, vals in ems if len(emitted) == 1 and len(vals) == 1]
                bad = [why for v, why in verdicts if v is False]
                unk = [why for v, why in verdicts if v is None]
                if bad:
                    ctx.ob("R3", "TAINT", f, akey, False, f"producer emits {shown!r}; " + "; ".join(sorted(set(bad)))[:500])
                elif unk or not verdicts:
                    ctx.undecided("R3", "TAINT", f, akey, f"producer emits {shown!r}; " + ("; ".join(sorted(set(unk)))[:400] if unk else "no statement to look at"))
                else:
                    ctx.ob("R3", "TAINT", f, akey, True, f"producer emits {shown!r}; the statement is handed {_template_text(want)!r}: the text between the quotes of the entry, with the very pieces the producer put there")
        # the sibling consumer ExecuteOptionsBlock.from_execute_list renders the same entry the same way; an executor with an
        # argument is handed to it as the pair (keyword, argument) - the argument symbolic
        if emitted_here is None:
            continue
        entry = s
        if m in _ARG_EXECUTORS and isinstance(s, _Str):
            entry = (want_kw, _Val("executor argument", "str"))

        def binding(it, entry=entry):
            return ([_ClsRef("ExecuteOptionsBlock")] if _is_classmethod(fe) else []) + [_Seq([entry], "execute list")]

        try:
            for res in _run_func(ctx, fe, binding):
                got = [(ev.prim, _ev_name(ev)) for ev in _prim_events(res, cls="ExecuteOptionsBlock", prims=PRIM_ARITY)]
                if res.raised or got != [emitted_here]:
                    agree.append(f"{_show(entry)}: from_beacon_config emits {emitted_here}, from_execute_list " + (f"raises {res.raised}" if res.raised else f"emits {got}"))
                elif isinstance(entry, tuple):
                    # ... and states the argument of the pair unchanged
                    vals = [_ev_value(ev) for ev in _prim_events(res, cls="ExecuteOptionsBlock", prims=PRIM_ARITY)]
                    if vals[0] is not entry[1]:
                        rw = _rewritten_hole(vals[0], [entry[1]])
                        if rw:
                            agree.append(f"{_show(entry)}: from_execute_list passes the argument through {rw} before it is stated")
                        else:
                            agree_unknown.append(f"{_show(entry)}: the value from_execute_list states is {_show(vals[0])[:80]}")
        except Unknown as e:
            agree_unknown.append(f"{_show(entry)}: {e}")
    ctx.rep.count("executors", max(examined, len(produced)), floor=8)
    if agree_unknown and not agree:
        ctx.undecided("R3", "AGREE", fe, "accepted executor names", "cannot follow from_execute_list: " + "; ".join(agree_unknown)[:300])
    else:
        ctx.ob("R3", "AGREE", fe, "accepted executor names", not agree,
               "from_execute_list and from_beacon_config render every executor the producer can emit with the same builder call" if not agree else "; ".join(sorted(set(agree)))[:500])


# ---------------------------------------------------------------------------- R4 / R5
# What each opcode of a client transform program means for the profile (reference: csverif.tables opcode tables).  The
# rules below specialise the generator per opcode *name* - the argument of the entry stays a symbol - and compare the
# builder calls that result, as terms, with this reading.
_DECORATIONS = {"_HEADER": "header", "_HOSTHEADER": "header", "_PARAMETER": "parameter"}  # static lines of the client block
_STAGE_TRANSFORM_KEYS = ("prepend", "append")  # entries of a process-inject transform (reference: transform-x86/x64 statements)
_KEYED_TYPES = (dict, set, frozenset, type({}.items()), type({}.keys()), type({}.values()))

# Lemmas on byte arguments (b: bytes):
#  E1  repr(b)[2:-1] is an escape-encoding of b: repr(b) is b'..' or b".." whose body spells every byte as itself (printable
#      ASCII other than the backslash and the delimiter) or as one of \\ \' \" \t \n \r \xNN; [2:-1] drops the two-character
#      opener and the closing delimiter and leaves that body
#  E2  b.decode(codec) / str(b, codec) is NOT an escape-encoding: a backslash, quote or control byte becomes that very character
#  E3  character-wise operations with constant operands applied to a decoding act on the backslash independently of its
#      neighbours: t.translate(T) gives T[92] if T has the integer key 92 (keys that are strings are never looked up), else the
#      backslash; t.replace(a, b) with len(a) == 1 replaces it iff a is the backslash.  The result is an escape-encoding only
#      if that image is a spelling the STRING token decoder reads back as one backslash (see `_backslash_image`)
#  K   a dict / set (or a view of one) holds one entry per key: collecting lines in it collapses repeated names


def _depends_on(term, x, depth=0) -> bool:
    """Does symbol `x` occur in the term?"""
    if term is x:
        return True
    if depth > 10:
        return False
    if isinstance(term, _Attr):
        return _depends_on(term.base, x, depth + 1)
    if isinstance(term, _Str):
        return any(_depends_on(q, x, depth + 1) for q in term.parts)
    if isinstance(term, _Seq):
        return any(_depends_on(q, x, depth + 1) for q in term.items)
    if isinstance(term, _Obj):
        return any(_depends_on(q, x, depth + 1) for q in list(term.args) + list(term.kwargs.values()) + [term.recv])
    if isinstance(term, (list, tuple, set, frozenset)):
        return any(_depends_on(q, x, depth + 1) for q in term)
    if isinstance(term, dict):
        return any(_depends_on(q, x, depth + 1) for q in list(term) + list(term.values()))
    return False


def _arg_kind(term, arg) -> str:
    """How the symbolic byte argument `arg` reaches a builder, read off the term that is handed over:
    'bytes' - the argument itself (the STRING builder escape-encodes bytes); 'escaped' - repr(arg)[2:-1], the pinned
    form repr(<constant with a double quote> + arg)[k:-1] or the unicode_escape codec chain (lemmas E1, E1b, E1c; see
    `_conversion`); 'decoded' - arg.decode(..) / str(arg, codec) (lemma E2: not escape-encoded); 'lost' - a term in which the argument
    does not occur; 'unknown:..' - any other function of the argument (nothing is claimed)."""
    if term is arg:
        return "bytes"
    if _conversion(term, arg)[0] == "escaper":
        return "escaped"  # E1 / E1b / E1c: one of the three byte-wise escapers, delimiters sliced off exactly
    if _is_decoding(term, arg):
        return "decoded"
    img = _backslash_image(term, arg)
    if img is not None and img not in _BACKSLASH_SPELLINGS:
        return "unescaped"  # E3: a backslash byte of the argument comes out raw (or is dropped / turned into something else)
    if not _depends_on(term, arg):
        return "lost"
    return "unknown:" + _show(term)[:60]


_BACKSLASH_SPELLINGS = ("\\\\", "\\x5c", "\\x5C")  # texts the STRING token decoder turns back into one backslash byte
_NOT_ENCODED = ("decoded", "unescaped")


def _is_decoding(term, arg) -> bool:
    if isinstance(term, _Obj) and term.recv is arg and term.callee.endswith(".decode"):
        return True
    return isinstance(term, _Obj) and term.callee == "str" and len(term.args) + len(term.kwargs) >= 2 and bool(term.args) and term.args[0] is arg


def _backslash_image(term, arg) -> Optional[str]:
    """Lemma E3: the text a backslash byte of `arg` is turned into by a decoding followed by character-wise operations."""
    return _char_image(term, arg, "\\")


def _char_image(term, arg, ch: str, depth=0) -> Optional[str]:
    """Lemma E3.  For a term that is a decoding of `arg` followed by character-wise text operations whose operands are
    constants of the code - `.translate(T)` with a constant table, `.replace(a, b)` with a one-character a - the text that
    the byte with the (latin-1) character `ch` is turned into; None when the term is not such a chain.  The operations act on every
    character independently of its neighbours, so the image of the one character is found by applying them to it:
    decoding gives the character itself (E2); `translate` replaces it by T[ord] when the table has that *integer* key
    (str.translate looks characters up by ordinal: a key that is a one-character string is never consulted; a value None
    deletes the character, an integer value stands for that character) and leaves it alone otherwise; `replace` replaces
    it when a is that character.  Only the entry of the table for the character asked about is looked at (the callers ask
    about the backslash and about the characters the analysed code itself names in a rewrite) - no inputs are tried."""
    if depth > 8 or not isinstance(term, _Obj):
        return None
    if _is_decoding(term, arg):
        return ch
    if not isinstance(term.recv, _Obj) or term.kwargs:
        return None
    inner = _char_image(term.recv, arg, ch, depth + 1)
    if inner is None:
        return None
    meth = term.callee.rsplit(".", 1)[-1]
    if meth == "translate" and len(term.args) == 1 and isinstance(term.args[0], dict) and not _has_opaque(term.args[0]):
        table, out = term.args[0], []
        for c in inner:
            if ord(c) in table:
                v = table[ord(c)]
                if v is None:
                    continue
                if isinstance(v, int) and not isinstance(v, bool) and 0 <= v < 0x110000:
                    v = chr(v)
                if not isinstance(v, str):
                    return None
                out.append(v)
            else:
                out.append(c)
        return "".join(out)
    if meth == "replace" and len(term.args) == 2 and all(isinstance(a, str) for a in term.args) and len(term.args[0]) == 1:
        return inner.replace(term.args[0], term.args[1])
    return None


def _not_encoded_reason(terms, arg) -> str:
    imgs = sorted({repr(_backslash_image(t, a)) for t in terms for a in ([arg] if arg is not None else _val_symbols(t)) if _backslash_image(t, a) not in (None,) + _BACKSLASH_SPELLINGS})
    if imgs:
        return (f"decoded text whose character-wise mapping turns a backslash byte into {imgs} (lemma E3: required one of {list(_BACKSLASH_SPELLINGS)}) - the decoder of the STRING token "
                "reads a raw backslash as the start of an escape, so the argument is not byte-exact after the round trip or the text is invalid")
    return "decoded text, NOT escape-encoded (lemma E2) - a backslash, quote or control byte yields invalid or unfaithful profile text"


def _val_symbols(term, depth=0) -> list:
    """The `_Val` symbols a term is built from."""
    if isinstance(term, _Val):
        return [term]
    if depth > 8 or not isinstance(term, _Obj):
        return []
    out = []
    for q in list(term.args) + list(term.kwargs.values()) + [term.recv]:
        out += _val_symbols(q, depth + 1)
    return out


# ---- the escaper a generator site applies to a byte argument (R4: is it an escape-encoding?  R11: which tokens does it emit?)
# Reference facts about CPython's byte-wise escapers (the same as lemmas L1 / L1b / L2 of rules/c12.py):
#  E1   repr(b)[2:-1] is the body of the bytes literal.  Its quote style is NOT pinned: repr(bytes) picks the double-quote
#       delimiter exactly for a value that contains ' and no " - the apostrophe is then emitted as a plain character of its
#       own; for every other value it is the pair backslash + '.  The double quote is never escaped by repr(bytes).
#  E1b  repr(P + b + S)[2 + e(P) : -1 - e(S)] with constants P, S one of which contains a double quote: the delimiter is
#       always ', so every apostrophe of b is the pair backslash + '; e(X) = escaped length of the constant X in that style
#  E1c  b.decode("latin-1").encode("unicode_escape").decode(<ascii compatible>): the same tokens, except that BOTH quotes
#       are plain characters; decoding b as ascii / utf-8 instead raises for bytes >= 0x80 (generation fails)
#  E4   in all three the text is a sequence of tokens, one per byte: a printable ASCII character standing for itself, a pair
#       backslash + one of \ ' t n r, or backslash + x + two hex digits.  A backslash is always the FIRST character of a token
#       and the backslash byte is the pair backslash + backslash.
class _Tokens:
    """Abstract description of the text a byte-wise escaper emits (finite domain: per printable character `plain token of
    its own possible` or not; lemma E4).  Duck-compatible with rules/c12.py `_Escaper`."""

    def __init__(self, key: str, name: str, plain_quote: bool):
        self.key, self.name, self.plain_quote = key, name, plain_quote

    def plain(self, ch) -> bool:
        """`ch` can occur in the escaped text as a token of its own (hence directly after an escaped backslash)."""
        return len(ch) == 1 and 0x20 <= ord(ch) <= 0x7E and ch != "\\" and (ch != "'" or self.plain_quote)


class _MappedTokens(_Tokens):
    """The text of a decoding followed by character-wise operations with constant operands that turn the backslash byte into
    two backslashes (lemma E3): a printable character is a plain token of its own iff its image is the character itself."""

    def __init__(self, term, arg):
        _Tokens.__init__(self, "mapping", "the character-wise mapping applied to the decoded value", False)
        self.term, self.arg = term, arg

    def plain(self, ch) -> bool:
        return len(ch) == 1 and 0x20 <= ord(ch) <= 0x7E and ch != "\\" and _char_image(self.term, self.arg, ch) == ch


_REPR_UNPINNED = _Tokens("repr-unpinned", "repr() whose quote style is not pinned (a value with ' and without \" is delimited by double quotes)", True)
_REPR_PINNED = _Tokens("repr-pinned", "repr() pinned to the single-quote style", False)
_UNICODE_ESCAPE = _Tokens("unicode-escape", "the unicode_escape codec over the latin-1 decoding", True)
_ASCII_COMPATIBLE = ("ascii", "iso8859-1", "utf-8")


def _net_slice(term):
    """Constant [a:-b] slice layers on top of a term -> (a, -b, inner) with the offsets added up; None when a layer is not of
    that form (a bound that is not a constant of the code, a step, a bound counted from the other end)."""
    lo = hi = 0
    while isinstance(term, _Obj) and term.callee == "slice" and len(term.args) == 4 and not term.kwargs:
        base, a, b, st = term.args
        a, b = (0 if a is None else a), (0 if b is None else b)
        if st not in (None, 1) or type(st) is bool or type(a) is not int or type(b) is not int or a < 0 or b > 0:
            return None
        lo, hi, term = lo + a, hi + b, base
    return lo, hi, term


def _cat_parts(term, depth=0) -> Optional[list]:
    """`x + y + ...` -> the operands in order (None: not a concatenation the walker kept as a term)."""
    if isinstance(term, _Obj) and term.callee == "binop Add" and len(term.args) == 2 and depth < 6:
        out = []
        for q in term.args:
            sub = _cat_parts(q, depth + 1)
            out += sub if sub is not None else [q]
        return out
    return None


def _codec_step(term):
    """x.decode(C) / x.encode(C) / codecs.decode(x, C) / codecs.encode(x, C) / str(x, C) / bytes(x, C) with a constant codec
    name -> (x, direction, canonical codec name); None otherwise.  The stdlib codec registry is a reference table."""
    if not isinstance(term, _Obj):
        return None
    meth = term.callee.rsplit(".", 1)[-1]
    args, kw = list(term.args), dict(term.kwargs)
    if meth in ("decode", "encode") and isinstance(term.recv, _Glob):
        if term.recv.name != "codecs" or not args:
            return None
        inner, args, direction = args[0], args[1:], meth
    elif meth in ("decode", "encode") and term.recv is not None:
        inner, direction = term.recv, meth
    elif term.callee in ("str", "bytes") and len(args) == 2 and not kw:
        inner, args, direction = args[0], args[1:], ("decode" if term.callee == "str" else "encode")
    else:
        return None
    if len(args) == 1 and not kw:
        name = args[0]
    elif not args and set(kw) == {"encoding"}:
        name = kw["encoding"]
    elif not args and not kw:
        name = "utf-8"
    else:
        return None  # an error handler: not modelled
    if not isinstance(name, str):
        return None
    import codecs

    try:
        return inner, direction, codecs.lookup(name).name
    except LookupError:
        return None


def _esc_len(b: bytes) -> int:
    """Length of the escaped text of the constant `b` (a constant of the analysed code) inside a single-quoted bytes repr."""
    return len(repr(b'"' + b)) - 4


def _conversion(term, arg) -> Tuple[str, object, str]:
    """What a generator site does to the symbolic byte argument `arg` before handing it to a builder, read off the term
    that is handed over -> (kind, info, description):
      'identity' - the argument itself (type bytes);
      'escaper'  - one of the three byte-wise escapers with the delimiters sliced off exactly (info: `_Tokens`; type str);
      'bad'      - an escaper was located and is wrong (info: why): the slice does not strip exactly the delimiters (E1 / E1b),
                   or the first decoding of the codec chain raises for bytes >= 0x80 (E1c);
      'plain'    - a decoding / a decoding with a character-wise mapping that leaves the backslash raw (R4's lemmas E2 / E3);
      'mapping'  - a decoding with a character-wise mapping (constant operands) that doubles the backslash (info: `_MappedTokens`;
                   type str): whether it escapes everything else that needs escaping is not known (R4: undecided), but which
                   printable characters it leaves plain is read from the constants;
      'lost'     - the argument does not occur in the term;   'unknown' - any other function of the argument."""
    if term is arg:
        return "identity", None, "the bytes value itself"
    if not _depends_on(term, arg):
        return "lost", None, _show(term)[:60]
    if _is_decoding(term, arg):
        return "plain", None, "a decoding of the bytes value (lemma E2)"
    img = _backslash_image(term, arg)
    if img is not None and img not in _BACKSLASH_SPELLINGS:
        return "plain", None, f"a decoding whose character-wise mapping turns a backslash byte into {img!r} (lemma E3)"
    if img == "\\\\":
        return "mapping", _MappedTokens(term, arg), "a decoding followed by a character-wise mapping with constant operands that doubles the backslash"
    # ---- escaped text turned back into bytes: <escaper>.encode(<ascii compatible>) / arg.decode(latin-1).encode(unicode_escape)
    st = _codec_step(term)
    if st is not None and st[1] == "encode":
        below, twice = st[0], None
        if st[2] in _ASCII_COMPATIBLE:
            k, _i, d = _conversion(below, arg)
            twice = f"{d}.encode({st[2]!r})" if k == "escaper" else None
        elif st[2] == "unicode-escape":
            st2 = _codec_step(below)
            twice = "<arg>.decode('iso8859-1').encode('unicode-escape')" if st2 is not None and st2[0] is arg and st2[1:] == ("decode", "iso8859-1") else None
        if twice:
            return "bad", (f"{twice}: the escaped text is handed over as a *bytes* value, so the bytes path of the literal encoder escapes it a second time - "
                           "every backslash of an escape token is doubled (lemma E4) and the token decodes to its characters, not to the byte"), twice
    ns = _net_slice(term)
    if ns is None:
        return "unknown", None, _show(term)[:60]
    lo, hi, inner = ns
    # ---- repr(<constant> + arg + <constant>)[a:-b]     (str(b) is repr(b) for a bytes value)
    if isinstance(inner, _Obj) and inner.callee in ("repr", "str") and len(inner.args) == 1 and not inner.kwargs and inner.recv is None:
        parts = _cat_parts(inner.args[0]) or [inner.args[0]]
        at = [i for i, q in enumerate(parts) if q is arg]
        if len(at) != 1 or not all(isinstance(q, bytes) for i, q in enumerate(parts) if i != at[0]):
            return "unknown", None, _show(term)[:60]
        pre, post = b"".join(parts[:at[0]]), b"".join(parts[at[0] + 1:])
        desc = f"repr({(repr(pre) + ' + ') if pre else ''}<arg>{(' + ' + repr(post)) if post else ''})[{lo}:{hi if hi else ''}]"
        pinned = b'"' in pre + post
        if not pinned and b"'" in pre + post:
            return "unknown", None, desc  # the quote style depends on the value and so does the escaped length of the constant
        need = (2 + _esc_len(pre), -1 - _esc_len(post))
        if (lo, hi) != need:
            return "bad", (f"{desc}: the slice must strip exactly the two-character opener, the constant(s) around the value and the closing quote, i.e. [{need[0]}:{need[1]}] "
                           "(lemma E1): characters of the delimiters stay in the text or characters of the escaped value are cut"), desc
        return "escaper", (_REPR_PINNED if pinned else _REPR_UNPINNED), desc
    # ---- arg.decode(latin-1).encode(unicode_escape).decode(<ascii compatible>)
    chain, y = [], inner
    while len(chain) < 6:
        st = _codec_step(y)
        if st is None:
            break
        chain.append((st[1], st[2]))
        y = st[0]
    if chain and y is arg:
        chain.reverse()  # innermost first
        desc = "<arg>" + "".join(f".{d}({c!r})" for d, c in chain) + (f"[{lo}:{hi if hi else ''}]" if (lo, hi) != (0, 0) else "")
        if len(chain) == 3 and [d for d, _ in chain] == ["decode", "encode", "decode"] and chain[1][1] == "unicode-escape":
            c1, c3 = chain[0][1], chain[2][1]
            if c1 in ("ascii", "utf-8"):
                return "bad", f"{desc}: decoding the bytes value as {c1} raises for (sequences of) bytes >= 0x80 - generation fails; the value must be decoded byte-wise (latin-1; lemma E1c)", desc
            if c1 == "iso8859-1" and c3 in _ASCII_COMPATIBLE:
                if (lo, hi) != (0, 0):
                    return "bad", f"{desc}: the codec adds no delimiters, the slice cuts characters of the escaped value (lemma E1c)", desc
                return "escaper", _UNICODE_ESCAPE, desc
        return "unknown", None, desc
    return "unknown", None, _show(term)[:60]


def _client_cases(ctx) -> List[Tuple[str, str, list, object]]:
    """(case label, kind, entries, symbolic argument) for every member of the client-program vocabulary."""
    cases = []
    for k in sorted(tables.STEPS_LEN_ARG):
        arg = _Val(f"bytes argument of {k}", "bytes")
        cases.append((k, "decoration" if k in _DECORATIONS else "valued", [(k, arg)], arg))
    flags = sorted(tables.STEPS_NO_ARG)
    for k in flags:
        cases.append((k, "flag", [(k, True)], None))
    for s in sorted(_build_selectors(ctx) or ()):
        cases.append((f"BUILD {s}", "build", [("BUILD", s), (flags[0], True)], None))
    return cases


def _client_obs(res: _Res) -> dict:
    """What one path of from_beacon_config does to client option blocks: the receiving block, its pair statements, the
    data-transform blocks attached to it (name, steps term) and where the receiver is attached.  Everything as terms."""
    if res.raised:
        return {"raised": res.raised, "parent": []}
    recvs = []
    for ev in _prim_events(res, cls="HttpOptionsBlock"):
        if ev.recv not in recvs:
            recvs.append(ev.recv)
    out = {"raised": None, "receivers": len(recvs), "pairs": [], "blocks": [], "other": [], "parent": []}
    for ev in _prim_events(res, cls="HttpOptionsBlock"):
        name = _ev_name(ev)
        if PRIM_ARITY.get(ev.prim) == 2:
            out["pairs"].append((name, _ev_value(ev)))
        elif ev.prim in ATTACH:
            child = _ev_value(ev)
            if isinstance(child, _Obj) and child.cls == "DataTransformBlock":
                out["blocks"].append((name, child.kwargs.get("steps", child.args[0] if child.args else None)))
            else:
                out["other"].append(f"{ev.prim}({_show(name)}, {_show(child)[:40]})")
        else:
            out["other"].append(f"{ev.prim}({_show(name)})")
    for recv in recvs:
        for p, _pr, n in _attachments(res, recv):
            if (p.cls, n) not in out["parent"]:
                out["parent"].append((p.cls, n))
    return out


def _abstract_encoding(v, arg, depth=0):
    """`v` with every computed term that is made from the symbolic argument replaced by one marker: what is left is where
    the argument goes, not by which function it is encoded."""
    if arg is None or depth > 8:
        return v
    if isinstance(v, (list, tuple)):
        return type(v)(_abstract_encoding(x, arg, depth + 1) for x in v)
    if v is arg or (isinstance(v, _Obj) and not isinstance(v, _Sym) and v.cls is None and _depends_on(v, arg)):
        return _Op("the argument, as it is or encoded")  # handing the bytes over unchanged is one of the encodings (R4 / R11)
    return v


def _obs_signature(o: dict, abstract_arg=None) -> str:
    """Structural text of an observation (no object identities, the attachment point left out): what sibling settings
    must agree on.  With `abstract_arg` the encoding applied to that argument is left out too."""
    if o.get("raised"):
        return f"raises {o['raised']}"
    pairs = [(n, v) for n, v in o["pairs"] if not (isinstance(v, (list, tuple)) and not v)]  # no lines: nothing is emitted
    sig = [o["receivers"] if pairs or o["blocks"] or o["other"] else 0, pairs, [(n, v) for n, v in o["blocks"]], o["other"]]
    return _show(_abstract_encoding(sig, abstract_arg))


def _pair_lines(value):
    """The (name, value) lines in the collection handed to a pair primitive -> (lines, problem, unknown)."""
    if isinstance(value, _KEYED_TYPES):
        return None, "are collected in a dict/set (lemma K: a repeated name keeps only one line)", None
    if not isinstance(value, (list, tuple)):
        return None, None, f"the collection handed to the pair statement is not a list the code built ({_show(value)[:60]})"
    lines = []
    for x in value:
        if not isinstance(x, (list, tuple)) or len(x) != 2:
            return None, None, f"an element of the pair list is not a (name, value) pair ({_show(x)[:60]})"
        lines.append(tuple(x))
    return lines, None, None


def _case_diffs(label: str, kind: str, entries, arg, o: dict) -> Tuple[List[str], List[str]]:
    """Differences between what a path does for one vocabulary case and the reading of that opcode -> (differences,
    things that could not be read)."""
    if o.get("raised"):
        return [f"{label}: generation raises {o['raised']}"], []
    if o["receivers"] > 1:
        return [f"{label}: {o['receivers']} client option blocks receive the entry (exactly one expected)"], []
    diffs, unknown = [f"{label}: {x}" for x in o["other"]], []
    opcode = entries[-1][0]
    if kind == "decoration":
        stmt = _DECORATIONS[opcode]
        lines = []
        for name, value in o["pairs"]:
            got, problem, unk = _pair_lines(value)
            if got == []:
                continue  # a pair statement with no lines emits nothing
            if name != stmt:
                diffs.append(f"{label}: emitted as pair statement {_show(name)} (the configuration states a {stmt} line)")
                continue
            if problem:
                diffs.append(f"{label}: the {stmt} lines {problem}")
            elif unk:
                unknown.append(f"{label}: {unk}")
            else:
                lines.extend(got)
        if not diffs and not unknown:
            if len(lines) != 1:
                diffs.append(f"{label}: {len(lines)} {stmt} line(s) emitted for one entry of the program (exactly one expected)")
            elif not all(_depends_on(x, arg) for x in lines[0]):
                diffs.append(f"{label}: the {stmt} line {_show(lines[0])[:80]} is not made from the entry's argument")
        if o["blocks"]:
            diffs.append(f"{label}: a data-transform block is attached for a static {stmt} line")
        return diffs, unknown
    for name, value in o["pairs"]:
        if _pair_lines(value)[0] != []:  # a pair statement with no lines emits nothing
            diffs.append(f"{label}: unexpected pair statement {_show(name)}")
    if len(o["blocks"]) != 1:
        diffs.append(f"{label}: {len(o['blocks'])} data-transform blocks attached (exactly one expected: the step is dropped or duplicated)")
        return diffs, unknown
    bname, steps = o["blocks"][0]
    if kind == "build" and bname != entries[0][1]:
        diffs.append(f"{label}: the block is attached as {_show(bname)} (the BUILD entry names it {entries[0][1]!r})")
    if not isinstance(steps, (list, tuple)):
        unknown.append(f"{label}: the steps of the data-transform block are not a list the code built ({_show(steps)[:60]})")
        return diffs, unknown
    want = opcode.lower()
    if kind in ("flag", "build"):
        if list(steps) != [want]:
            diffs.append(f"{label}: steps {_show(list(steps))[:80]} (the configuration states the flag step {want!r})")
    else:
        st = steps[0] if len(steps) == 1 else None
        if not isinstance(st, (list, tuple)) or len(st) != 2 or st[0] != want:
            diffs.append(f"{label}: steps {_show(list(steps))[:80]} (the configuration states the step {want!r} with one argument)")
        elif not _depends_on(st[1], arg):
            diffs.append(f"{label}: the argument of step {want!r} is {_show(st[1])[:60]}: not made from the entry's argument")
    return diffs, unknown


def _step_arg_terms(o: dict, name: str) -> list:
    out = []
    for _b, steps in o.get("blocks") or []:
        if isinstance(steps, (list, tuple)):
            out += [x[1] for x in steps if isinstance(x, (list, tuple)) and len(x) == 2 and x[0] == name]
    return out


def _client_analysis(ctx, setting: str) -> dict:
    """Case analysis of from_beacon_config over the client-program vocabulary for one setting:
    label -> {"kind", "entries", "arg", "paths": [observation per path]} (or {"unknown": reason})."""
    out = collections.OrderedDict()
    for label, kind, entries, arg in _client_cases(ctx):
        try:
            value = _Seq(entries, "client program")
            paths = _generate(ctx, [(setting, value)])
            if any("settings-loop" not in r.flags for r in paths):
                raise Unknown("the settings loop of from_beacon_config was not found")
            ctx.__dict__.setdefault("_c13_client_paths", {})[(setting, label)] = (value, paths)  # R13 reads the same walks
            out[label] = {"kind": kind, "entries": entries, "arg": arg, "paths": [_client_obs(r) for r in paths]}
        except Unknown as e:
            out[label] = {"unknown": str(e)}
    return out


def _procinj_analysis(ctx, setting: str) -> dict:
    """The same for a process-inject transform setting: key -> {"arg", "paths": [(raised, [(prim, name, value term)], parents)]}."""
    out = collections.OrderedDict()
    for k in _STAGE_TRANSFORM_KEYS:
        arg = _Val(f"bytes argument of {k}", "bytes")
        try:
            paths = []
            for res in _generate(ctx, [(setting, _Seq([(k, arg)], "transform"))]):
                if "settings-loop" not in res.flags:
                    raise Unknown("the settings loop of from_beacon_config was not found")
                opts, parents = [], []
                for ev in _prim_events(res, cls="StageTransformBlock"):
                    opts.append((ev.prim, _ev_name(ev), _ev_value(ev)))
                    for p, _pr, n in _attachments(res, ev.recv):
                        if (p.cls, n) not in parents:
                            parents.append((p.cls, n))
                paths.append((res.raised, opts, parents))
            out[k] = {"arg": arg, "paths": paths}
        except Unknown as e:
            out[k] = {"unknown": str(e)}
    return out


def _step_list(steps):
    """The entries of a steps term the code built: a list / tuple, or the sequence a comprehension over the program made
    (`_Seq`: its entries are the ones of the case); None when it is something else."""
    if isinstance(steps, (list, tuple)):
        return list(steps)
    if isinstance(steps, _Seq):
        return list(steps.items)
    return None


def _recover_rendering(ctx, f):
    """R5 for the recover program (SETTING_C2_RECOVER, the http-get server output): per opcode of the recover table - a flag
    opcode carries True, a valued one (prepend / append) an int, the number of bytes to strip, symbolic - the generator is
    followed with a one-entry program.  On EVERY path (a test the facts about the symbolic argument do not decide is
    followed both ways: an int argument is not the object True, but nothing says it is unequal to True or falsy) exactly
    one data-transform block reaches the profile, as `output` of the `server` block of the http-get block, and its steps
    are that one entry: the bare lower-cased name for a flag, the pair (name, text made from the length) for a valued
    opcode.  Lemma R: `c * n` / `n * c` with a one-character constant c is a text of length n (the placeholder the
    configuration determines); another function of the length is undecided."""
    if "SETTING_C2_RECOVER" not in _settings_enum(ctx):
        return
    diffs, unknown = [], []
    n = 0
    for opcode, has_arg in sorted(tables.RECOVER_STEPS.items()):
        want = opcode.lower()
        arg = _Val(f"length argument of {want}", "int") if has_arg else None
        label = opcode
        n += 1
        try:
            paths = _generate(ctx, [("SETTING_C2_RECOVER", _Seq([(want, arg if has_arg else True)], "recover program"))])
            if any("settings-loop" not in r.flags for r in paths):
                raise Unknown("the settings loop of from_beacon_config was not found")
            for res in paths:
                if res.raised:
                    diffs.append(f"{label}: generation raises {res.raised}")
                    continue
                emitted, unk = _emitted_blocks(res)
                if unk:
                    unknown += [f"{label}: {u}" for u in unk if f"{label}: {u}" not in unknown]
                    continue
                dts = [(p, name, child) for p, _prim, name, child, _ne in emitted if child.cls == "DataTransformBlock"]
                if len(dts) != 1:
                    diffs.append(f"{label}: {len(dts)} data-transform blocks reach the profile (exactly one expected: the step is dropped or duplicated)")
                    continue
                p, name, child = dts[0]
                up = [(q.cls, nm) for q, _prim, nm, c2, _ne in emitted if c2 is p]
                if name != "output" or p.cls != "HttpOptionsBlock" or up != [("HttpGetBlock", "server")]:
                    diffs.append(f"{label}: the block is attached as {_show(name)} of a {p.cls} that is attached as {up} (required: output of the server block of the http-get block)")
                    continue
                if any(_root(ev.recv) is child for ev in res.events):
                    unknown.append(f"{label}: the data-transform block is also filled by method calls: its statements are not read off the constructor")
                    continue
                steps = _step_list(_dt_steps(child))
                if steps is None:
                    unknown.append(f"{label}: the steps of the data-transform block are not a list the code built ({_show(_dt_steps(child))[:60]})")
                    continue
                if not has_arg:
                    if steps != [want]:
                        diffs.append(f"{label}: steps {_show(steps)[:80]} (the configuration states the flag step {want!r})")
                    continue
                st = steps[0] if len(steps) == 1 else None
                if not isinstance(st, (list, tuple)) or len(st) != 2 or st[0] != want:
                    diffs.append(f"{label}: on a path the entry ({want!r}, <length>) is rendered as steps {_show(steps)[:80]} (the configuration states the step {want!r} with one argument of that length; "
                                 "a bare name is not a statement DataTransformBlock knows: the step is lost)")
                elif not _depends_on(st[1], arg):
                    diffs.append(f"{label}: the argument of step {want!r} is {_show(st[1])[:60]}: not made from the entry's length")
                else:
                    t = st[1]
                    mult = isinstance(t, _Obj) and t.callee == "binop Mult" and len(t.args) == 2 and any(x is arg for x in t.args) and \
                        any(isinstance(x, (str, bytes)) and len(x) == 1 for x in t.args)
                    if not mult:
                        unknown.append(f"{label}: the argument of step {want!r} is {_show(t)[:60]}: a function of the length the rule has no lemma for (lemma R knows <one character> * length)")
        except Unknown as e:
            unknown.append(f"{label}: {e}")
    diffs = [x for i, x in enumerate(diffs) if x not in diffs[:i]]
    text = "SETTING_C2_RECOVER rendering"
    if diffs:
        ctx.ob("R5", "AGREE", f, text, False, "recover-program entries rendered unfaithfully: " + "; ".join(diffs)[:600])
    elif unknown:
        ctx.undecided("R5", "AGREE", f, text, "cannot read what from_beacon_config does with a recover-program entry: " + "; ".join(unknown)[:400])
    else:
        ctx.ob("R5", "AGREE", f, text, True,
               f"each of the {n} opcodes of the recover table (flags carry True, prepend / append a symbolic int length) is rendered, on every path, into the one step the table prescribes - "
               "the bare name, or (name, <one character> * length) - of the one data-transform block attached as output of the http-get server block")


def r4_r5(ctx):
    f = ctx.repo.func("c2profile.C2Profile.from_beacon_config")
    client = {}
    n = 0
    # what R11 looks at: site label -> {"unknown": [why]} / {"data": [(datum, symbolic argument, term handed over, (builder class, primitive, statement name))]}
    sites: Dict[str, dict] = collections.OrderedDict()
    for label in ("SETTING_C2_REQUEST", "SETTING_C2_POSTREQ"):
        an = client[label] = _client_analysis(ctx, label)
        site = sites[label] = {"what": "transform arguments", "unknown": [], "data": []}
        for name in ("prepend", "append", "header", "parameter"):
            n += 1
            case = an.get(name.upper())
            if case is None or "unknown" in case:
                ctx.undecided("R4", "TAINT", f, f"{label} valued step {name}", "cannot follow from_beacon_config for a program entry " + name.upper() + ": " + (case or {}).get("unknown", "not an opcode of the reference tables"))
                site["unknown"].append(f"{name}: " + (case or {}).get("unknown", "not an opcode of the reference tables"))
                continue
            terms = [t for o in case["paths"] for t in _step_arg_terms(o, name)]
            site["data"] += [(f"{name} step", case["arg"], t, ("DataTransformBlock", "steps", name)) for t in terms]
            if not terms:
                site["unknown"].append(f"{name}: the argument does not reach a data-transform block (see R5)")
            kinds = sorted({_arg_kind(t, case["arg"]) for t in terms})
            if any(k in _NOT_ENCODED for k in kinds):
                ctx.ob("R4", "TAINT", f, f"{label} valued step {name}", False,
                       f"the byte argument of a {name.upper()} entry reaches the data-transform block as {[_show(t)[:60] for t in terms][:2]} ({kinds}): " + _not_encoded_reason(terms, case["arg"]))
            elif not kinds or any(k not in ("bytes", "escaped") for k in kinds):
                ctx.undecided("R4", "TAINT", f, f"{label} valued step {name}",
                              f"the argument of the {name} step does not reach a data-transform block in a form the rule knows ({kinds or 'no such step'}; see R5)")
            else:
                ctx.ob("R4", "TAINT", f, f"{label} valued step {name}", True,
                       f"the byte argument of a {name.upper()} entry reaches the data-transform block as {kinds}: escape-encoded (the raw bytes, which the STRING builder encodes, or one of the byte-wise escapers of lemmas E1 / E1b / E1c; what the literal encoder then does to that text is R11's)")
    ctx.rep.count("valued_step_sites", n, floor=2)
    # process-inject transforms
    pi = {}
    for key in ("SETTING_PROCINJ_TRANSFORM_X86", "SETTING_PROCINJ_TRANSFORM_X64"):
        an = pi[key] = _procinj_analysis(ctx, key)
        unknown = [f"{k}: {c['unknown']}" for k, c in an.items() if "unknown" in c]
        site = sites[key] = {"what": "transform arguments", "unknown": list(unknown), "data": []}
        if unknown:
            ctx.undecided("R4", "TAINT", f, f"{key} arguments", "cannot follow from_beacon_config for a transform entry: " + "; ".join(unknown)[:300])
            continue
        seen, raised = {}, []
        for k, c in an.items():
            raised += [r for r, _o, _p in c["paths"] if r]
            handed = [x for _r, opts, _p in c["paths"] for prim, name, x in opts if prim == "set_option" and name == k]
            ks = {_arg_kind(x, c["arg"]) for x in handed}
            seen[k] = sorted(ks)
            site["data"] += [(f"{k} option", c["arg"], x, ("StageTransformBlock", "set_option", k)) for x in handed]
            if not handed:
                site["unknown"].append(f"{k}: the argument does not reach a set_option call")
        if raised:
            site["unknown"].append(f"generation raises {sorted(set(raised))} (R4)")
        if raised:
            ctx.ob("R4", "TAINT", f, f"{key} arguments", False, f"generation raises {sorted(set(raised))} for a prepend/append entry of the transform")
        elif any(k in _NOT_ENCODED for ks in seen.values() for k in ks):
            ctx.ob("R4", "TAINT", f, f"{key} arguments", False, f"prepend/append bytes reach set_option as {seen}: " + _not_encoded_reason(
                [x for c in an.values() for _r, opts, _p in c["paths"] for _pr, _nm, x in opts], None))
        elif any(not ks or any(x not in ("bytes", "escaped") for x in ks) for ks in seen.values()):
            ctx.undecided("R4", "TAINT", f, f"{key} arguments", f"the prepend/append arguments reach set_option as {seen}: a form the rule does not know (or not at all)")
        else:
            ctx.ob("R4", "TAINT", f, f"{key} arguments", True, f"prepend/append bytes are escape-encoded before set_option or handed over as bytes ({seen}; lemmas E1 / E1b / E1c)")
    # pivot frame headers: a bytes value handed to a global option
    for key in ("SETTING_TCP_FRAME_HEADER", "SETTING_SMB_FRAME_HEADER"):
        if key not in _settings_enum(ctx):
            continue
        arg = _Val(f"bytes value of {key}", "bytes")
        site = sites[key] = {"what": "value", "unknown": [], "data": []}
        try:
            paths = _generate(ctx, [(key, arg)])
        except Unknown as e:
            ctx.undecided("R4", "TAINT", f, f"{key} value", f"cannot follow from_beacon_config for the setting: {e}")
            site["unknown"].append(str(e))
            continue
        raised = sorted({r.raised for r in paths if r.raised})
        handed = [(ev, x) for r in paths for ev in _prim_events(r, prims=("set_option",)) for x in [_ev_value(ev)] if _depends_on(x, arg)]
        terms = [x for _ev, x in handed]
        site["data"] += [("option value", arg, x, (ev.recv.cls, "set_option", _ev_name(ev))) for ev, x in handed]
        if raised or not handed:
            site["unknown"].append(f"generation raises {raised} (R4)" if raised else "the value does not reach a set_option call")
        kinds = sorted({_arg_kind(t, arg) for t in terms})
        if raised:
            ctx.ob("R4", "TAINT", f, f"{key} value", False, f"generation raises {raised} for a frame-header value")
        elif any(k in _NOT_ENCODED for k in kinds):
            ctx.ob("R4", "TAINT", f, f"{key} value", False, f"the bytes value reaches set_option as {[_show(t)[:60] for t in terms][:2]} ({kinds}): " + _not_encoded_reason(terms, arg))
        elif not kinds or any(k not in ("bytes", "escaped") for k in kinds):
            ctx.undecided("R4", "TAINT", f, f"{key} value", f"the value does not reach a set_option call in a form the rule knows ({kinds or 'not emitted'})")
        else:
            ctx.ob("R4", "TAINT", f, f"{key} value", True, f"the bytes value reaches set_option as {kinds}: escape-encoded (the raw bytes, which the STRING builder encodes, or one of the byte-wise escapers of lemmas E1 / E1b / E1c; what the literal encoder then does to that text is R11's)")
    # ---- R5 siblings
    for label, parent in (("SETTING_C2_REQUEST", "HttpGetBlock"), ("SETTING_C2_POSTREQ", "HttpPostBlock")):
        diffs, unknown = [], []
        for case_label, case in client[label].items():
            if "unknown" in case:
                unknown.append(f"{case_label}: {case['unknown']}")
                continue
            for o in case["paths"]:
                d, u = _case_diffs(case_label, case["kind"], case["entries"], case["arg"], o)
                if not d and not u and o["parent"] != [(parent, "client")]:
                    d.append(f"{case_label}: the receiving block is attached as {o['parent']} (required: client of a {parent})")
                diffs += [x for x in d if x not in diffs]
                unknown += [x for x in u if x not in unknown]
        if diffs:
            ctx.ob("R5", "AGREE", f, f"{label} rendering", False, "program entries rendered unfaithfully: " + "; ".join(diffs)[:500])
        elif unknown:
            ctx.undecided("R5", "AGREE", f, f"{label} rendering", "cannot read what from_beacon_config does with a program entry: " + "; ".join(unknown)[:400])
        else:
            ctx.ob("R5", "AGREE", f, f"{label} rendering", True,
                   f"each of the {len(client[label])} kinds of program entry (static header/parameter lines, flag steps, valued steps, BUILD selectors; arguments symbolic) "
                   f"is rendered into the one statement the opcode tables prescribe, in the client block of the {parent}")
    _recover_rendering(ctx, f)
    a, b = client["SETTING_C2_REQUEST"], client["SETTING_C2_POSTREQ"]
    if any("unknown" in c for c in list(a.values()) + list(b.values())):
        ctx.undecided("R5", "AGREE", f, "SETTING_C2_REQUEST ~ SETTING_C2_POSTREQ", "one of the client branches could not be followed for every program entry")
    else:
        diffs, encodings = [], []
        for case_label in a:
            sa, sb = sorted(_obs_signature(o) for o in a[case_label]["paths"]), sorted(_obs_signature(o) for o in b[case_label]["paths"])
            if sa != sb:
                # the same statements with the argument in the same places, encoded by two different functions: whether
                # each of them is an escape-encoding is R4's question - equality of two encodings is not decided here
                ta = sorted(_obs_signature(o, a[case_label]["arg"]) for o in a[case_label]["paths"])
                tb = sorted(_obs_signature(o, b[case_label]["arg"]) for o in b[case_label]["paths"])
                (encodings if ta == tb else diffs).append(f"{case_label}: get={sa} post={sb}")
        if not diffs and encodings:
            ctx.undecided("R5", "AGREE", f, "SETTING_C2_REQUEST ~ SETTING_C2_POSTREQ",
                          "the two client settings emit the same statements but encode the entry's argument differently - by different functions, or one hands the bytes over unchanged (judged one by one in R4 / R11): " + "; ".join(encodings)[:400])
        else:
            ctx.ob("R5", "AGREE", f, "SETTING_C2_REQUEST ~ SETTING_C2_POSTREQ", not diffs,
                   "the http-get and http-post client settings render every kind of program entry into the same terms (decorations, blocks, flag steps, valued-step escaping)" if not diffs else
                   "sibling settings differ: " + "; ".join(diffs)[:500])
    x86, x64 = pi["SETTING_PROCINJ_TRANSFORM_X86"], pi["SETTING_PROCINJ_TRANSFORM_X64"]
    if any("unknown" in c for c in list(x86.values()) + list(x64.values())):
        ctx.undecided("R5", "AGREE", f, "PROCINJ_TRANSFORM_X86 ~ X64", "one of the process-inject transform settings could not be followed")
    else:
        def sig(an, abstract=False):
            return {k: sorted(_show([r, [(p, nm, _abstract_encoding(x, c["arg"]) if abstract else x) for p, nm, x in opts]]) for r, opts, _p in c["paths"]) for k, c in an.items()}

        def parents(an):
            return sorted({p for c in an.values() for _r, _o, ps in c["paths"] for p in ps})

        same = sig(x86) == sig(x64)
        names = parents(x86) == [("ProcessInjectBlock", "transform_x86")] and parents(x64) == [("ProcessInjectBlock", "transform_x64")]
        ok = same and names
        if names and not same and sig(x86, True) == sig(x64, True):
            # the same options with the argument in the same places, encoded by two different functions (or handed over
            # unchanged in one of them): each encoding is judged on its own by R4 / R11, their equality is not decided here
            ctx.undecided("R5", "AGREE", f, "PROCINJ_TRANSFORM_X86 ~ X64",
                          f"the two settings emit the same options but encode the entry's argument differently (judged one by one in R4 / R11): x86={sig(x86)} x64={sig(x64)}"[:500])
        else:
            ctx.ob("R5", "AGREE", f, "PROCINJ_TRANSFORM_X86 ~ X64", ok,
                   "the two process-inject transform settings render a prepend / append entry into the same terms, each under its own block name" if ok else
                   f"the x86 and x64 process-inject transform settings differ: x86={sig(x86)} attached {parents(x86)}; x64={sig(x64)} attached {parents(x64)}"[:500])
    dns = {}
    unknown = []
    keys = sorted(k[len("SETTING_DNS_BEACON_"):] for k in _settings_enum(ctx) if k.startswith("SETTING_DNS_BEACON_"))
    value = _Val("value of the setting")
    for key in keys:
        try:
            per_path = []
            for res in _generate(ctx, [("SETTING_DNS_BEACON_" + key, value)]):
                if "settings-loop" not in res.flags:
                    raise Unknown("the settings loop of from_beacon_config was not found")
                per_path.append((res.raised, [(ev.recv.cls, ev.prim, _ev_name(ev), _ev_value(ev)) for ev in _prim_events(res, prims=PRIM_ARITY)]))
            dns[key] = per_path
        except Unknown as e:
            unknown.append(f"{key}: {e}")
    if unknown:
        ctx.undecided("R5", "AGREE", f, "DNS_BEACON_* siblings", "cannot follow from_beacon_config: " + "; ".join(unknown)[:300])
    else:
        def right(k, p):
            raised, evs = p
            return not raised and len(evs) == 1 and evs[0][:3] == ("DnsBeaconBlock", "set_option", k.lower()) and evs[0][3] is value

        bad = {k: v for k, v in dns.items() if not all(right(k, p) for p in v)}
        ok = len(dns) >= 6 and not bad
        ctx.ob("R5", "AGREE", f, "DNS_BEACON_* siblings", ok,
               f"each of the {len(dns)} DNS subhost settings is emitted, with its (symbolic) value, under its own lower-cased name into the dns-beacon block" if ok else f"DNS subhost settings not emitted under their own name: {_show(bad)[:400]}")
    return sites


# ---------------------------------------------------------------------------- R11
# A byte argument reaches the profile text through TWO functions: the conversion the generator site applies (none, or an
# escaper - `_conversion`) and the path of the literal encoder `value_to_string` that the resulting *type* takes (bytes
# path / str path).  R4 judges the first on its own, C12.R1 the bytes path on its own; R11 judges the composition for a
# value the generator has already escaped: the str path then rewrites a text that has the escaper's token structure
# (lemma E4), and every rewrite on that path must only ever match a token the escaper emitted as a unit.
# Lemmas (E5 is lemma L2b of rules/c12.py and is evaluated by its `_splits_escaped_backslash`):
#  E5  str.replace(backslash + X, R) applied to escaped text: if the escaper can emit X as a plain token, the bytes
#      (0x5c, X) give backslash backslash X and the left-to-right scan matches at the SECOND backslash - the escaped
#      backslash is split and its first half pairs with R[0]; if the escaper always escapes X, every match is the pair.
#      X = ' is plain for the unpinned repr (E1) and for the unicode_escape codec (E1c), never for the pinned repr (E1b)
#  E6  str.replace(backslash, R) rewrites the token of the backslash byte (two backslashes) to R + R, which the STRING
#      decoder reads as one backslash byte only if R is the backslash itself (the spellings of a backslash byte are two
#      backslashes or backslash x5c, and the latter is not of the form R + R)
#  E7  the quote escape replace('"', backslash + '"') turns the plain token `"` (never escaped by any of the three escapers)
#      into a pair and touches nothing else; a pattern with a character outside 0x20..0x7e never matches escaped text
_C12_NEEDS = ("_encoder_paths", "_literal_body", "_peel", "_is_raw", "_splits_escaped_backslash", "_Unsupported", "_show")


def _c12_tools():
    """The encoder analysis of rules/c12.py (path-wise terms of value_to_string under a named type assumption, lemma L2b)."""
    try:
        from rules import c12
    except ImportError:
        return None
    return c12 if all(hasattr(c12, n) for n in _C12_NEEDS) else None


def _str_path_layers(ctx):
    """The rewrites `value_to_string` applies to a *str* argument, read from the analysed function itself: per path the
    list of layers (outermost first) on top of the parameter -> (paths, None) or (None, why not understood)."""
    hit = ctx.__dict__.get("_c13_str_path")
    if hit is not None:
        return hit
    res = None
    c12 = _c12_tools()
    if c12 is None:
        res = (None, "the encoder analysis of rules/c12.py is not available")
    elif not ctx.repo.has_func("c2profile.value_to_string"):
        res = (None, "the literal encoder value_to_string is not a function of c2profile any more")
    else:
        vf = ctx.repo.func("c2profile.value_to_string")
        try:
            paths = c12._encoder_paths(ctx, vf, "str")
        except c12._Unsupported as e:
            paths, res = [], (None, f"value_to_string is not understood by the path-wise value-flow analysis of C12 ({e})")
        out = []
        for (kind, val), guessed in paths:
            bad, und = [], []
            core = c12._literal_body(kind, val, guessed, bad, und)
            if core is None:
                res = (None, "for a str value value_to_string does not return the text between two double quotes (C12.R1 judges that): " + "; ".join(bad + und)[:200])
                break
            layers, x = c12._peel(core)
            if guessed or not c12._is_raw(x):
                res = (None, f"the str path of value_to_string is not a chain of rewrites of the argument ({c12._show(val)[:100]})")
                break
            out.append(list(layers))
        if res is None:
            res = (out, None) if out else (None, "value_to_string has no path for a str value")
    ctx._c13_str_path = res
    return res


def _compose(c12, model: _Tokens, layers) -> Tuple[List[str], List[str]]:
    """The rewrites of one path of value_to_string (`layers`, outermost first) applied to text emitted by escaper `model`
    -> (violations, things not understood).  Lemmas E5 - E7."""
    bad, und = [], []
    clean = True  # the text still has the escaper's token structure (every rewrite so far was E7 / an always-escaped pair)
    for k in range(len(layers) - 1, -1, -1):  # in the order of application
        l = layers[k]
        if l.tag != "rep":
            und.append(f"the text passes through {c12._show(l)[-70:]}, which is not understood")
            clean = False
            continue
        a, b = l.args[1], l.args[2]
        if not isinstance(a, str) or not isinstance(b, str) or a == "":
            und.append(f"rewrite {a!r} -> {b!r} is not understood")
            clean = False
            continue
        if a == b or any(not 0x20 <= ord(c) <= 0x7E for c in a) or (a, b) == ('"', '\\"'):
            continue  # E7
        split = c12._splits_escaped_backslash(model, a, b, layers[k + 1:])
        if split is not None:
            (bad if split[0] else und).append(split[1])
            clean = clean and split[0]
            continue
        if not clean:
            und.append(f"{a!r} -> {b!r} is applied to text that was rewritten before in a way that is not understood")
        elif a == "\\":
            bad.append(f"replace({a!r}, {b!r}) rewrites the first character of every escape token: the backslash byte (two backslashes) becomes {b + b!r}, "
                       f"which does not decode to one backslash byte (lemma E6), and the backslash of every other escape token becomes {b!r}")
        elif a == "\\'" and not model.plain("'") and model.key != "mapping":
            if b != "'":
                bad.append(f"the escaped single quote \\' (always a pair of {model.name}) is rewritten to {b!r}: only the plain quote keeps the byte")
        else:
            und.append(f"the escaped text is additionally rewritten ({a!r} -> {b!r}); not known to keep the bytes")
            clean = False
    return bad, und


def _method_func(ctx, cls: str, attr: str, hops=0):
    """The package function that `attr` of builder class `cls` is (through the bases and class-level aliases); None: not found."""
    it = _Interp(ctx, "c2profile", _Oracle())
    for mn, cnode in it._mro(cls):
        for st in cnode.body:
            if isinstance(st, (ast.FunctionDef, ast.AsyncFunctionDef)) and st.name == attr:
                return ctx.repo.module(mn).funcs.get(f"{cnode.name}.{attr}")
            if isinstance(st, ast.Assign) and len(st.targets) == 1 and isinstance(st.targets[0], ast.Name) and st.targets[0].id == attr:
                d = dotted(st.value)
                if d and "." in d and hops < 4:
                    c2, a2 = d.rsplit(".", 1)
                    return _method_func(ctx, c2.split(".")[-1], a2, hops + 1)
                return None
    return None


def _encoder_feed(ctx, builder, kind: str) -> Tuple[str, Optional[str]]:
    """What builder parameter `builder` = (class, primitive | "steps", statement name) does with a value of Python type
    `kind` before the literal encoder sees it: ("direct", None) - on every path the value itself, and nothing else made
    from it, is handed to value_to_string; ("unknown", why) otherwise.  The builder is followed once with the value
    symbolic (type tag only)."""
    cache = ctx.__dict__.setdefault("_c13_feed_cache", {})
    key = (builder, kind)
    if key in cache:
        return cache[key]
    cls, prim, name = builder
    v = _Val("value handed to the builder", kind)
    try:
        if not isinstance(cls, str) or not isinstance(name, str):
            raise Unknown("the receiving block or the statement name is not a constant")
        fn = _method_func(ctx, cls, "__init__" if prim == "steps" else prim)
        if fn is None:
            raise Unknown(f"{cls}.{'__init__' if prim == 'steps' else prim} is not a method of the package")
        ps = params(fn.node)
        if len(ps) < (2 if prim == "steps" else 3):
            raise Unknown(f"signature of {fn.qualname}")
        handed = [_Seq([(name, v)], "steps")] if prim == "steps" else [name, v]
        runs = _run_func(ctx, fn, lambda it: [_Sym(ps[0], cls=cls)] + handed)
        res = None
        for r in runs:
            if r.raised:
                raise Unknown(f"{fn.qualname} raises {r.raised} for the value (R8 / R9)")
            fed = [(ev.args + list(ev.kwargs.values()) + [None])[0] for ev in r.events
                   if ev.attr == "<call>" and isinstance(ev.recv, _FnRef) and ev.recv.func.fq == "c2profile.value_to_string"]
            other = [x for x in fed if x is not v and _depends_on(x, v)]
            if other:
                raise Unknown(f"{fn.qualname} converts the value before the literal encoder sees it ({_show(other[0])[:60]})")
            if not any(x is v for x in fed):
                raise Unknown(f"on a path of {fn.qualname} the value is not handed to value_to_string (which encoder makes the STRING token is C11.R6's question)")
        res = ("direct", None) if runs else ("unknown", f"{fn.qualname} has no path")
    except Unknown as e:
        res = ("unknown", f"cannot tell which path of the literal encoder the value takes: {e}")
    cache[key] = res
    return res


def r11(ctx, sites=None):
    """Generator escaping composed with the literal encoder.  For every byte-valued setting datum that from_beacon_config
    hands to a builder parameter (the valued steps of the two client programs, the process-inject transform arguments,
    the pivot frame headers): (a) the conversion applied at the site (`_conversion`: none / unpinned repr slice / pinned
    repr slice / unicode_escape codec chain), (b) the builder parameter is followed to the literal encoder (`_encoder_feed`),
    (c) the rewrites value_to_string applies on the path the resulting type takes are read from the analysed function
    (`_str_path_layers`, the encoder analysis of C12) and judged against the escaper's token structure (`_compose`).
    One obligation per generator site.  A value handed over as bytes takes the bytes path, which C12.R1 decides."""
    f = ctx.repo.func("c2profile.C2Profile.from_beacon_config")
    if sites is None:
        from csverif.report import Report

        saved, ctx.rep = ctx.rep, Report(ctx.rep.prop, ctx.rep.tier)
        try:
            sites = r4_r5(ctx)
        finally:
            ctx.rep = saved
    c12 = _c12_tools()
    for label, site in sites.items():
        text = f"{label} {site['what']} -> literal encoder"
        # (datum, what was found about it) per verdict; data with the same finding are reported together
        bad, und, fine = [], [("", x) for x in site["unknown"]], []
        for datum, arg, term, builder in site["data"]:
            kind, info, desc = _conversion(term, arg)
            target = f"{builder[0]}(steps=..)" if builder[1] == "steps" else f"{builder[0]}.{builder[1]}"
            if kind == "bad":
                bad.append((datum, info))
                continue
            if kind not in ("identity", "escaper", "mapping"):
                und.append((datum, f"handed to {target} as {desc}: " + {"plain": "not an escaper (R4 judges that)", "lost": "the argument is not in it (R5 judges that)"}.get(kind, "a conversion the rule does not know")))
                continue
            status, why = _encoder_feed(ctx, builder, "bytes" if kind == "identity" else "str")
            if status != "direct":
                und.append((datum, why))
                continue
            if kind == "identity":
                fine.append((datum, f"handed to {target} unchanged - a bytes value takes the bytes path of value_to_string, which C12.R1 decides"))
                continue
            paths, why = _str_path_layers(ctx)
            if paths is None or c12 is None:
                und.append((datum, f"{desc} is handed to {target} as str, but {why or 'the encoder analysis of rules/c12.py is not available'}"))
                continue
            rewrites = sorted({f"replace({l.args[1]!r}, {l.args[2]!r})" if l.tag == "rep" else c12._show(l)[-50:] for p in paths for l in p})
            b, u = [], []
            for p in paths:
                pb, pu = _compose(c12, info, p)
                b, u = b + pb, u + pu
            head = f"{desc} is handed to {target} as str and takes the str path of value_to_string ({', '.join(rewrites) or 'no rewrite'})"
            if b:
                bad.append((datum, head + ": " + "; ".join(dict.fromkeys(b))))
            elif u:
                und.append((datum, head + ": " + "; ".join(dict.fromkeys(u))))
            elif kind == "mapping":
                und.append((datum, head + ": no rewrite of that path splits an escaped backslash, but whether the mapping escapes every byte that needs escaping is not judged (R4)"))
            else:
                fine.append((datum, head + f": every rewrite matches whole tokens of {info.name} only (lemmas E5 - E7)"))

        def grouped(found):
            by = collections.OrderedDict()
            for datum, what in found:
                by.setdefault(what, [])
                if datum and datum not in by[what]:
                    by[what].append(datum)
            return "; ".join((", ".join(ds) + ": " if ds else "") + what for what, ds in by.items())

        if bad:
            ctx.ob("R11", "ESC", f, text, False, (grouped(bad) + " - the argument is not byte-exact after the round trip")[:900])
        elif und or not fine:
            ctx.undecided("R11", "ESC", f, text, (grouped(und) or "no byte argument of the setting reaches a builder")[:700])
        else:
            ctx.ob("R11", "ESC", f, text, True, grouped(fine)[:700])
    ctx.rep.count("byte_argument_sites", len(sites), floor=4)


# ---------------------------------------------------------------------------- R6
def _nonempty_polarity(test: ast.AST, subject: str, suffix: str = ".tree.children") -> Optional[bool]:
    """True: `test` holding means the block expression `subject` has children (suffix "": the collection `subject` has
    elements); False: it means it has none."""
    want = subject + suffix
    if src(test) == want:
        return True
    if isinstance(test, ast.Call) and dotted(test.func) in ("len", "bool") and len(test.args) == 1 and src(test.args[0]) == want:
        return True
    if isinstance(test, ast.Compare) and len(test.ops) == 1:
        l, op, r = test.left, test.ops[0], test.comparators[0]
        for x, y, flip in ((l, r, False), (r, l, True)):
            if isinstance(x, ast.Call) and dotted(x.func) == "len" and len(x.args) == 1 and src(x.args[0]) == want and isinstance(_c(y), int):
                k = _c(y)
                o = type(op)
                if flip:
                    o = {ast.Lt: ast.Gt, ast.Gt: ast.Lt, ast.LtE: ast.GtE, ast.GtE: ast.LtE}.get(o, o)
                if (o is ast.Gt and k == 0) or (o is ast.GtE and k == 1) or (o is ast.NotEq and k == 0):
                    return True
                if (o is ast.Eq and k == 0) or (o is ast.Lt and k == 1) or (o is ast.LtE and k == 0):
                    return False
            if src(x) == want and isinstance(y, (ast.List, ast.Tuple)) and not y.elts:
                if isinstance(op, ast.NotEq):
                    return True
                if isinstance(op, ast.Eq):
                    return False
    return None


def _test_forms(f, test: ast.AST, keep=()) -> list:
    """A branch test as written and with its single-definition temporaries substituted (`has_content = bool(x.tree.children)
    ... if has_content:` is the test `bool(x.tree.children)`); the names in `keep` (the subject the caller looks for) are
    left alone."""
    out = [test]
    try:
        e = inline(f.node, test, stop=frozenset(keep))
    except Exception:
        e = None
    if e is not None and src(e) != src(test):
        out.append(e)
    return out


def _guarded_nonempty(ctx, f, call: ast.Call, child: Optional[ast.AST]) -> bool:
    if child is None:
        return False
    subj = src(child)
    for _t, pol, node in dominating_conditions(ctx, f, call):
        for test in _test_forms(f, node, {n.id for n in ast.walk(child) if isinstance(n, ast.Name)}):
            p = _nonempty_polarity(test, subj)
            if p is not None and p == pol:
                return True
    return False


def r6(ctx):
    f = ctx.repo.func("c2profile.C2Profile.from_beacon_config")
    fv = FuncView.of(f.node)
    attach_calls = []
    for c in fn_calls(f.node):
        if isinstance(c.func, ast.Attribute):
            cls = _block_class(ctx, f, c.func.value)
            if cls is not None and _primitive_of(ctx, cls, c.func.attr) in ATTACH:
                attach_calls.append((c, cls, _primitive_of(ctx, cls, c.func.attr)))
    n = 0
    in_loop = []
    for c, cls, prim in attach_calls:
        if fv.enclosing(c, (ast.For, ast.AsyncFor, ast.While)) is not None:
            in_loop.append((c, cls, prim))
            continue
        # epilogue: after all settings are processed a block is attached only when it has content
        n += 1
        child = _call_arg(c, 1, "config_block")
        ccls = _block_class(ctx, f, child) if child is not None else None
        # (a data transform always has its steps / termination children - as for the attachments inside the loop; that it has statements is R10's business)
        ok = prim == "set_non_empty_config_block" or _guarded_nonempty(ctx, f, c, child) or ccls == "DataTransformBlock"
        name = _call_arg(c, 0, "option")
        ctx.ob("R6", "DOM", f, f"epilogue {prim}({src(name) if name is not None else ''}) on {cls}", ok,
               ("attached only when non-empty" if ccls != "DataTransformBlock" or prim == "set_non_empty_config_block" else
                "a data transform always has its steps/termination children (that it has statements is R10's business)") if ok else
               "block attached unconditionally: an empty block would be emitted", c)
    ctx.rep.count("epilogue_attachments", n, floor=8)
    g = ctx.repo.func("c2profile.ConfigBlock.set_non_empty_config_block")
    gp = params(g.node)
    calls = [c for c in fn_calls(g.node) if isinstance(c.func, ast.Attribute) and c.func.attr == "set_config_block" and dotted(c.func.value) == gp[0]]
    if len(calls) != 1 or len(gp) < 3:
        appends = [c for c in fn_calls(g.node) if isinstance(c.func, ast.Attribute) and c.func.attr in ("append", "extend", "insert")]
        if len(appends) == 1 and len(gp) >= 3:
            ok = _guarded_nonempty(ctx, g, appends[0], ast.Name(id=gp[2], ctx=ast.Load()))
            ctx.ob("R6", "DOM", g, "if config_block.tree.children", ok, "attaches only when the child has children" if ok else "set_non_empty_config_block does not test the child's children")
        else:
            ctx.undecided("R6", "DOM", g, "if config_block.tree.children", "set_non_empty_config_block neither delegates to set_config_block once nor appends to the tree once: its attachment cannot be located")
    else:
        child = _call_arg(calls[0], 1, "config_block")
        ok = child is not None and dotted(child) == gp[2] and _guarded_nonempty(ctx, g, calls[0], child)
        ctx.ob("R6", "DOM", g, "if config_block.tree.children", bool(ok), "attaches only when the child has children" if ok else "set_non_empty_config_block does not test the child's children")
    # attachments inside the settings loop are guarded by a non-emptiness condition or attach a DataTransformBlock
    for c, cls, prim in in_loop:
        if prim != "set_config_block":
            continue
        child_e = _call_arg(c, 1, "config_block")
        ccls = _block_class(ctx, f, child_e) if child_e is not None else None
        # the outermost enclosing loop is the settings loop; its value variable
        loops_ = [a for a in fv.ancestors(c) if isinstance(a, (ast.For, ast.AsyncFor))]
        outer = loops_[-1] if loops_ else None
        valv = dotted(outer.target.elts[1]) if outer is not None and isinstance(outer.target, ast.Tuple) and len(outer.target.elts) == 2 else None
        # names whose truthiness decides that something was put into the child block
        child = dotted(child_e) if child_e is not None else None
        fed = set()
        for k2 in fn_calls(f.node):
            if isinstance(k2.func, ast.Attribute) and child is not None and dotted(k2.func.value) == child:
                for a2 in list(k2.args[1:]) + [kw.value for kw in k2.keywords]:
                    if dotted(a2):
                        fed.add(dotted(a2))
        # ... and names the child's content is derived from: arguments of the call that makes the child, iterables of the
        # loops (not enclosing the attachment itself) in which the child is filled
        if child is not None:
            from csverif.astutil import assignments_to
            for _st, val in assignments_to(f.node, child):
                if isinstance(val, ast.Call):
                    for a2 in list(val.args) + [kw.value for kw in val.keywords]:
                        if dotted(a2):
                            fed.add(dotted(a2))
            own_loops = {id(a) for a in loops_}
            for k2 in fn_calls(f.node):
                if isinstance(k2.func, ast.Attribute) and dotted(k2.func.value) == child:
                    for a in fv.ancestors(k2):
                        if isinstance(a, (ast.For, ast.AsyncFor)) and id(a) not in own_loops and dotted(a.iter):
                            fed.add(dotted(a.iter))
        relevant = fed | ({valv} if valv else set())

        def _truthy_guard(node):
            from csverif.astutil import disjuncts
            for test in _test_forms(f, node, {nm.split(".")[0] for nm in relevant}):
                names = [dotted(x.args[0]) if isinstance(x, ast.Call) and dotted(x.func) == "bool" and len(x.args) == 1 and not x.keywords else dotted(x) for x in disjuncts(test)]
                if all(nm is not None and nm in relevant for nm in names):
                    return True
            return False

        dom = dominating_conditions(ctx, f, c)
        conds = [(t, node) for t, pol, node in dom if pol]
        # ... or a spelled-out non-emptiness test of one of those collections: len(x) > 0, x != [] ...
        spelled = any(_nonempty_polarity(test, nm, "") == pol for _t, pol, node in dom for test in _test_forms(f, node, {nm.split(".")[0] for nm in relevant}) for nm in relevant if not isinstance(test, ast.Name))
        guarded = any(_truthy_guard(node) for _t, node in conds) or spelled or _guarded_nonempty(ctx, f, c, child_e)
        ok = ccls == "DataTransformBlock" or guarded
        nm = _call_arg(c, 0, "option")
        ctx.ob("R6", "DOM", f, f"in-loop set_config_block({src(nm) if nm is not None else ''})", ok,
               f"in-loop attachment of {ccls}: " + ("a data transform always has its steps/termination children (that it has statements is R10's business)" if ccls == "DataTransformBlock" else
                                                     f"guarded by {[t for t, _n in conds][-2:]}" if guarded else "not guarded against an empty child"), c)


# ---------------------------------------------------------------------------- R10
# settings whose (pretty-printed) value is a sequence of entries: the transform / recover programs, the process-inject
# transforms, the execute list, the BeaconGate option strings (reference: the list-valued producers of
# beacon.SETTING_TO_PRETTYFUNC)
_SEQUENCE_SETTINGS = ("SETTING_C2_RECOVER", "SETTING_C2_REQUEST", "SETTING_C2_POSTREQ", "SETTING_PROCINJ_TRANSFORM_X86", "SETTING_PROCINJ_TRANSFORM_X64",
                      "SETTING_PROCINJ_EXECUTE", "SETTING_BEACON_GATE")


def _dt_steps(child: _Obj):
    """The steps term a DataTransformBlock construction is given (None: no argument)."""
    return child.kwargs.get("steps", child.args[0] if child.args else None)


def _emitted_blocks(res: _Res) -> Tuple[list, list]:
    """The blocks that end up in the profile a path returns: starting from the returned builder object, follow the attach
    calls made on it (set_config_block: always; set_non_empty_config_block: when the child has children by the
    summary of the primitives, `block_nonempty`) and the block-valued constructor keywords (ConfigBlock.init_kwargs
    attaches them).  -> ([(parent, primitive, name, child, child has children: True / False / None)], [things not known])."""
    root = res.ret
    if not (isinstance(root, _Obj) and root.cls is not None):
        raise Unknown("from_beacon_config does not return a builder object on some path (" + _show(root)[:40] + ")")
    out, unknown = [], []
    seen, todo = {id(root)}, [root]
    while todo:
        p = todo.pop(0)
        links = [(ev.prim, _ev_name(ev), _ev_value(ev), i) for i, ev in enumerate(res.events) if ev.prim in ATTACH and ev.recv is p]
        if p.cls != "DataTransformBlock":
            links += [("set_config_block", k, v, None) for k, v in p.kwargs.items() if isinstance(v, _Obj) and v.cls is not None]
        for prim, name, child, at in links:
            if not (isinstance(child, _Obj) and child.cls is not None):
                unknown.append(f"{p.cls}.{prim}({_show(name)}) attaches {_show(child)[:40]}: not a builder object the code made")
                continue
            ne = res.it.block_nonempty(child)
            if prim == "set_non_empty_config_block":
                then = res.it.block_nonempty(child, upto=at)  # the test is made when the primitive is called (what is put into the child later is R13's)
                if then is False:
                    continue
                if then is None:
                    unknown.append(f"{p.cls}.{prim}({_show(name)}): whether the {child.cls} has children is not known")
                    continue
            out.append((p, prim, name, child, ne))
            if id(child) not in seen:
                seen.add(id(child))
                todo.append(child)
    return out, unknown


# ---- R10 c / d: options built by joining a sequence-valued source (element nullness, device 4; guard dominance, device 2)
# Abstract value of "the elements of a sequence": ("e",) no elements known (an empty literal - neutral for the join),
# ("s", st) scalars, ("t", st) tuples whose components are st, with st "nonnull" (no element / component is None) or
# "maynull" (a None WITNESS flows into them: the literal None, or the pad value None of zip_longest); None = not known.
# Transfer rules (each a fact about a builtin, stated where it is applied); everything else is unknown -> undecided.
_SAME_ELEMENTS = {"list", "tuple", "sorted", "set", "frozenset", "iter", "reversed", "dict.fromkeys", "collections.OrderedDict.fromkeys", "OrderedDict.fromkeys"}
_STR_LISTS = {"split", "rsplit", "splitlines"}  # str / bytes methods that return a list of str / bytes objects


def _en_join(a, b):
    if a is None or b is None:
        return None
    if a == ("e",):
        return b
    if b == ("e",):
        return a
    if a[0] != b[0]:
        return None
    return (a[0], "maynull" if "maynull" in (a[1], b[1]) else "nonnull")


class _ElemNull:
    """Element nullness of sequence-valued expressions of the package, followed through properties of the same class,
    package functions (parameters bound to the call's arguments / defaults), comprehensions, and locals that are filled
    in a loop.  Nothing is executed: the value of an expression is one of the abstract values above."""

    def __init__(self, ctx):
        self.ctx = ctx
        self.depth = 0

    # -- nullness of one scalar expression under a binding env (name -> "nonnull" | "maynull" | ("tuple", st)) and the
    #    texts of expressions known to be not None
    def scalar(self, e, env, known):
        if src(e) in known:
            return "nonnull"
        if isinstance(e, ast.Constant):
            return "maynull" if e.value is None else "nonnull"
        if isinstance(e, ast.Name):
            v = env.get(e.id)
            return v if isinstance(v, str) else None
        if isinstance(e, ast.Subscript) and isinstance(e.value, ast.Name) and isinstance(env.get(e.value.id), tuple):
            return env[e.value.id][1]  # a component of a tuple element
        if isinstance(e, (ast.JoinedStr, ast.BinOp)) or (isinstance(e, ast.Call) and isinstance(e.func, ast.Attribute) and not isinstance(e.func.value, ast.Constant)
                                                          and e.func.attr in ("strip", "lstrip", "rstrip", "lower", "upper", "decode", "encode", "replace", "format")):
            return "nonnull"  # the result of a text operation is a text (the operation raises on None, it does not return it)
        return None

    def _filters(self, tests, pol=True):
        """Texts of the expressions the tests establish to be not None: `x is not None`, `x` (truthy), `x != None`."""
        known = set()
        for t in tests:
            for c in conjuncts(t):
                if isinstance(c, ast.Compare) and len(c.ops) == 1 and isinstance(c.ops[0], (ast.IsNot, ast.NotEq)) and _is_none(c.comparators[0]):
                    known.add(src(c.left))
                elif isinstance(c, ast.Compare) and len(c.ops) == 1 and isinstance(c.ops[0], (ast.IsNot, ast.NotEq)) and _is_none(c.left):
                    known.add(src(c.comparators[0]))
                elif isinstance(c, (ast.Name, ast.Subscript, ast.Attribute)):
                    known.add(src(c))
        return known

    def _bind(self, target, it, env):
        """Bind a loop / comprehension target to one element of a sequence with abstract value `it`."""
        if it is None or it == ("e",):
            return it == ("e",)
        kind, st = it
        if isinstance(target, ast.Name):
            env[target.id] = st if kind == "s" else ("tuple", st)
            return True
        if isinstance(target, (ast.Tuple, ast.List)) and kind == "t" and all(isinstance(x, ast.Name) for x in target.elts):
            for x in target.elts:
                env[x.id] = st
            return True
        return False

    def _element(self, elt, env, known):
        if isinstance(elt, ast.Tuple):
            sts = [self.scalar(x, env, known) for x in elt.elts]
            return None if any(x is None for x in sts) else ("t", "maynull" if "maynull" in sts else "nonnull")
        if isinstance(elt, ast.Name) and isinstance(env.get(elt.id), tuple):
            return ("t", env[elt.id][1])
        st = self.scalar(elt, env, known)
        return None if st is None else ("s", st)

    def expr(self, f, e, penv=None):
        """Abstract value of the elements of sequence expression `e` of function `f` (penv: parameter -> abstract scalar
        nullness of the argument bound to it, for parameters that are handed on as pad values)."""
        self.depth += 1
        try:
            return self._expr(f, e, penv or {}) if self.depth < 12 else None
        finally:
            self.depth -= 1

    def _expr(self, f, e, penv):
        ctx = self.ctx
        if isinstance(e, ast.Name) and e.id not in params(f.node):
            filled = self._filled_local(f, e.id, penv)
            if filled is not NotImplemented:
                return filled
        e = inline(f.node, e)
        if isinstance(e, (ast.List, ast.Tuple, ast.Set)):
            if not e.elts:
                return ("e",)
            out = ("e",)
            for x in e.elts:
                out = _en_join(out, self._element(x, {}, set()))
            return out
        if isinstance(e, (ast.ListComp, ast.GeneratorExp, ast.SetComp)) and len(e.generators) == 1:
            gen = e.generators[0]
            env: dict = {}
            it = self.expr(f, gen.iter, penv)
            if it == ("e",):
                return ("e",)
            if not self._bind(gen.target, it, env):
                return None
            return self._element(e.elt, env, self._filters(gen.ifs))
        if isinstance(e, ast.Attribute):
            owner = ctx.rs.expr_type(f, e.value)
            if owner and ctx.repo.has_func(f"{owner}.{e.attr}"):
                prop = ctx.repo.func(f"{owner}.{e.attr}")
                if any(dotted(d) in ("property", "cached_property", "functools.cached_property") for d in prop.node.decorator_list):
                    return self.func(prop, {})
            return None
        if isinstance(e, ast.Call):
            name = dotted(e.func)
            if name in _SAME_ELEMENTS and len(e.args) == 1 and not e.keywords:
                return self.expr(f, e.args[0], penv)  # the same elements (a dict made by fromkeys is iterated by its keys)
            if name in _SAME_ELEMENTS and not e.args and not e.keywords:
                return ("e",)
            if isinstance(e.func, ast.Attribute) and e.func.attr in _STR_LISTS:
                return ("s", "nonnull")  # pieces of a text: str / bytes objects
            if name in ("itertools.zip_longest", "zip_longest"):
                fill = kwarg(e, "fillvalue")
                st = "maynull" if fill is None else self.scalar(fill, penv, set())  # no fillvalue: the pad value is None
                if st == "maynull":
                    return ("t", "maynull")  # shorter inputs are padded with the fill value: None reaches the tuples
                return None  # (the inputs - often a starred list of iterators - are not followed)
            if name == "zip" and e.args and not e.keywords:
                out = ("e",)
                for a in e.args:
                    v = self.expr(f, a, penv)
                    out = _en_join(out, None if v is None else ("t", v[1]) if v != ("e",) else v)
                return out
            cal = ctx.rs.resolve_call(f, e)
            if cal.kind == "func" and cal.func is not None:
                bound = bind_args(e, cal.func.node, skip_self=isinstance(e.func, ast.Attribute) and cal.func.cls is not None)
                inner = {}
                for pname, arg in bound.items():
                    if arg is not None:
                        st = self.scalar(arg, penv, set())
                        if st is not None:
                            inner[pname] = st
                return self.func(cal.func, inner)
        return None

    def func(self, fn, penv):
        """Join over the values the function returns."""
        rets = [r for r in statements(fn.node) if isinstance(r, ast.Return)]
        if not rets or any(isinstance(n2, (ast.Yield, ast.YieldFrom)) for n2 in body_walk(fn.node)):
            return None
        out = ("e",)
        for r in rets:
            if r.value is None:
                return None
            out = _en_join(out, self.expr(fn, r.value, penv))
        return out

    def _filled_local(self, f, name, penv):
        """A local that starts as an empty container and is only ever grown by append / add / insert / `d[k] = ..` /
        setdefault (elements: the appended expression / the key) or extend / `+=` (the elements of the argument): the join
        over what is put in.  The appended expression is judged where it stands: loop targets it is bound by (elements of
        the sequence the loop runs over) and the conditions that dominate the statement.  NotImplemented: not such a local."""
        defs = assignments_to(f.node, name)
        plain = [(st, v) for st, v in defs if v is not None and isinstance(st, (ast.Assign, ast.AnnAssign))]
        if len(plain) != 1:
            return NotImplemented
        v0 = plain[0][1]
        empty = (isinstance(v0, (ast.List, ast.Dict, ast.Set, ast.Tuple)) and not (getattr(v0, "elts", None) or getattr(v0, "keys", None))) or \
            (isinstance(v0, ast.Call) and dotted(v0.func) in ("list", "dict", "set", "collections.OrderedDict", "OrderedDict") and not v0.args and not v0.keywords)
        if not empty:
            return NotImplemented
        fv = FuncView.of(f.node)
        puts, spreads, other = [], [], len(defs) - 1
        for n2 in body_walk(f.node):
            if isinstance(n2, ast.Call) and isinstance(n2.func, ast.Attribute) and isinstance(n2.func.value, ast.Name) and n2.func.value.id == name:
                if n2.func.attr in ("append", "add") and len(n2.args) == 1:
                    puts.append((n2, n2.args[0]))
                elif n2.func.attr in ("insert", "setdefault") and n2.args:
                    puts.append((n2, n2.args[1] if n2.func.attr == "insert" and len(n2.args) > 1 else n2.args[0]))
                elif n2.func.attr == "extend" and len(n2.args) == 1:
                    spreads.append(n2.args[0])
                elif n2.func.attr in _MUTATORS:
                    other += 1
            elif isinstance(n2, ast.Subscript) and isinstance(n2.ctx, ast.Store) and isinstance(n2.value, ast.Name) and n2.value.id == name:
                puts.append((n2, n2.slice))
            elif isinstance(n2, ast.AugAssign) and isinstance(n2.target, ast.Name) and n2.target.id == name:
                spreads.append(n2.value)
        if not puts and not spreads and not other:
            return NotImplemented  # never grown: the plain definition is what it is
        if other > 0:
            return None
        out = ("e",)
        for node, elt in puts:
            env: dict = {}
            for anc in fv.ancestors(node):
                if isinstance(anc, ast.For):
                    it = self.expr(f, anc.iter, penv)
                    if it is None:
                        # the loop target is not understood: only matters when the element uses it
                        continue
                    self._bind(anc.target, it, env)
            known = set()
            for _t, pol, test in dominating_conditions(self.ctx, f, node):
                if pol:
                    known |= self._filters([test])
            out = _en_join(out, self._element(elt, env, known))
        for x in spreads:
            out = _en_join(out, self.expr(f, x, penv))
        return out


def _is_none(e) -> bool:
    return isinstance(e, ast.Constant) and e.value is None


def _joined_options(ctx, f):
    """The builder calls of the generator whose value is one text made by joining a sequence: (call, primitive, statement
    name, the join call, the sequence expression, the value argument as written)."""
    out = []
    for c in fn_calls(f.node):
        if not isinstance(c.func, ast.Attribute):
            continue
        cls = _block_class(ctx, f, c.func.value)
        prim = _primitive_of(ctx, cls, c.func.attr) if cls is not None else None
        if prim != "set_option":
            continue
        written = _call_arg(c, 1, "value")
        if written is None:
            continue
        val = inline(f.node, written)
        if isinstance(val, ast.Call) and isinstance(val.func, ast.Attribute) and val.func.attr == "join" and isinstance(_c(val.func.value), str) and len(val.args) == 1 and not val.keywords:
            names = _const_names(f, _call_arg(c, 0, "option"))
            out.append((c, cls, names[0] if names and len(names) == 1 else src(_call_arg(c, 0, "option") or c), val, val.args[0], written))
    return out


def _r10_joined(ctx):
    """R10 c / d.  An option whose value is `<separator>.join(<sequence>)`: c. every element of the sequence is a text -
    str.join raises TypeError for a None element (generation never fails); element nullness is followed from the
    sequence expression into the package (properties of the configuration class, helpers, the pad value of zip_longest)
    - and d. the option is only stated when the sequence has elements: the join of no elements is the empty text and a
    `set <name> "";` statement states an option the configuration does not have (blocks / options with no content are
    omitted) - the call must be dominated by a non-emptiness condition on the sequence, or on the joined text (a
    non-empty join has at least one element)."""
    f = ctx.repo.func("c2profile.C2Profile.from_beacon_config")
    found = _joined_options(ctx, f)
    if not found:
        ctx.undecided("R10", "ABS", f, "options joined from a sequence", "no set_option call whose value is `<constant>.join(<sequence>)` was located in from_beacon_config: the URI list is rendered by other means")
        return
    en = _ElemNull(ctx)
    for call, cls, name, join, seq, written in found:
        text = f"{cls}.set_option({name!r}) joined from {src(seq)}"
        try:
            val = en.expr(f, seq)
        except RecursionError:
            val = None
        if val is None or val == ("e",):
            ctx.undecided("R10", "ABS", f, text + ": elements are text", f"the element nullness of `{src(seq)}` could not be followed to its source" if val is None else f"`{src(seq)}` is only ever empty as far as the rule can see")
        elif val[0] == "s" and val[1] == "nonnull":
            ctx.ob("R10", "ABS", f, text + ": elements are text", True, f"no None reaches the elements of `{src(seq)}` (followed into the package: pad values of the pairing are filtered out before the elements are collected), so the join does not raise", join)
        else:
            ctx.ob("R10", "ABS", f, text + ": elements are text", False,
                   f"an element of `{src(seq)}` can be None" + (" (the elements are tuples)" if val[0] == "t" else "") + ": the pairing helper pads an odd number of fields with None (zip_longest fill value) "
                   "and no filter removes it before the join - `str.join` raises TypeError: generation fails for a configuration whose domain list carries no URI", join)
        subj = {src(seq)}
        if isinstance(written, ast.Name):
            subj.add(src(written))  # the joined text held in a local: non-empty text => non-empty sequence
        keep = {n2.id for n2 in ast.walk(seq) if isinstance(n2, ast.Name)} | {n2.id for n2 in ast.walk(written) if isinstance(n2, ast.Name)}
        guarded = False
        for _t, pol, node in dominating_conditions(ctx, f, call):
            for test in _test_forms(f, node, keep):
                for sj in subj:
                    pp = _nonempty_polarity(test, sj, "")
                    if pp is not None and pp == pol:
                        guarded = True
        ctx.ob("R10", "DOM", f, text + ": only when non-empty", guarded,
               "the statement is dominated by a non-emptiness test of the joined sequence: a configuration without such entries states no such option" if guarded else
               "the option is set whether or not the sequence has elements: for a configuration without entries (a domain list without URIs) the profile states an empty option the configuration does not have", call)


def r10(ctx, g: Grammar):
    """Content-less case.  For every sequence-valued setting the case "the sequence has no entries" (emptiness case analysis
    of the value; everything else about the configuration stays symbolic) is taken through from_beacon_config: generation
    must not raise, no block without children may end up in the returned profile (blocks with no content are omitted) and
    no data-transform block without statements may - the grammar's `termination` part cannot be empty, so such a block
    has no text and as_text() fails."""
    f = ctx.repo.func("c2profile.C2Profile.from_beacon_config")
    dt_needs_statement = bool(g.alternatives(DATA_TRANSFORM)) and not _nullable(g, DATA_TRANSFORM)  # grammar fact: no empty data transform
    n = 0
    for key in _SEQUENCE_SETTINGS:
        if key not in _settings_enum(ctx):
            continue
        n += 1
        text = f"{key} without entries"
        try:
            paths = _generate(ctx, [(key, _Seq([], f"entries of {key} (none)", exact=True))])
            if any("settings-loop" not in r.flags for r in paths):
                raise Unknown("the settings loop of from_beacon_config was not found")
            bad, unknown = [], []
            for res in paths:
                if res.raised:
                    bad.append(f"generation raises {res.raised}")
                    continue
                emitted, unk = _emitted_blocks(res)
                unknown += [u for u in unk if u not in unknown]
                for p, prim, name, child, ne in emitted:
                    where = f"{_show(name)} of a {p.cls}"
                    if child.cls == "DataTransformBlock":
                        steps = _dt_steps(child)
                        if any(_root(ev.recv) is child for ev in res.events):
                            unknown.append(f"the data-transform block emitted as {where} is also filled by method calls: its statements are not read off the constructor")
                        elif steps is None or (isinstance(steps, (list, tuple)) and len(steps) == 0):
                            if dt_needs_statement:
                                bad.append(f"a data-transform block without statements is emitted as {where} (steps {_show(steps)}): the grammar's data transform needs a termination statement, "
                                           "so the profile has no text (as_text() fails) - a block with no content must be omitted")
                        elif not isinstance(steps, (list, tuple)):
                            unknown.append(f"the steps of the data-transform block emitted as {where} are not a list the code built ({_show(steps)[:40]})")
                    elif ne is False:
                        bad.append(f"a {child.cls} without children is emitted as {where}: a block with no content must be omitted")
                    elif ne is None:
                        unknown.append(f"whether the {child.cls} emitted as {where} has children is not known")
        except Unknown as e:
            ctx.undecided("R10", "EXIT", f, text, f"cannot follow from_beacon_config for a configuration whose {key} has no entries: {e}")
            continue
        bad = sorted(set(bad))
        if bad:
            ctx.ob("R10", "EXIT", f, text, False, "; ".join(bad)[:600])
        elif unknown:
            ctx.undecided("R10", "EXIT", f, text, "cannot read what ends up in the profile: " + "; ".join(unknown)[:400])
        else:
            ctx.ob("R10", "EXIT", f, text, True, "generation does not raise and every block that reaches the returned profile has content (no child-less block, no data transform without statements)")
    ctx.rep.count("sequence_settings", n, floor=5)
    _r10_joined(ctx)


# ---------------------------------------------------------------------------- R13
# Assembly of the profile tree.  The generator fills builder objects and links them into each other; the profile states what
# hangs below the object it returns.  Summary of the primitives (trusted base, the same one `block_nonempty` uses):
#   * set_option / _enable / a pair primitive with lines put a statement into the receiver - "content";
#   * set_config_block(name, child) makes a node `name` in the receiver around the child's child list - a link receiver ->
#     child; set_non_empty_config_block makes that link iff the child has children WHEN IT IS CALLED; a block-valued
#     constructor keyword is a link as well (ConfigBlock.init_kwargs);
#   * a link that was made shows the child's statements; a link that was not made never does, whatever the child is given
#     afterwards.
# Two necessary conditions of "the profile states the settings of the configuration" follow, both read off the ORDER and the
# OBJECT IDENTITIES of the builder calls on a path (terms of the walker, no data):
#   a. every builder object that was given content on a path is linked, through links that were made, to the returned
#      profile - in particular the emptiness of a block must not be tested before the block is complete;
#   b. a builder object is linked in at most once: the node made for it holds the object's own child list, so one object
#      linked in as two blocks makes both state the same statements - the union of what the two settings put there.
def _is_builder(v) -> bool:
    return isinstance(v, _Obj) and v.cls is not None and not isinstance(v, _Sym)


def _has_entries(v) -> bool:
    """A list the code built that has elements, or a sequence made entry by entry from the entries of the case (which is
    non-empty iff it has entries)."""
    return (isinstance(v, (list, tuple)) and len(v) > 0) or (isinstance(v, _Seq) and len(v.items) > 0)


def _made_at(o: _Obj) -> str:
    return src(o.node)[:50] if o.node is not None else o.callee + "()"


class _Assembly:
    """What one path of the generator assembles: the builder objects, their content (index of the builder call, what), the
    links between them (index, parent, child, name, made: True / False / None = not known, primitive) and the emptiness
    tests that came out "empty" (index, block, by what)."""

    def __init__(self, res: _Res):
        self.res = res
        it = res.it
        self.links: list = []
        self.content: Dict[int, list] = {}
        self.objs: Dict[int, _Obj] = {}
        self.unknown: List[str] = []
        self.empty_tests: Dict[int, list] = {}
        for i, ev in enumerate(res.events):
            if ev.attr == "<new>":
                o = ev.result
                if not _is_builder(o):
                    continue
                self.objs[id(o)] = o
                if o.cls == "DataTransformBlock":
                    steps = _dt_steps(o)
                    if _has_entries(steps):
                        self.content.setdefault(id(o), []).append((i, "the statements " + _show(steps)[:60], steps))
                    continue
                for k, v in o.kwargs.items():
                    if _is_builder(v):
                        self.links.append((i, o, v, k, True, "constructor keyword"))
                    else:
                        self.content.setdefault(id(o), []).append((i, f"the option {k}", v))
                continue
            if ev.prim is None or not _is_builder(ev.recv):
                continue
            self.objs[id(ev.recv)] = ev.recv
            if ev.prim in ATTACH:
                child = _ev_value(ev)
                if not _is_builder(child):
                    self.unknown.append(f"{ev.recv.cls}.{ev.prim}({_show(_ev_name(ev))}) attaches {_show(child)[:40]}: not a builder object the code made")
                    continue
                self.objs[id(child)] = child
                made = True if ev.prim == "set_config_block" else it.block_nonempty(child, upto=i)
                self.links.append((i, ev.recv, child, _ev_name(ev), made, ev.prim))
                if made is False:
                    self.empty_tests.setdefault(id(child), []).append((i, f"{ev.recv.cls}.{ev.prim}({_show(_ev_name(ev))})"))
            elif ev.prim in ("set_option", "_enable"):
                self.content.setdefault(id(ev.recv), []).append((i, f"the statement {_show(_ev_name(ev))}", _ev_value(ev)))
            else:
                if _has_entries(_ev_value(ev)):
                    self.content.setdefault(id(ev.recv), []).append((i, f"the {_show(_ev_name(ev))} lines", _ev_value(ev)))
        for at, obj, outcome in it.tests:
            if outcome is False and _is_builder(obj):
                self.empty_tests.setdefault(id(obj), []).append((at, "a test of its children"))

    def reach(self, root, statuses) -> Set[int]:
        seen, todo = {id(root)}, [root]
        while todo:
            p = todo.pop()
            for _i, par, child, _n, made, _pr in self.links:
                if par is p and made in statuses and id(child) not in seen:
                    seen.add(id(child))
                    todo.append(child)
        return seen

    def above(self, o) -> List[_Obj]:
        """`o` and every object it hangs below through links that were made."""
        out, todo = [o], [o]
        while todo:
            c = todo.pop()
            for _i, par, child, _n, made, _pr in self.links:
                if child is c and made is True and all(par is not x for x in out):
                    out.append(par)
                    todo.append(par)
        return out

    def arrivals(self, o) -> list:
        """(index, what) of everything that is put into `o`: its own content and the links made from it."""
        out = [(i, what) for i, what, _term in self.content.get(id(o), [])]
        out += [(i, f"the {child.cls} {_show(n)}") for i, par, child, n, made, _pr in self.links if par is o and made is True]
        return out

    def handed_elsewhere(self, o) -> Optional[str]:
        """A call the rule has no summary for that is given the object or a part of it (its tree ...): it may attach it."""
        def mentions(v, depth=0):
            if v is o or (isinstance(v, (_Attr, _Obj)) and not _is_builder(v) and _root(v) is o):
                return True
            if depth < 3 and isinstance(v, (list, tuple)):
                return any(mentions(x, depth + 1) for x in v)
            if depth < 3 and isinstance(v, _Obj) and not _is_builder(v):
                return any(mentions(x, depth + 1) for x in list(v.args) + list(v.kwargs.values()))
            return False

        for ev in self.res.events:
            if ev.prim is None and ev.attr != "<new>" and any(mentions(x) for x in list(ev.args) + list(ev.kwargs.values())):
                return repr(ev)[:60]
        return None


def _free_decisions_only(res: _Res) -> bool:
    """Were all the unknown tests of the path tests on independent inputs (symbolic arguments of the case, the value of the
    setting)?  Then every combination of outcomes is a configuration; tests on computed terms may be correlated."""
    it = res.it
    free = sum(1 for v, _d in it._decided.values() if isinstance(v, (_Val, _Free)))
    return free == len(it.oracle.made)


def _found_falsy(res: _Res) -> list:
    """The independent inputs a test of the path found falsy (an empty / zero value: one the generator may choose to skip)."""
    return [v for v, d in res.it._decided.values() if isinstance(v, (_Val, _Free)) and not d]


def _assembly_findings(paths: List[_Res]) -> Tuple[List[str], List[str], int, list]:
    """-> (violations, things not known, number of content holders seen, assemblies) for the paths of one case."""
    bad, unknown, holders = [], [], 0
    asms = []
    for res in paths:
        if res.raised:
            continue  # a generator that raises is R10's / R4's business
        if not _is_builder(res.ret):
            raise Unknown("from_beacon_config does not return a builder object on some path (" + _show(res.ret)[:40] + ")")
        asms.append(_Assembly(res))
    handed = {id(child.node) for a in asms for _i, _p, child, _n, _m, _pr in a.links if child.node is not None}
    for a in asms:
        root = a.res.ret
        unknown += [u for u in a.unknown if u not in unknown]
        sure, maybe = a.reach(root, (True,)), a.reach(root, (True, None))
        for oid, what in a.content.items():
            o = a.objs.get(oid)
            if o is None or o is root:
                continue
            holders += 1
            if oid in sure:
                continue
            desc = f"{what[0][1]} put into the {o.cls} made at `{_made_at(o)}`"
            terms = [t for _i, _w, t in what]
            if oid in maybe:
                unknown.append(f"{desc}: whether a block on its way to the profile had children when set_non_empty_config_block was called is not known")
                continue
            chain = a.above(o)
            cause = None
            for y in chain:
                tests = a.empty_tests.get(id(y), [])
                late = [(j, w) for j, w in a.arrivals(y) for i, _t in tests if j >= i]
                if tests and late:
                    first = min(tests)
                    cause = (f"the emptiness of the {y.cls} made at `{_made_at(y)}` is tested by {first[1]} BEFORE {late[0][1]} is put into it: the test finds the block empty, the block is "
                             f"left out of the profile and what it is given afterwards is lost with it - a configuration with these settings but nothing else that fills the block no longer states them")
                    break
            if cause is not None:
                bad.append(f"{desc} never reaches the returned profile: {cause}")
                continue
            top = [y for y in chain if not any(child is y and made is not False for _i, _p, child, _n, made, _pr in a.links)]
            elsewhere = [w for w in (a.handed_elsewhere(y) for y in top) if w]
            never = [y for y in top if y.node is not None and id(y.node) not in handed]
            if elsewhere:
                unknown.append(f"{desc} is not attached with a builder primitive, but the block is handed to {elsewhere[0]}, which the rule has no summary for")
            elif never:
                bad.append(f"{desc} never reaches the returned profile: the {never[0].cls} made at `{_made_at(never[0])}` is not handed to set_config_block / set_non_empty_config_block on any path")
            elif not _free_decisions_only(a.res):
                unknown.append(f"{desc} does not reach the returned profile on a path whose tests are made on computed values: whether that path is possible is not known")
            elif any(_depends_on(t, x) for t in terms for x in _found_falsy(a.res)):
                unknown.append(f"{desc} does not reach the returned profile on a path on which a test finds that very value falsy: a value the generator may choose to skip")
            else:
                bad.append(f"{desc} does not reach the returned profile on a path on which it is put there (the tests of that path are tests on independent inputs, none of them on what is put there): "
                           "the block is attached under a condition that does not cover this content")
        # b. one object, one block
        for oid, o in a.objs.items():
            ls = [(par, n, made) for _i, par, child, n, made, _pr in a.links if child is o and made is not False]
            if len(ls) < 2:
                continue
            names = " and as ".join(f"{_show(n)} of a {par.cls}" for par, n, _m in ls[:3])
            msg = (f"the one {o.cls} object made at `{_made_at(o)}` is attached as {names}: each attachment makes its node from the one object's child list (handed over as it is), so the "
                   "blocks state the same statements - all that was put into the object for either of them - and not each its own setting")
            if sum(1 for _p, _n, made in ls if made is True) >= 2:
                bad.append(msg)
            else:
                unknown.append(msg + " (whether both attachments are made is not known)")
    return sorted(set(bad)), unknown, holders, asms


def _content_cases(ctx) -> List[Tuple[str, str, object]]:
    """(setting, case label, value) - the configurations "this one setting, with content" that R13 follows: every member of
    BeaconSetting with a free value, the sequence-valued settings with one entry per kind of the vocabularies of R3 - R5
    (argument symbolic)."""
    cases: List[Tuple[str, str, object]] = []
    enum = _settings_enum(ctx)
    for k in sorted(enum):
        if k not in _SEQUENCE_SETTINGS:
            cases.append((k, "any value", None))
    for k in ("SETTING_C2_REQUEST", "SETTING_C2_POSTREQ"):
        if k in enum:
            for label, _kind, entries, _arg in _client_cases(ctx):
                cases.append((k, label, _Seq(entries, "client program")))  # (the walk of R4 / R5 for this case is used when there is one)
    if "SETTING_C2_RECOVER" in enum:
        flags = sorted(n.lower() for n, has in tables.RECOVER_STEPS.items() if not has)
        valued = sorted(n.lower() for n, has in tables.RECOVER_STEPS.items() if has)
        for n, v in [(x, True) for x in flags[:1]] + [(x, _Val(f"length argument of {x}", "int")) for x in valued[:1]]:
            cases.append(("SETTING_C2_RECOVER", n, _Seq([(n, v)], "recover program")))
    for k in ("SETTING_PROCINJ_TRANSFORM_X86", "SETTING_PROCINJ_TRANSFORM_X64"):
        if k in enum:
            args = [(x, _Val(f"bytes argument of {x}", "bytes")) for x in _STAGE_TRANSFORM_KEYS]
            for e in args:
                cases.append((k, e[0], _Seq([e], "transform")))
            cases.append((k, " + ".join(_STAGE_TRANSFORM_KEYS), _Seq(args, "transform")))
    if "SETTING_PROCINJ_EXECUTE" in enum:
        cases.append(("SETTING_PROCINJ_EXECUTE", "one entry", _Seq([_Val("execute-list entry", "str")], "execute list")))
    if "SETTING_BEACON_GATE" in enum:
        cases.append(("SETTING_BEACON_GATE", "one option", _Seq([_Val("BeaconGate option string", "str")], "option strings")))
    return cases


_PAIR_WALK_LIMIT = 8


def r13(ctx):
    """Assembly order and object identity (see the section comment): for every setting, taken alone with content, what is
    put into a builder object reaches the returned profile and no builder object is attached twice; for two settings that
    attach / fill a builder object made at the same place, the same with both present, in both orders."""
    f = ctx.repo.func("c2profile.C2Profile.from_beacon_config")
    try:
        base = _generate(ctx, [])
    except Unknown as e:
        ctx.undecided("R13", "EXIT", f, "content reaches the profile", f"cannot follow from_beacon_config: {e}")
        return

    def keys(res: _Res):
        out = set()
        for ev in res.events:
            if ev.prim is None or not _is_builder(ev.recv):
                continue
            child = _ev_value(ev) if ev.prim in ATTACH else None
            out.add((id(ev.node), id(ev.recv.node), id(child.node) if _is_builder(child) else None))
        return out

    common = set().union(*[keys(r) for r in base]) if base else set()
    per: Dict[str, dict] = collections.OrderedDict()
    attaches: Dict[str, Dict[int, object]] = {}  # setting -> creation site of an object its own branch attaches -> value of the case
    touches: Dict[str, Dict[int, object]] = {}  # setting -> creation site of an object its own branch attaches / fills -> value of the case
    for k, label, value in _content_cases(ctx):
        st = per.setdefault(k, {"bad": collections.OrderedDict(), "unknown": collections.OrderedDict(), "holders": 0, "cases": 0})
        st["cases"] += 1
        try:
            shared = ctx.__dict__.get("_c13_client_paths", {}).get((k, label))
            if shared is not None:
                value, paths = shared
            else:
                paths = _member_paths(ctx, k) if value is None else _generate(ctx, [(k, value)])
            if any("settings-loop" not in r.flags for r in paths):
                raise Unknown("the settings loop of from_beacon_config was not found")
            bad, unknown, holders, asms = _assembly_findings(paths)
        except Unknown as e:
            st["unknown"].setdefault(f"cannot follow from_beacon_config: {e}", []).append(label)
            continue
        for x in bad:
            st["bad"].setdefault(x, []).append(label)
        for x in unknown:
            st["unknown"].setdefault(x, []).append(label)
        st["holders"] += holders
        for a in asms:
            for ev in a.res.events:
                if ev.prim is None or not _is_builder(ev.recv):
                    continue
                child = _ev_value(ev) if ev.prim in ATTACH else None
                if (id(ev.node), id(ev.recv.node), id(child.node) if _is_builder(child) else None) in common:
                    continue
                if ev.recv.node is not None:
                    touches.setdefault(k, {}).setdefault(id(ev.recv.node), value)
                if _is_builder(child) and child.node is not None:
                    attaches.setdefault(k, {}).setdefault(id(child.node), value)
                    touches.setdefault(k, {}).setdefault(id(child.node), value)
    n = 0
    for k, st in per.items():
        text = f"{k} content reaches the profile"
        def grouped(d):
            return "; ".join(f"{msg} [case(s): {', '.join(labels[:4])}{' ...' if len(labels) > 4 else ''}]" for msg, labels in d.items())

        if st["bad"]:
            n += 1
            ctx.ob("R13", "EXIT", f, text, False, grouped(st["bad"])[:900])
        elif st["unknown"]:
            n += 1
            ctx.undecided("R13", "EXIT", f, text, "cannot read what ends up in the profile: " + grouped(st["unknown"])[:500])
        elif not st["holders"] and k in _SEQUENCE_SETTINGS:
            n += 1
            ctx.undecided("R13", "EXIT", f, text, "no builder object is given content the rule can see in the cases followed (entries of the setting's vocabulary, arguments symbolic): "
                          "what the generator makes of the setting was not located")
        elif st["holders"]:
            n += 1
            ctx.ob("R13", "EXIT", f, text, True,
                   f"in each of the {st['cases']} case(s) followed (the setting alone, its value / entry arguments symbolic) every builder object that is given content is linked to the returned "
                   "profile by attachments that are made (the emptiness of a block is tested only after the block is complete), and no builder object is attached twice")
    ctx.rep.count("settings_with_content", n, floor=30)
    # two settings whose own branches attach / fill an object made at the same place: followed together, in both orders
    pairs = []
    for a_k, sites in attaches.items():
        for b_k, touched in touches.items():
            if a_k == b_k:
                continue
            shared = [s for s in sites if s in touched]
            if shared and not any({a_k, b_k} == {x[0], x[1]} for x in pairs):
                pairs.append((a_k, b_k, sites[shared[0]], touched[shared[0]]))
    text = "blocks of different settings are separate builder objects"
    if not pairs:
        ctx.ob("R13", "ALIAS", f, text, True,
               "no two settings attach or fill a builder object made at the same place of the code in their own branches: the blocks a setting attaches are made for it alone "
               "(the blocks all settings share are attached once, after the settings loop - judged per setting above)")
        return
    for a_k, b_k, av, bv in pairs[:_PAIR_WALK_LIMIT]:
        first, second = sorted((a_k, b_k))
        text = f"{first} together with {second}"
        bad, unknown = [], []
        for order in (((a_k, av), (b_k, bv)), ((b_k, bv), (a_k, av))):
            items = [(k, v if v is not None else _Free("value")) for k, v in order]
            try:
                paths = _generate(ctx, items)
                if any("settings-loop" not in r.flags for r in paths):
                    raise Unknown("the settings loop of from_beacon_config was not found")
                b, u, _h, _a = _assembly_findings(paths)
            except Unknown as e:
                unknown.append(f"{order[0][0]} before {order[1][0]}: cannot follow from_beacon_config: {e}")
                continue
            bad += [f"{order[0][0]} before {order[1][0]}: {x}" for x in b]
            unknown += [f"{order[0][0]} before {order[1][0]}: {x}" for x in u]
        if bad:
            ctx.ob("R13", "ALIAS", f, text, False, "; ".join(sorted(set(bad)))[:900])
        elif unknown:
            ctx.undecided("R13", "ALIAS", f, text, "cannot read what ends up in the profile: " + "; ".join(unknown)[:400])
        else:
            ctx.ob("R13", "ALIAS", f, text, True,
                   "the two settings attach / fill a builder object made at the same place of the code; followed together in both orders, each attachment gets an object of its own and all content reaches the profile")
    if len(pairs) > _PAIR_WALK_LIMIT:
        ctx.undecided("R13", "ALIAS", f, "further settings that share a construction site", f"{len(pairs) - _PAIR_WALK_LIMIT} more pairs of settings attach / fill an object made at the same place: not followed (bound on the number of joint cases)")


# ---------------------------------------------------------------------------- R9 / R8
def _tree_parts(v):
    """(name, children) of a `Tree(name, children)` construction term, else None."""
    if isinstance(v, _Obj) and v.callee.split(".")[-1] == "Tree":
        name = v.args[0] if v.args else v.kwargs.get("data")
        children = v.args[1] if len(v.args) > 1 else v.kwargs.get("children")
        return name, children
    return None


def _find_tree(v, name: str, depth=0):
    """The children of the first Tree called `name` inside the tree value v."""
    tp = _tree_parts(v)
    if tp is None or depth > 6:
        return None
    if tp[0] == name:
        return tp[1]
    if isinstance(tp[1], (list, tuple)):
        for c in tp[1]:
            r = _find_tree(c, name, depth + 1)
            if r is not None:
                return r
    return None


def _dt_statements(ctx, steps_value) -> Tuple[Optional[str], list, list]:
    """Follow DataTransformBlock.__init__ with the steps parameter bound to `steps_value` (a `_Seq` of one vocabulary
    entry, argument symbolic) and then the `tree` property, and read the tree term: -> (raised, transform statements,
    termination statements), each statement as (name, number of children)."""
    init = ctx.repo.func("c2profile.DataTransformBlock.__init__")
    if not ctx.repo.has_func("c2profile.DataTransformBlock.tree"):
        raise Unknown("DataTransformBlock.tree is not a method any more")
    prop = ctx.repo.func("c2profile.DataTransformBlock.tree")
    results = []

    def run(oracle):
        it = _Interp(ctx, "c2profile", oracle)
        me = _Sym(params(init.node)[0], cls="DataTransformBlock")
        try:
            it.invoke(init.node, [me, steps_value], {}, None)
            tree = it.invoke(prop.node, [me], {}, None)
        except _Raised as r:
            return (r.name, None)
        except (Unknown, _Return, _Break, _Continue):
            raise
        except Exception as e:  # a construct the walker mishandles: nothing is claimed
            raise Unknown(f"walker failure {type(e).__name__}: {e}"[:120])
        return (None, tree)

    for raised, tree in _paths(run):
        if raised:
            results.append((raised, [], []))
            continue
        parts = []
        for kind in ("steps", "termination"):
            ch = _find_tree(tree, kind)
            if not isinstance(ch, (list, tuple)):
                raise Unknown(f"the `{kind}` children of the block's tree are not a known list")
            sts = []
            for c in ch:
                tp = _tree_parts(c)
                if tp is None or not isinstance(tp[0], str) or not isinstance(tp[1], (list, tuple)):
                    raise Unknown("a statement of the block is not a Tree(name, [children]) construction")
                sts.append((tp[0], len(tp[1])))
            parts.append(sts)
        results.append((None, parts[0], parts[1]))
    if len({repr(r) for r in results}) != 1:
        raise Unknown("the result depends on unknown tests")
    return results[0]


def r9(ctx, g):
    """DataTransformBlock accepts every step the generator can hand it: for each lower-cased opcode name of the transform /
    recover parsers, the block built from that one step has exactly one statement, in the part (steps / termination)
    and with the arity the grammar has for that alias - a name no branch accepts is dropped silently and the block no
    longer parses."""
    f = ctx.repo.func("c2profile.DataTransformBlock.__init__")
    tr, te = aliases_of(g, _part_origins(g, "steps")), aliases_of(g, _part_origins(g, "termination"))
    if not tr or not te:
        ctx.undecided("R9", "VOCAB", f, "step names", "the statements of the `steps` / `termination` parts of a data transform cannot be located in the grammar")
        return
    flags = sorted({n.lower() for n in tables.STEPS_NO_ARG} | {n.lower() for n, has in tables.RECOVER_STEPS.items() if not has})
    valued = sorted({n.lower() for n in tables.STEPS_LEN_ARG if not n.startswith("_")} | {n.lower() for n, has in tables.RECOVER_STEPS.items() if has})
    n = 0
    for name, item, ar in [(x, x, 0) for x in flags] + [(x, (x, _Val("step argument")), 1) for x in valued]:
        n += 1
        try:
            raised, steps, term = _dt_statements(ctx, _Seq([item], "steps"))
        except Unknown as e:
            ctx.undecided("R9", "VOCAB", f, f"step {name}", f"cannot follow DataTransformBlock.__init__ for the step {_show(item)}: {e}")
            continue
        out = [("transform", a, b) for a, b in steps] + [("termination", a, b) for a, b in term]
        ok = not raised and len(out) == 1
        detail = f"{name!r} ({'flag' if ar == 0 else 'valued'}) -> " + (f"raises {raised}" if raised else str(out))
        if ok:
            kind, emitted, got_ar = out[0]
            tab = tr if kind == "transform" else te
            ok = got_ar == ar and emitted in tab and ar in tab[emitted]
            detail += f"; {kind} alias {emitted!r} with {ar} argument(s) in the grammar={ok}"
        else:
            detail += " (exactly one transform/termination statement expected: the step is dropped or duplicated)"
        ctx.ob("R9", "VOCAB", f, f"step {name}", ok, detail)
    ctx.rep.count("builder_step_names", n, floor=10)


def r8(ctx):
    """DataTransformBlock.add_step / add_termination: an argument is attached iff it is not None (empty arguments are
    legal), and the two siblings agree.  Nullness case analysis on the value parameter: the literal None, and a symbol
    known to be not None (nothing else known: its truth value stays open, so `if value:` splits into two paths)."""
    a = ctx.repo.func("c2profile.DataTransformBlock.add_step")
    b = ctx.repo.func("c2profile.DataTransformBlock.add_termination")
    shapes = {}
    for gfn in (a, b):
        obs = []
        bad = []
        unknown = None
        ps = params(gfn.node)
        if len(ps) < 3:
            ctx.undecided("R8", "AGREE", gfn, "argument attached iff not None", f"{gfn.qualname} does not take (self, statement name, argument) any more")
            shapes[gfn.qualname] = None
            continue
        opt = _Val("statement name", "str")
        for case, v in (("None", None), ("not None", _Val("argument (not None)"))):
            def binding(it, v=v):
                return [_Sym(ps[0], cls="DataTransformBlock"), opt, v]
            try:
                paths = _run_func(ctx, gfn, binding)
            except Unknown as e:
                unknown = str(e)
                break
            for res in paths:
                # the statement: the one Tree handed to a collection of the block itself
                adds = [ev for ev in res.events if ev.attr in ("append", "extend", "insert", "add") and isinstance(_root(ev.recv), _Sym) and _root(ev.recv).cls]
                trees = [x for ev in adds for x in ev.args if _tree_parts(x) is not None]
                if res.raised or len(adds) != 1 or len(trees) != 1:
                    unknown = f"for an argument that is {case} the method " + (f"raises {res.raised}" if res.raised else f"does not add exactly one Tree to a collection of the block ({adds})")
                    break
                name, children = _tree_parts(trees[0])
                if not isinstance(children, (list, tuple)):
                    unknown = "the children of the statement are not a list the code built"
                    break
                attached = len(children)
                want = 0 if v is None else 1
                if attached != want or name is not opt:
                    bad.append(f"argument {case} -> statement {_show(name)} with {attached} argument child(ren) on some path (required {want})")
                obs.append((case, _path(adds[0].recv).split(".", 1)[-1], _show(trees[0])))
            if unknown:
                break
        if unknown:
            ctx.undecided("R8", "AGREE", gfn, "argument attached iff not None", f"cannot locate the statement {gfn.qualname} builds: {unknown}")
            shapes[gfn.qualname] = None
            continue
        ctx.ob("R8", "AGREE", gfn, "argument attached iff not None", not bad,
               "the statement gets its string child exactly when an argument is given (None: none; any value that is not None, empty ones included: one)" if not bad else
               "; ".join(sorted(set(bad)))[:400] + " (an empty argument still needs its string child, otherwise the text does not parse)")
        shapes[gfn.qualname] = obs
    va, vb = shapes.get(a.qualname), shapes.get(b.qualname)
    if va is None or vb is None:
        ctx.undecided("R8", "AGREE", a, "add_step ~ add_termination", "one of the two builders could not be followed")
        return
    same = sorted((x[0], x[2]) for x in va) == sorted((x[0], x[2]) for x in vb)
    distinct = {x[1] for x in va}.isdisjoint({x[1] for x in vb})
    ok = same and distinct
    ctx.ob("R8", "AGREE", a, "add_step ~ add_termination", ok,
           "the two builders build the same statement term and differ only in the list they append to" if ok else
           f"siblings differ: add_step {va[:3]} add_termination {vb[:3]}; distinct lists={distinct}"[:500])


# ---------------------------------------------------------------------------- R14
# The STRING terminal against the literals the generator writes.  The generated text is valid, and states the configured
# bytes, only if the lexer cuts every literal `"` + <escape-encoded argument> + `"` out of the text as ONE token that ends
# at the literal's closing quote.  Nothing is matched against sample text here: the parsed pattern (re syntax tree) is
# compiled into a prioritised automaton over a finite abstract alphabet, and the (infinite) set of generated literals is
# the regular language of a small automaton over the same alphabet; the obligations are reachability questions in the
# product graph.
#
#  alphabet   the atoms of the partition of the code points by every character set the pattern names (literals, classes,
#             `.`) and by the characters the literal language distinguishes (quote, backslash, newline, the escape letters,
#             the hex digits, the bounds of printable ASCII, `;`, space).  All characters of an atom are treated alike by
#             the pattern and by the literal language, so an atom is a letter.
#  literals   lemma E4 (trusted base; R11 / C12.R1 judge whether the encoder is such an escaper): the content of a literal
#             written for a bytes argument is a sequence of tokens - a printable ASCII character other than quote and
#             backslash; backslash backslash; backslash quote; backslash + one of the control-character letters of the
#             reference escape table; backslash x + two lower-case hex digits - and every such sequence is the content for
#             some argument (arbitrary byte arguments).  After the literal the profile goes on with `;` or a space, further
#             separators (`;`, space, newline, lower-case letters) and further literals.
#  pattern    lemma P (CPython's re: leftmost-first backtracking = the prioritised thread list of a Pike machine): the threads
#             are kept in priority order (an alternation prefers its left branch, a greedy repeat another round, a lazy one the
#             exit); when the thread list reaches the end of the pattern a match ending here is recorded and every thread of
#             lower priority is dropped; the match returned is the one recorded last.  A one-character look-behind is a
#             condition on the atom consumed last.  Everything else (anchors, look-ahead, back-references, atomic groups,
#             flags other than DOTALL, a single character category) is not modelled: undecided.
_R14_CAP = 16
_R14_STATES = 60000
_R14_MAXCP = 0x10FFFF


class _RxUnsupported(Exception):
    pass


def _iv_merge(ivs):
    out = []
    for lo, hi in sorted(ivs):
        if out and lo <= out[-1][1] + 1:
            out[-1] = (out[-1][0], max(out[-1][1], hi))
        else:
            out.append((lo, hi))
    return out


def _iv_compl(ivs):
    out, nxt = [], 0
    for lo, hi in _iv_merge(ivs):
        if lo > nxt:
            out.append((nxt, lo - 1))
        nxt = hi + 1
    if nxt <= _R14_MAXCP:
        out.append((nxt, _R14_MAXCP))
    return out


def _sre():
    try:
        import re._constants as sc
        import re._parser as sp
    except ImportError:  # pragma: no cover - older CPython
        import sre_constants as sc
        import sre_parse as sp
    return sp, sc


class _Rx:
    """Prioritised automaton of a parsed pattern.  Nodes: ('char', intervals -> atoms, next) | ('split', [next by priority])
    | ('prev', intervals -> atoms, negated, next) | ('match',)."""

    def __init__(self, pattern: str, flags=()):
        sp, sc = _sre()
        self.sc = sc
        letters = "".join(sorted(flags or ()))
        if letters.replace("s", ""):
            raise _RxUnsupported(f"terminal flags {letters!r}")
        try:
            parsed = sp.parse(pattern)
        except Exception as e:
            raise _RxUnsupported(f"the pattern does not parse: {e}")
        gflags = getattr(getattr(parsed, "state", None), "flags", 0)
        allowed = sc.SRE_FLAG_UNICODE | sc.SRE_FLAG_DOTALL | sc.SRE_FLAG_VERBOSE | sc.SRE_FLAG_MULTILINE
        if gflags & ~allowed:
            raise _RxUnsupported("pattern flags other than DOTALL")
        self.nodes: list = []
        self.sets: list = []
        self.match = self._new(("match",))
        self.start = self._seq(list(parsed), self.match, bool(gflags & sc.SRE_FLAG_DOTALL) or "s" in letters)
        self.atoms: list = []

    def _new(self, node):
        self.nodes.append(node)
        return len(self.nodes) - 1

    def _charset(self, op, av, dotall):
        sc = self.sc
        if op is sc.LITERAL:
            return [(av, av)]
        if op is sc.NOT_LITERAL:
            return _iv_compl([(av, av)])
        if op is sc.ANY:
            return [(0, _R14_MAXCP)] if dotall else _iv_compl([(10, 10)])
        if op is sc.IN:
            neg, ivs, cats = False, [], set()
            for iop, iav in av:
                if iop is sc.NEGATE:
                    neg = True
                elif iop is sc.LITERAL:
                    ivs.append((iav, iav))
                elif iop is sc.RANGE:
                    ivs.append((iav[0], iav[1]))
                elif iop is sc.CATEGORY:
                    cats.add(iav)
                else:
                    raise _RxUnsupported(f"class item {iop}")
            if cats:
                # lemma: a category and its negation partition the characters; a single category is not modelled
                pairs = ((sc.CATEGORY_DIGIT, sc.CATEGORY_NOT_DIGIT), (sc.CATEGORY_SPACE, sc.CATEGORY_NOT_SPACE), (sc.CATEGORY_WORD, sc.CATEGORY_NOT_WORD))
                if any(a in cats and b in cats for a, b in pairs):
                    ivs = [(0, _R14_MAXCP)]
                else:
                    raise _RxUnsupported("a character category (\\s, \\d, \\w ...) on its own")
            return _iv_compl(ivs) if neg else _iv_merge(ivs)
        return None

    def _seq(self, items, nxt, dotall):
        for op, av in reversed(list(items)):
            nxt = self._one(op, av, nxt, dotall)
        return nxt

    def _one(self, op, av, nxt, dotall):
        sc = self.sc
        cs = self._charset(op, av, dotall)
        if cs is not None:
            self.sets.append(cs)
            return self._new(("char", cs, nxt))
        if op is sc.SUBPATTERN:
            _group, add, rem, sub = av
            if (add | rem) & ~sc.SRE_FLAG_DOTALL:
                raise _RxUnsupported("scoped flags other than DOTALL")
            if add & sc.SRE_FLAG_DOTALL:
                dotall = True
            if rem & sc.SRE_FLAG_DOTALL:
                dotall = False
            return self._seq(sub, nxt, dotall)
        if op is sc.BRANCH:
            return self._new(("split", [self._seq(alt, nxt, dotall) for alt in av[1]]))
        if op in (sc.MIN_REPEAT, sc.MAX_REPEAT):
            lo, hi, sub = av
            lazy = op is sc.MIN_REPEAT
            if lo > _R14_CAP or (hi is not sc.MAXREPEAT and hi - lo > _R14_CAP):
                raise _RxUnsupported("a counted repeat with a large bound")
            if hi is sc.MAXREPEAT:
                loop = self._new(None)
                body = self._seq(sub, loop, dotall)
                self.nodes[loop] = ("split", [nxt, body] if lazy else [body, nxt])
                cur = loop
            else:
                cur = nxt
                for _ in range(hi - lo):
                    body = self._seq(sub, cur, dotall)
                    cur = self._new(("split", [nxt, body] if lazy else [body, nxt]))
            for _ in range(lo):
                cur = self._seq(sub, cur, dotall)
            return cur
        if op in (sc.ASSERT, sc.ASSERT_NOT):
            direction, sub = av
            sub = list(sub)
            cs = self._charset(sub[0][0], sub[0][1], dotall) if len(sub) == 1 else None
            if direction != -1 or cs is None:
                raise _RxUnsupported("a look-around other than a one-character look-behind")
            self.sets.append(cs)
            return self._new(("prev", cs, op is sc.ASSERT_NOT, nxt))
        raise _RxUnsupported(f"pattern construct {str(op).lower()}")

    # ---- abstract alphabet
    def atomise(self, special: str):
        cuts = {0, _R14_MAXCP + 1}
        for cs in self.sets:
            for lo, hi in cs:
                cuts.update((lo, hi + 1))
        for ch in special:
            cuts.update((ord(ch), ord(ch) + 1))
        cuts = sorted(cuts)
        self.atoms = [(a, b - 1) for a, b in zip(cuts, cuts[1:])]
        for i, node in enumerate(self.nodes):
            if node[0] in ("char", "prev"):
                self.nodes[i] = (node[0], self.atoms_in(node[1])) + tuple(node[2:])

    def atoms_in(self, ivs) -> frozenset:
        ivs = _iv_merge(ivs)
        return frozenset(i for i, (a, b) in enumerate(self.atoms) if any(lo <= a and b <= hi for lo, hi in ivs))

    def atoms_of(self, chars: str) -> frozenset:
        return self.atoms_in([(ord(c), ord(c)) for c in chars])

    # ---- lemma P: the prioritised thread list
    def _close(self, roots, prev):
        out, seen = [], set()
        stack = list(reversed(roots))
        while stack:
            n = stack.pop()
            if n in seen:
                continue
            seen.add(n)
            node = self.nodes[n]
            if node[0] == "split":
                stack.extend(reversed(node[1]))
            elif node[0] == "prev":
                if prev is None:
                    raise _RxUnsupported("a look-behind at the very start of the token (the character before the opening quote is not modelled)")
                if (prev in node[1]) != node[2]:
                    stack.append(node[3])
            else:
                out.append(n)
                if node[0] == "match":
                    break  # threads of lower priority are dropped
        return tuple(out)

    def initial(self):
        return self._close([self.start], None)

    def step(self, threads, atom):
        nxt = [self.nodes[t][2] for t in threads if self.nodes[t][0] == "char" and atom in self.nodes[t][1]]
        return self._close(nxt, atom)

    def records(self, threads) -> bool:
        return bool(threads) and threads[-1] == self.match

    def show(self, atom) -> str:
        lo, hi = self.atoms[atom]
        if lo == 10:
            return "<newline>"
        for c in range(max(lo, 0x21), min(hi, 0x7E) + 1):
            return chr(c)
        return " " if lo <= 0x20 <= hi else f"<U+{lo:04X}>"


def _r14_literal_language(rx: _Rx):
    """Transitions of the automaton of `literal separator (literal separator)*` over the atoms (see the section comment).
    States: S | c0 c1 h1 h2 (inside the literal under consideration) | END (its closing quote was just read) | sep d0 d1 g1 g2."""
    q, bs = rx.atoms_of('"'), rx.atoms_of("\\")
    plain = rx.atoms_in([(0x20, 0x7E)]) - q - bs
    letters = rx.atoms_of("".join(k for k, v in tables.ESCAPES.items() if isinstance(v, int) and v < 0x20))
    hexd = rx.atoms_of("0123456789abcdef")
    x = rx.atoms_of("x")
    first = rx.atoms_of("; ")
    sep = first | rx.atoms_of("\n") | rx.atoms_in([(ord("a"), ord("z"))])

    def content(c0, c1, h1, h2, closing):
        return {c0: [(plain, c0), (bs, c1), (q, closing)], c1: [(bs | q | letters, c0), (x, h1)], h1: [(hexd, h2)], h2: [(hexd, c0)]}

    delta = {"S": [(q, "c0")], "END": [(first, "sep")], "sep": [(sep, "sep"), (q, "d0")]}
    delta.update(content("c0", "c1", "h1", "h2", "END"))
    delta.update(content("d0", "d1", "g1", "g2", "sep"))
    return delta


def _r14_explore(rx: _Rx):
    """Reachability in the product of the literal language with the thread lists of the pattern.  Returns (early, late,
    states): witness atom paths for 'no match of the pattern is recorded at the closing quote of a literal' (with the flag
    whether a match was recorded before, inside the literal) and for 'a match is recorded after the closing quote'."""
    delta = _r14_literal_language(rx)
    init = ("S", rx.initial(), False)
    parent = {init: None}
    queue = collections.deque([init])
    early = late = None
    while queue:
        cur = queue.popleft()
        ist, threads, rec = cur
        hit = rx.records(threads)
        if ist == "END":
            if not hit:
                if early is None:
                    early = (cur, rec, bool(threads))
                continue
        elif ist in ("sep", "d0", "d1", "g1", "g2"):
            if hit:
                if late is None:
                    late = (cur,)
                continue
            if not threads:
                continue
        elif hit and ist != "S":
            rec = True
        if early is not None and late is not None:
            break
        for atoms, nst in delta[ist]:
            for a in sorted(atoms):
                nxt = (nst, rx.step(threads, a), rec)
                if nxt not in parent:
                    if len(parent) > _R14_STATES:
                        raise _RxUnsupported("the product automaton is too large")
                    parent[nxt] = (cur, a)
                    queue.append(nxt)

    def path(state):
        out = []
        while parent[state] is not None:
            state, a = parent[state]
            out.append(a)
        return "".join(rx.show(a) for a in reversed(out))

    return ((path(early[0]),) + early[1:] if early else None), (path(late[0]) if late else None), len(parent)


def r14(ctx, g: Grammar):
    """The STRING terminal cuts every literal the generator writes out of the text as one token (section comment above)."""
    where = "c2profile.lark::STRING"
    t_end, t_run = "a generated literal is one token that ends at its closing quote", "the token of a generated literal does not run past its closing quote"
    kind, val = g.terminals.get("STRING", (None, None))
    if kind is None:
        for text in (t_end, t_run):
            ctx.undecided("R14", "GRAM", where, text, "the grammar has no terminal STRING: the terminal that tokenises the literals value_to_string writes was not located")
        return
    if kind != "re":
        ctx.ob("R14", "GRAM", where, t_end, False, f"STRING is the constant string {val!r}: no literal with a configured value is a STRING token")
        return
    flags = ()
    for t in getattr(g.lark, "terminals", []):
        if t.name == "STRING":
            flags = tuple(getattr(t.pattern, "flags", ()) or ())
    try:
        rx = _Rx(val, flags)
        rx.atomise('"\\\n; x0123456789abcdef\x20\x7e\x7f' + "".join(k for k in tables.ESCAPES if len(k) == 1))
        early, late, n = _r14_explore(rx)
    except _RxUnsupported as e:
        for text in (t_end, t_run):
            ctx.undecided("R14", "GRAM", where, text, f"STRING = {val!r}: the pattern is not understood by the syntax-tree analysis ({e})")
        return
    ctx.rep.count("string_terminal_product_states", n, floor=7)
    base = f"STRING = {val!r}: "
    if early is not None:
        w, rec, alive = early
        how = ("the pattern's match ends earlier, inside the literal" if rec else "the pattern has no match that ends there") + ("; it can only go on to a later quote" if alive else "")
        ctx.ob("R14", "GRAM", where, t_end, False,
               base + f"the literal {w} - quote, escape-encoded argument as value_to_string writes it, quote - is not cut out as one STRING token: at its closing quote {how}. "
               "The generated profile is not valid text for the grammar / does not state the argument")
    else:
        ctx.ob("R14", "GRAM", where, t_end, True,
               base + "for every literal quote + tokens of an escape-encoding (plain printable character, backslash pair, escaped quote, backslash letter, backslash x hex hex) + quote "
               "the prioritised match of the pattern records a match at the closing quote (product automaton over the pattern's character classes)")
    if late is not None:
        ctx.ob("R14", "GRAM", where, t_run, False,
               base + f"in the text {late} the match that starts at the first quote is extended past the closing quote of the first literal (a thread of higher priority than the "
               "exit stays alive and reaches a later quote): the token swallows the text between two values")
    else:
        ctx.ob("R14", "GRAM", where, t_run, True, base + "once the match at the closing quote is recorded no thread of higher priority reaches another match in the text that follows "
               "(`;` or space, separators, further literals)" + (" - on the paths whose first literal is a token" if early is not None else ""))
