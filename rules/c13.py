"""C13 - A profile generated from a beacon configuration is valid and faithful (structural part)."""

from __future__ import annotations

import ast
from typing import Dict, List, Optional, Set, Tuple

from csverif import tables
from csverif.astutil import assignments_to, body_walk, compare_parts, const_eval, dotted, fn_calls, is_const, kwarg, NotConst, params, src, statements, strip_cast
from csverif.grammar import Grammar
from csverif.q import FuncView, dominating_conditions, guarded_by, origin, reaching_origins
from rules.c11 import BUILDER_RULES, aliases_of, block_aliases_of

HELPER_ARITY = {"set_option": 1, "_enable": 0, "_pair": 2}
ATTACH = {"set_config_block", "set_non_empty_config_block"}


def _c(node):
    try:
        return const_eval(node) if node is not None else None
    except (NotConst, TypeError):
        return None


class Unknown(Exception):
    pass


def str_eval(e: ast.AST, env: Dict[str, object]):
    """Concrete evaluation of a small string expression language over a finite domain."""
    if isinstance(e, ast.Constant):
        return e.value
    d = dotted(e)
    if d is not None and d in env:
        return env[d]
    if isinstance(e, ast.IfExp):
        return str_eval(e.body, env) if bool_eval(e.test, env) else str_eval(e.orelse, env)
    if isinstance(e, ast.Call) and isinstance(e.func, ast.Attribute):
        m = e.func.attr
        if m == "format" and isinstance(_c(e.func.value), str):
            fmt = _c(e.func.value)
            args = []
            for a in e.args:
                try:
                    args.append(str_eval(a, env))
                except Unknown:
                    args.append("<arg>")
            return fmt.format(*args)
        recv = str_eval(e.func.value, env)
        args = [str_eval(a, env) for a in e.args]
        if m in ("lower", "upper", "strip", "rstrip", "lstrip", "replace", "title", "capitalize") and isinstance(recv, str):
            return getattr(recv, m)(*args)
        if m == "partition" and isinstance(recv, str):
            return recv.partition(*args)
    if isinstance(e, ast.Call) and dotted(e.func) == "len" and len(e.args) == 1:
        return len(str_eval(e.args[0], env))
    if isinstance(e, ast.Subscript):
        base = str_eval(e.value, env)
        if isinstance(e.slice, ast.Slice):
            return base[_c(e.slice.lower):_c(e.slice.upper)]
        return base[_c(e.slice)]
    if isinstance(e, ast.JoinedStr):
        out = ""
        for v in e.values:
            out += str(str_eval(v.value if isinstance(v, ast.FormattedValue) else v, env))
        return out
    raise Unknown(src(e))


def bool_eval(t: ast.AST, env) -> bool:
    if isinstance(t, ast.BoolOp):
        vals = [bool_eval(v, env) for v in t.values]
        return all(vals) if isinstance(t.op, ast.And) else any(vals)
    if isinstance(t, ast.UnaryOp) and isinstance(t.op, ast.Not):
        return not bool_eval(t.operand, env)
    if isinstance(t, ast.Compare) and len(t.ops) == 1:
        l = str_eval(t.left, env)
        op, r = t.ops[0], t.comparators[0]
        if isinstance(op, (ast.In, ast.NotIn)):
            if isinstance(r, (ast.Tuple, ast.List, ast.Set)):
                rv = [str_eval(x, env) for x in r.elts]
            else:
                rv = str_eval(r, env)
            res = l in rv
            return res if isinstance(op, ast.In) else not res
        rv = str_eval(r, env)
        if isinstance(op, ast.Eq):
            return l == rv
        if isinstance(op, ast.NotEq):
            return l != rv
    v = str_eval(t, env)
    return bool(v)


def run(ctx):
    rep = ctx.rep
    rep.explanation = (
        "Static analysis of C2Profile.from_beacon_config and the builder classes against the compiled grammar: every tree "
        "name a builder call site can emit is an alias of matching arity in the rule of the block it is emitted into; the "
        "BeaconGate and execute-list producers in beacon.py are evaluated completely over their finite vocabularies and "
        "each produced string is run through the consumer's name mapping and looked up in the grammar (alias and keyword); "
        "byte arguments flowing into list-valued blocks must pass an escaping sanitiser; sibling setting branches have equal "
        "summaries; top-level blocks are attached through the non-empty guard."
    )
    rep.not_decided = ["equality of the parsed-back values for all configurations", "options the generator chooses to skip",
                       "escaping of static header/parameter decorations (raw text on both sides of the round trip)"]
    rep.trusted_base = ["lark grammar loader", "CPython ast", "reference BeaconGate/opcode tables"]
    g = Grammar(ctx.repo)
    r1(ctx, g)
    r2(ctx, g)
    r3(ctx, g)
    r4_r5(ctx)
    r6(ctx)
    r8(ctx)
    r9(ctx, g)
    from rules import c03

    c03.r6(ctx, rule="R7")


# ---------------------------------------------------------------------------- R1
def _block_class(ctx, f, recv: ast.AST) -> Optional[str]:
    t = ctx.rs.expr_type(f, recv)
    if t and t.startswith("c2profile."):
        return t.split(".", 1)[1]
    if isinstance(recv, ast.Name) and recv.id == "cls" and f.cls:
        return f.cls
    return None


def r1(ctx, g: Grammar):
    f = ctx.repo.func("c2profile.C2Profile.from_beacon_config")
    n = 0
    top = block_aliases_of(g, ["value"])
    options = set(g.option_values())
    for c in fn_calls(f.node):
        if not isinstance(c.func, ast.Attribute) or c.func.attr not in set(HELPER_ARITY) | ATTACH:
            continue
        recv = c.func.value
        cls = _block_class(ctx, f, recv)
        name = _c(c.args[0]) if c.args else None
        if cls is None:
            continue
        if name is None:
            continue  # computed names are evaluated by R2/R3 and the build-selector check below
        n += 1
        m = c.func.attr
        if cls == "C2Profile":
            if m == "set_option":
                ok = name in options
                ctx.ob("R1", "VOCAB", f, f"profile.set_option({name!r})", ok, f"global option {name!r} " + ("is" if ok else "is NOT") + " an alternative of the OPTION terminal", c)
            else:
                ok = name in top
                ctx.ob("R1", "GRAM", f, f"profile.{m}({name!r})", ok, f"top-level block {name!r} " + ("is" if ok else "is NOT") + " a block alias of the grammar's `value` rule", c)
            continue
        origins = BUILDER_RULES.get(cls)
        if not origins:
            ctx.ob("R1", "GRAM", f, src(c)[:60], False, f"builder class {cls} has no grammar rule mapping", c)
            continue
        if m in ATTACH:
            ba = block_aliases_of(g, origins)
            ok = name in ba
            child = c.args[1] if len(c.args) > 1 else None
            ccls = _block_class(ctx, f, child) if child is not None else None
            body_ok = True
            want = None
            if ok and ccls:
                want = set(BUILDER_RULES.get(ccls, [])) if ccls != "DataTransformBlock" else {"data_transform"}
                body_ok = not want or bool(want & ba[name])
            ctx.ob("R1", "GRAM", f, f"{cls}.{m}({name!r})", ok and body_ok,
                   f"{cls} child block {name!r}: block alias in {origins}={ok}; child {ccls} emits alternatives of {sorted(want) if want else '?'} and the grammar body is {sorted(ba.get(name, []))}", c)
        else:
            al = aliases_of(g, origins)
            ar = HELPER_ARITY[m]
            ok = name in al and ar in al[name]
            ctx.ob("R1", "GRAM", f, f"{cls}.{m}({name!r})", ok, f"{cls}.{m} emits {name!r} with {ar} string(s); rules {origins} " + (f"have it with arities {sorted(al[name])}" if name in al else "have no such alias"), c)
    ctx.rep.count("builder_call_sites", n, floor=40)
    # constructor keywords: HttpOptionsBlock(output=DataTransformBlock(...))
    for c in fn_calls(f.node):
        cal = ctx.rs.resolve_call(f, c)
        if cal.kind == "class" and cal.fq.startswith("c2profile.") and c.keywords:
            cls = cal.fq.split(".", 1)[1]
            origins = BUILDER_RULES.get(cls)
            if not origins:
                continue
            for k in c.keywords:
                if k.arg is None or k.arg == "steps":
                    continue
                ba, al = block_aliases_of(g, origins), aliases_of(g, origins)
                ccls = _block_class(ctx, f, k.value)
                ok = (k.arg in ba) if ccls else (k.arg in al)
                ctx.ob("R1", "GRAM", f, f"{cls}({k.arg}=...)", ok, f"constructor keyword {k.arg!r} is a {'block ' if ccls else ''}alias of {origins}={ok}", c)
    # computed block names: the build selectors that parse_transform_binary can emit
    ptb = ctx.repo.func("beacon.parse_transform_binary")
    sel = set()
    bm = [v for st, v in assignments_to(ptb.node, "BUILD_MAP")]
    if bm and isinstance(bm[0], ast.Dict):
        for v in bm[0].values:
            if isinstance(_c(v), str):
                sel.add(_c(v))
    tbl = ctx.repo.const("beacon.SETTING_TO_PRETTYFUNC")
    from csverif.astutil import param_defaults
    sel.add(_c(param_defaults(ptb.node).get("build")))
    for v in tbl.values:
        if isinstance(v, ast.Call) and kwarg(v, "build") is not None:
            sel.add(_c(kwarg(v, "build")))
    sel.discard(None)
    ba = block_aliases_of(g, ["http_get_client_options"])
    for s in sorted(sel):
        ok = s in ba and "data_transform" in ba[s]
        ctx.ob("R1", "VOCAB", f, f"client block {s!r}", ok, f"build selector {s!r} names a data-transform block of the client options={ok}")
    # step names the transform parser can emit are accepted by DataTransformBlock / the grammar
    tr, te = aliases_of(g, ["transform_statement"]), aliases_of(g, ["termination_statement"])
    for nme in sorted(tables.STEPS_NO_ARG):
        low = nme.lower()
        ok = (low in tr and 0 in tr[low]) or (low in te and 0 in te[low])
        ctx.ob("R1", "VOCAB", f, f"step {low}", ok, f"flag step {low!r} is a no-argument transform/termination alias={ok}", nontrivial=False)
    for nme in sorted(tables.STEPS_LEN_ARG - {"_HEADER", "_PARAMETER", "_HOSTHEADER"}):
        low = nme.lower()
        ok = (low in tr and 1 in tr[low]) or (low in te and 1 in te[low])
        ctx.ob("R1", "VOCAB", f, f"step {low}", ok, f"valued step {low!r} is a one-argument transform/termination alias={ok}", nontrivial=False)


# ---------------------------------------------------------------------------- R2
def r2(ctx, g: Grammar):
    prod = ctx.repo.func("beacon.beacon_gate_options_string")
    labels = set()
    for c in fn_calls(prod.node):
        if isinstance(c.func, ast.Attribute) and c.func.attr == "append" and c.args and isinstance(_c(c.args[0]), str):
            labels.add(_c(c.args[0]))
    cd = ctx.cdefs("beacon")["cs_struct"]
    fields = [x.name for x in cd.struct("BeaconGateOptions").fields]
    # the consumer's name mapping
    cons = ctx.repo.func("c2profile.BeaconGateBlock.from_beacon_gate_option_strings")
    en = [c for c in fn_calls(cons.node) if isinstance(c.func, ast.Attribute) and c.func.attr == "_enable"]
    if len(en) != 1:
        ctx.ob("R2", "VOCAB", cons, "block._enable(<name>)", False, "consumer does not emit exactly one _enable per option")
        return
    loopvar = None
    for st in statements(cons.node):
        if isinstance(st, ast.For):
            loopvar = dotted(st.target)
    rules = {r.alias: r for r in g.alternatives("beacon_gate_options")}
    n = 0
    for s in sorted(labels) + fields:
        n += 1
        try:
            name = str_eval(en[0].args[0], {loopvar: s})
        except Unknown as e:
            ctx.ob("R2", "VOCAB", cons, f"option {s}", False, f"cannot evaluate the consumer's name mapping: {e}")
            continue
        r = rules.get(name)
        kw = r.keywords[0] if r is not None and r.keywords else None
        ok = r is not None and kw == s
        ctx.ob("R2", "VOCAB", cons, f"option {s}", ok,
               f"producer can emit {s!r}; consumer emits tree {name!r}; grammar alias " + (f"exists with keyword {kw!r}" if r is not None else "does NOT exist (as_text() raises)") + f" (required keyword {s!r})")
        # and the builder class has that attribute
        attrs = ctx.repo.class_attrs("c2profile.BeaconGateBlock")
        if name not in attrs:
            ctx.ob("R2", "VOCAB", "c2profile.py::BeaconGateBlock", f"attribute {name}", False, f"builder has no attribute {name!r} for option {s!r}")
    ctx.rep.count("beacon_gate_vocabulary", n, floor=27)


# ---------------------------------------------------------------------------- R3
def r3(ctx, g: Grammar):
    prod = ctx.repo.func("beacon.parse_execute_list")
    cd = ctx.cdefs("beacon")["cs_struct"]
    members = [m for m, _v in cd.enum("InjectExecutor").members]
    # the set of executors with module!function arguments, and the statements that render one executor
    special: Set[str] = set()
    INJ = next((dotted(s2.targets[0]) for s2 in statements(prod.node) if isinstance(s2, ast.Assign) and isinstance(s2.value, ast.Call) and dotted(s2.value.func) == "InjectExecutor"), "inject")
    for n in body_walk(prod.node):
        if isinstance(n, ast.Compare) and isinstance(n.ops[0], ast.In) and dotted(n.left) == INJ and isinstance(n.comparators[0], (ast.Tuple, ast.List, ast.Set)):
            special = {(dotted(e) or "").split(".")[-1] for e in n.comparators[0].elts}
    loops_ = [s2 for s2 in statements(prod.node) if isinstance(s2, (ast.While, ast.For))]
    body = loops_[0].body if loops_ else []
    # statements after `inject = InjectExecutor(..)`
    idx = next((i for i, s2 in enumerate(body) if isinstance(s2, ast.Assign) and dotted(s2.targets[0]) == INJ), None)
    if idx is None:
        ctx.ob("R3", "VOCAB", prod, "producer shape", False, "parse_execute_list does not bind `inject = InjectExecutor(..)` in its loop")
        return
    render = body[idx + 1:]
    produced = []
    for m in members:
        env = {f"{INJ}.name": m, INJ: f"InjectExecutor.{m}"}
        for mm in members:
            env[f"InjectExecutor.{mm}"] = f"InjectExecutor.{mm}"
        got: List[Tuple[str, str]] = []
        _simulate_env(render, dict(env), got, emit=lambda c, e, out: out.append(("append", str_eval(c.args[0], e))) if isinstance(c.func, ast.Attribute) and c.func.attr == "append" and c.args else None)
        if len(got) != 1:
            ctx.ob("R3", "VOCAB", prod, f"executor {m}", False, f"producer renders executor {m} as {got} (exactly one string expected)")
            continue
        produced.append((m, got[0][1]))
    # consumer in from_beacon_config
    f = ctx.repo.func("c2profile.C2Profile.from_beacon_config")
    branch = None
    for st in statements(f.node):
        if isinstance(st, ast.If) and "SETTING_PROCINJ_EXECUTE" in src(st.test) and "and" not in src(st.test):
            branch = st
    if branch is None:
        ctx.ob("R3", "VOCAB", f, "consumer shape", False, "no SETTING_PROCINJ_EXECUTE branch in from_beacon_config")
        return
    loop = [s for s in branch.body if isinstance(s, ast.For)]
    item = dotted(loop[0].target) if loop else None
    rules = {r.alias: r for r in g.alternatives("execute_options")}
    cs_spelling = {"NtQueueApcThread_s": "NtQueueApcThread-s", "CreateThread_": "CreateThread", "CreateRemoteThread_": "CreateRemoteThread"}
    for m, s in produced:
        emitted = _simulate(loop[0].body, {item: s}) if loop else []
        want_kw = cs_spelling.get(m, m)
        want_arity = 1 if m in special else 0
        ok = False
        detail = f"producer emits {s!r}; consumer emits nothing: the executor is silently dropped from the profile"
        if len(emitted) == 1:
            meth, name = emitted[0]
            r = rules.get(name)
            kw = r.keywords[0] if r is not None and r.keywords else None
            ar = g.string_arity(r) if r is not None else None
            ok = r is not None and kw == want_kw and ar == want_arity and HELPER_ARITY.get(meth) == want_arity
            detail = f"producer emits {s!r}; consumer calls {meth}({name!r}); grammar alias keyword={kw!r} arity={ar} (required keyword {want_kw!r}, arity {want_arity})"
        elif len(emitted) > 1:
            detail = f"producer emits {s!r}; consumer emits {emitted} (more than one statement)"
        ctx.ob("R3", "VOCAB", f, f"executor {m}", ok, detail)
    ctx.rep.count("executors", len(produced), floor=8)
    # the sibling consumer ExecuteOptionsBlock.from_execute_list accepts the same plain names
    fe = ctx.repo.func("c2profile.ExecuteOptionsBlock.from_execute_list")
    lists = [(_c(n.comparators[0])) for n in body_walk(fe.node) if isinstance(n, ast.Compare) and isinstance(n.ops[0], ast.In) and isinstance(n.comparators[0], (ast.List, ast.Tuple))]
    lists2 = [(_c(n.comparators[0])) for n in ast.walk(branch) if isinstance(n, ast.Compare) and isinstance(n.ops[0], ast.In) and isinstance(n.comparators[0], (ast.List, ast.Tuple))]
    a = sorted(lists[-1]) if lists else None
    b = sorted(lists2[-1]) if lists2 else None
    ctx.ob("R3", "AGREE", fe, "accepted executor names", a == b and a is not None, f"from_execute_list accepts {a}; from_beacon_config accepts {b}")


def _simulate(body: List[ast.stmt], env: Dict[str, object]) -> List[Tuple[str, str]]:
    """Run the consumer's loop body on one concrete item; returns emitted (method, tree name)."""
    out: List[Tuple[str, str]] = []
    env = dict(env)
    for st in body:
        if isinstance(st, ast.If):
            try:
                t = bool_eval(st.test, env)
            except Unknown:
                continue
            sub = _simulate_env(st.body if t else st.orelse, env, out)
        elif isinstance(st, ast.Assign):
            _assign(st, env)
        elif isinstance(st, ast.Expr) and isinstance(st.value, ast.Call):
            _emit(st.value, env, out)
    return out


def _simulate_env(body, env, out, emit=None):
    emit = emit or _emit
    for st in body:
        if isinstance(st, ast.If):
            try:
                t = bool_eval(st.test, env)
            except Unknown:
                continue
            _simulate_env(st.body if t else st.orelse, env, out, emit)
        elif isinstance(st, ast.Assign):
            _assign(st, env)
        elif isinstance(st, ast.AugAssign):
            d = dotted(st.target)
            if d in env:
                try:
                    env[d] = env[d] + str_eval(st.value, env)
                except (Unknown, TypeError):
                    env.pop(d, None)
        elif isinstance(st, ast.Expr) and isinstance(st.value, ast.Call):
            try:
                emit(st.value, env, out)
            except Unknown:
                out.append(("?", "?" + src(st.value)[:40]))


def _assign(st: ast.Assign, env):
    try:
        v = str_eval(st.value, env)
    except Unknown:
        return
    t = st.targets[0]
    if isinstance(t, ast.Tuple) and isinstance(v, tuple) and len(t.elts) == len(v):
        for a, b in zip(t.elts, v):
            if dotted(a):
                env[dotted(a)] = b
    elif dotted(t):
        env[dotted(t)] = v


def _emit(c: ast.Call, env, out):
    if isinstance(c.func, ast.Attribute) and c.func.attr in HELPER_ARITY and c.args:
        try:
            out.append((c.func.attr, str_eval(c.args[0], env)))
        except Unknown:
            out.append((c.func.attr, "?" + src(c.args[0])))


# ---------------------------------------------------------------------------- R4 / R5
def _classify_value(ctx, f, val: ast.AST, at: ast.AST, loopvar: str) -> str:
    """'bytes' (raw bytes handed to value_to_string), 'repr' (repr(v)[2:-1]), 'decode' (unsanitised), or 'other'."""
    cands = reaching_origins(ctx, f, val, at) if isinstance(val, ast.Name) else [val]
    kinds = set()
    for o in cands:
        o = strip_cast(o)
        if isinstance(o, ast.Subscript) and isinstance(o.value, ast.Call) and dotted(o.value.func) == "repr" and _c(o.slice.lower) == 2 and _c(o.slice.upper) == -1:
            kinds.add("repr")
        elif isinstance(o, ast.Name) and o.id == loopvar:
            kinds.add("bytes")
        elif isinstance(o, (ast.For, ast.AsyncFor)):
            kinds.add("bytes")
        elif isinstance(o, ast.Call) and isinstance(o.func, ast.Attribute) and o.func.attr == "decode":
            kinds.add("decode")
        elif isinstance(o, ast.Constant) and isinstance(o.value, bytes):
            kinds.add("bytes")
        else:
            kinds.add("other:" + src(o)[:30])
    return "|".join(sorted(kinds))


def _branch(f, key: str) -> Optional[ast.If]:
    for st in statements(f.node):
        if isinstance(st, ast.If):
            for l, op, r in compare_parts(st.test):
                if isinstance(op, ast.Eq) and dotted(r) == f"BeaconSetting.{key}" and not isinstance(st.test, ast.BoolOp):
                    return st
    return None


def _http_summary(ctx, f, br: ast.If) -> dict:
    summ = {}
    loop = [s for s in br.body if isinstance(s, ast.For)]
    if not loop:
        return summ
    lp = loop[0]
    kv = [dotted(e) for e in lp.target.elts] if isinstance(lp.target, ast.Tuple) else [None, None]
    k, v = kv
    for st in ast.walk(lp):
        if not isinstance(st, ast.If):
            continue
        t = src(st.test)
        apps = [c for s in st.body for c in ast.walk(s) if isinstance(c, ast.Call) and isinstance(c.func, ast.Attribute) and c.func.attr == "append"]
        parts = [_c(c.args[0]) for s in st.body for c in ast.walk(s) if isinstance(c, ast.Call) and isinstance(c.func, ast.Attribute) and c.func.attr == "partition" and c.args]
        decs = [src(c) for s in st.body for c in ast.walk(s) if isinstance(c, ast.Call) and isinstance(c.func, ast.Attribute) and c.func.attr == "decode"]
        if "_HEADER" in t:
            summ["decoration_header"] = (tuple(parts), tuple(decs), [dotted(a.func.value) for a in apps])
        elif "_PARAMETER" in t:
            summ["decoration_param"] = (tuple(parts), tuple(decs), [dotted(a.func.value) for a in apps])
        elif "BUILD" in t:
            summ["build"] = [src(s) for s in st.body]
        elif t == f"{v} is True":
            summ["flag"] = [src(a.args[0]) for a in apps]
    # the final else: valued steps
    valued = []
    for c in ast.walk(lp):
        if isinstance(c, ast.Call) and isinstance(c.func, ast.Attribute) and c.func.attr == "append" and c.args and isinstance(c.args[0], ast.Tuple) and len(c.args[0].elts) == 2 \
                and isinstance(c.func.value, ast.Subscript):
            valued.append((src(c.args[0].elts[0]), _classify_value(ctx, f, c.args[0].elts[1], c, v), c))
    summ["valued"] = [(a, b) for a, b, _c2 in valued]
    summ["_valued_nodes"] = valued
    after = [s for s in br.body if s is not lp and not isinstance(s, (ast.Assign, ast.AnnAssign)) and not (isinstance(s, ast.Expr) and "logger" in src(s))]
    emits = []
    for s in after:
        for c in ast.walk(s):
            if isinstance(c, ast.Call) and isinstance(c.func, ast.Attribute) and c.func.attr in set(HELPER_ARITY) | ATTACH:
                emits.append((c.func.attr, src(c.args[0]) if c.args else None, src(c.args[1])[:40] if len(c.args) > 1 else None))
    summ["emit"] = emits
    return summ


def r4_r5(ctx):
    f = ctx.repo.func("c2profile.C2Profile.from_beacon_config")
    req, post = _branch(f, "SETTING_C2_REQUEST"), _branch(f, "SETTING_C2_POSTREQ")
    if req is None or post is None:
        ctx.ob("R4", "TAINT", f, "http branches", False, "SETTING_C2_REQUEST / SETTING_C2_POSTREQ branches not found")
        return
    sr, sp = _http_summary(ctx, f, req), _http_summary(ctx, f, post)
    n = 0
    for label, summ in (("SETTING_C2_REQUEST", sr), ("SETTING_C2_POSTREQ", sp)):
        for name, kind, node in summ.get("_valued_nodes", []):
            n += 1
            ok = kind in ("bytes", "repr")
            ctx.ob("R4", "TAINT", f, f"{label} valued step {name}", ok,
                   f"byte argument reaches the data-transform block as `{kind}`: " + ("escape-encoded (bytes through value_to_string / repr(v)[2:-1])" if ok else
                   "NOT escape-encoded - a backslash, quote+backslash or control byte yields invalid or unfaithful profile text"), node)
    ctx.rep.count("valued_step_sites", n, floor=2)
    # process-inject transforms and frame headers
    for key in ("SETTING_PROCINJ_TRANSFORM_X86", "SETTING_PROCINJ_TRANSFORM_X64"):
        br = _branch(f, key)
        if br is None:
            ctx.ob("R4", "TAINT", f, key, False, "branch not found")
            continue
        loop = [s for s in br.body if isinstance(s, ast.For)]
        ok = False
        if loop:
            v = dotted(loop[0].target.elts[1]) if isinstance(loop[0].target, ast.Tuple) else None
            handed = {dotted(c.args[1]) for c in ast.walk(br) if isinstance(c, ast.Call) and isinstance(c.func, ast.Attribute) and c.func.attr == "set_option" and len(c.args) == 2
                      and _c(c.args[0]) in ("prepend", "append")}
            sets = [s for s in ast.walk(loop[0]) if isinstance(s, ast.Assign) and dotted(s.targets[0]) in handed]
            ok = bool(sets) and all(_classify_value(ctx, f, s.value, s, v) in ("repr", "bytes") for s in sets)
        ctx.ob("R4", "TAINT", f, f"{key} arguments", ok, "prepend/append bytes are escape-encoded before set_option" if ok else "prepend/append bytes reach set_option without escaping")
    # ---- R5 siblings
    def norm(s):
        return {k: v for k, v in s.items() if not k.startswith("_")}

    a, b = norm(sr), norm(sp)
    def rename(x, old, new):
        return eval(repr(x).replace(old, new)) if x is not None else x
    b2 = rename(b, "http_post_client", "http_get_client")
    diffs = [k for k in sorted(set(a) | set(b2)) if a.get(k) != b2.get(k)]
    ctx.ob("R5", "AGREE", f, "SETTING_C2_REQUEST ~ SETTING_C2_POSTREQ", not diffs,
           "the http-get and http-post client branches have equal summaries (decorations, build, flag steps, valued-step sanitiser, emitted blocks)" if not diffs else
           f"sibling branches differ in {diffs}: " + "; ".join(f"{k}: get={a.get(k)} post={b2.get(k)}" for k in diffs)[:400])
    x86, x64 = _branch(f, "SETTING_PROCINJ_TRANSFORM_X86"), _branch(f, "SETTING_PROCINJ_TRANSFORM_X64")
    if x86 is not None and x64 is not None:
        def summ(br):
            out = []
            for s in br.body:
                t = src(s)
                if isinstance(s, ast.Assign) and dotted(s.targets[0]) == "steps":
                    continue
                out.append(t.replace("transform_x64", "transform_xNN").replace("transform_x86", "transform_xNN"))
            return out
        ok = summ(x86) == summ(x64)
        ctx.ob("R5", "AGREE", f, "PROCINJ_TRANSFORM_X86 ~ X64", ok, "the two process-inject transform branches are equal up to the block name" if ok else "the x86 and x64 process-inject transform branches differ")
    dns = {}
    for st in statements(f.node):
        if isinstance(st, ast.If) and "SETTING_DNS_BEACON_" in src(st.test):
            import re as _re

            key = _re.search(r"SETTING_DNS_BEACON_(\w+)", src(st.test)).group(1)
            calls = [c for s in st.body for c in ast.walk(s) if isinstance(c, ast.Call) and isinstance(c.func, ast.Attribute) and c.func.attr == "set_option"]
            dns[key] = (dotted(calls[0].func.value), _c(calls[0].args[0]), src(calls[0].args[1])) if len(calls) == 1 else None
    main_loop = [s2 for s2 in f.node.body if isinstance(s2, ast.For)]
    valv = dotted(main_loop[0].target.elts[1]) if main_loop and isinstance(main_loop[0].target, ast.Tuple) else "value"
    dnsv = next((dotted(s2.targets[0]) for s2 in statements(f.node) if isinstance(s2, ast.Assign) and isinstance(s2.value, ast.Call) and dotted(s2.value.func) == "DnsBeaconBlock"), "dns_beacon")
    ok = len(dns) == 6 and all(v is not None and v[0] == dnsv and v[1] == k.lower() and v[2] == valv for k, v in dns.items())
    ctx.ob("R5", "AGREE", f, "DNS_BEACON_* siblings", ok, f"each DNS subhost setting is emitted under its own lower-cased name: {dns}")


# ---------------------------------------------------------------------------- R6
def r6(ctx):
    f = ctx.repo.func("c2profile.C2Profile.from_beacon_config")
    main = [s for s in f.node.body if isinstance(s, ast.For)]
    if len(main) != 1:
        ctx.ob("R6", "DOM", f, "settings loop", False, f"{len(main)} top-level loops")
        return
    idx = f.node.body.index(main[0])
    epi = f.node.body[idx + 1:]
    n = 0
    for st in epi:
        for c in ast.walk(st):
            if isinstance(c, ast.Call) and isinstance(c.func, ast.Attribute) and c.func.attr in ATTACH:
                n += 1
                ok = c.func.attr == "set_non_empty_config_block"
                ctx.ob("R6", "DOM", f, f"epilogue {c.func.attr}({src(c.args[0]) if c.args else ''}) on {_block_class(ctx, f, c.func.value)}", ok,
                       "attached only when non-empty" if ok else "block attached unconditionally: an empty block would be emitted", c)
    ctx.rep.count("epilogue_attachments", n, floor=8)
    g = ctx.repo.func("c2profile.ConfigBlock.set_non_empty_config_block")
    calls = [c for c in fn_calls(g.node) if dotted(c.func) == "self.set_config_block"]
    ok = len(calls) == 1 and guarded_by(ctx, g, calls[0], lambda t: True if src(t) == f"{params(g.node)[2]}.tree.children" else None)
    ctx.ob("R6", "DOM", g, "if config_block.tree.children", bool(ok), "attaches only when the child has children" if ok else "set_non_empty_config_block does not test the child's children")
    # attachments inside the loop are guarded by a non-emptiness condition or attach a DataTransformBlock
    for c in ast.walk(main[0]):
        if isinstance(c, ast.Call) and isinstance(c.func, ast.Attribute) and c.func.attr == "set_config_block":
            child = c.args[1] if len(c.args) > 1 else None
            cls = _block_class(ctx, f, child) if child is not None else None
            conds = [t for t, pol, n2 in dominating_conditions(ctx, f, c) if pol]
            main_loop = [s2 for s2 in f.node.body if isinstance(s2, ast.For)]
            valv = dotted(main_loop[0].target.elts[1]) if main_loop and isinstance(main_loop[0].target, ast.Tuple) else "value"
            # names whose truthiness decides that something was put into the child block
            child = dotted(c.args[1]) if len(c.args) > 1 else None
            fed = set()
            for k2 in fn_calls(f.node):
                if isinstance(k2.func, ast.Attribute) and dotted(k2.func.value) == child and k2.func.attr in HELPER_ARITY and len(k2.args) > 1 and dotted(k2.args[1]):
                    fed.add(dotted(k2.args[1]))
            def _truthy_guard(t):
                names = {x.strip() for x in t.replace(" and ", " or ").split(" or ")}
                return valv in names or (bool(fed) and names <= fed | {valv}) 
            guarded = any(_truthy_guard(t) for t in conds)
            ok = cls == "DataTransformBlock" or guarded
            ctx.ob("R6", "DOM", f, f"in-loop set_config_block({src(c.args[0])})", ok,
                   f"in-loop attachment of {cls}: " + ("a data transform always has its steps/termination children" if cls == "DataTransformBlock" else f"guarded by {conds[-2:]}" if guarded else "not guarded against an empty child"), c)


def r9(ctx, g):
    """DataTransformBlock.__init__ accepts every step the generator can hand it: each lower-cased opcode name of the
    transform / recover parsers is routed to add_step or add_termination under a name that is an alias of the matching
    statement kind and arity - a name no branch accepts is dropped silently and the block no longer parses."""
    f = ctx.repo.func("c2profile.DataTransformBlock.__init__")
    loops = [s for s in statements(f.node) if isinstance(s, ast.For)]
    if len(loops) != 1 or not dotted(loops[0].target):
        ctx.ob("R9", "VOCAB", f, "steps loop", False, f"expected one `for <option> in steps` loop, found {len(loops)}", f.node)
        return
    opt = dotted(loops[0].target)
    tr, te = aliases_of(g, ["transform_statement"]), aliases_of(g, ["termination_statement"])

    def emit(c, env, out):
        if isinstance(c.func, ast.Attribute) and c.func.attr in ("add_step", "add_termination") and len(c.args) == 2:
            try:
                name = str_eval(c.args[0], env)
            except Unknown:
                name = "?" + src(c.args[0])
            out.append((c.func.attr, name, 0 if is_const(c.args[1], None) else 1))

    flags = sorted({n.lower() for n in tables.STEPS_NO_ARG} | {n.lower() for n, has in tables.RECOVER_STEPS.items() if not has})
    valued = sorted({n.lower() for n in tables.STEPS_LEN_ARG if not n.startswith("_")} | {n.lower() for n, has in tables.RECOVER_STEPS.items() if has})
    n = 0
    for name, env, ar in [(x, {opt: x}, 0) for x in flags] + [(x, {opt: (x, "v")}, 1) for x in valued]:
        out = []
        _simulate_env(loops[0].body, dict(env), out, emit)
        ok = len(out) == 1
        detail = f"{name!r} ({'flag' if ar == 0 else 'valued'}) -> {out}"
        if ok:
            m, emitted, got_ar = out[0]
            tab = tr if m == "add_step" else te
            ok = got_ar == ar and emitted in tab and ar in tab[emitted]
            detail += f"; {'transform' if m == 'add_step' else 'termination'} alias {emitted!r} with {ar} argument(s) in the grammar={ok}"
        else:
            detail += " (exactly one add_step/add_termination expected: the step is dropped or duplicated)"
        ctx.ob("R9", "VOCAB", f, f"step {name}", ok, detail, loops[0])
        n += 1
    ctx.rep.count("builder_step_names", n, floor=10)


def r8(ctx):
    """DataTransformBlock.add_step / add_termination: an argument is attached iff it is not None (empty arguments are
    legal), and the two siblings agree."""
    a = ctx.repo.func("c2profile.DataTransformBlock.add_step")
    b = ctx.repo.func("c2profile.DataTransformBlock.add_termination")
    shapes = {}
    for g in (a, b):
        val = params(g.node)[2]
        ifs = [s2 for s2 in statements(g.node) if isinstance(s2, ast.If)]
        guard = src(ifs[0].test) if len(ifs) == 1 else None
        ok = guard == f"{val} is not None"
        ctx.ob("R8", "AGREE", g, "argument attached iff not None", ok, f"guard `{guard}` (required `{val} is not None`: an empty argument still needs its string child, otherwise the text does not parse)")
        body = [src(s2).replace("self.steps", "self.LIST").replace("self.termination", "self.LIST") for s2 in statements(g.node) if not isinstance(s2, ast.Expr) or not isinstance(s2.value, ast.Constant)]
        shapes[g.qualname] = body
    vals = list(shapes.values())
    ctx.ob("R8", "AGREE", a, "add_step ~ add_termination", vals[0] == vals[1], "the two builders are equal up to the list they append to" if vals[0] == vals[1] else f"siblings differ: {shapes}")
